# Builds the simulation harness against /verif/build/<FLAVOUR>/libcoap-3.a
FLAVOUR ?= sim
B := build/$(FLAVOUR)
OBJ := build/obj-$(FLAVOUR)
CXX := clang++
SAN := -fsanitize=address,undefined -fno-sanitize=nonnull-attribute -fno-sanitize-recover=undefined
ifeq ($(FLAVOUR),plain)
CXX := g++
SAN :=
endif
REPO ?= /repo
CXXFLAGS := -std=c++17 -O1 -g -fno-omit-frame-pointer $(SAN) -Wall -Wextra -Wno-unused-parameter \
   -I$(REPO)/include -I$(B)/include -I$(B) -Isrc
WRAPS := socket bind listen accept connect getsockname getpeername setsockopt getsockopt ioctl close send sendmsg recv recvmsg \
   epoll_create1 epoll_ctl epoll_wait select timerfd_create timerfd_settime read coap_malloc_type coap_realloc_type coap_free_type exit coap_pdu_parse \
   fopen fclose fflush fwrite fprintf rename remove pthread_mutex_lock pthread_mutex_trylock pthread_mutex_unlock
WRAPFLAGS := $(foreach s,$(WRAPS),-Wl,--wrap=$(s))
# reference models written in parallel are only compiled once marked ready (src/<name>.ready)
WIP := $(foreach n,r9 r10 r11,$(if $(wildcard src/$(n).ready),,src/$(n).cpp))
SRCS := $(filter-out $(WIP),$(wildcard src/*.cpp))
OBJS := $(patsubst src/%.cpp,$(OBJ)/%.o,$(SRCS)) $(OBJ)/lockimg.o
BIN := build/simcheck$(if $(filter sim,$(FLAVOUR)),,-$(FLAVOUR))

all: $(BIN)

# objects depend on the library's headers (public ones and the generated defines), not on the archive: a change to a .c file
# of /repo only re-links
$(OBJ)/%.o: src/%.cpp $(wildcard src/*.h) $(wildcard $(REPO)/include/coap3/*.h) $(B)/include/coap3/coap_defines.h
	@mkdir -p $(OBJ)
	$(CXX) $(CXXFLAGS) -c $< -o $@

$(OBJ)/lockimg.o: src/lockimg.c $(wildcard $(REPO)/include/coap3/*.h) $(B)/include/coap3/coap_defines.h
	@mkdir -p $(OBJ)
	clang -O1 -g -I$(REPO)/include -I$(B)/include -I$(B) -c $< -o $@

$(BIN): $(OBJS) $(B)/libcoap-3.a
	$(CXX) $(SAN) -o $@ $(OBJS) $(B)/libcoap-3.a $(WRAPFLAGS) -lgnutls -lnettle -lpthread

clean:
	rm -rf build/obj-* build/simcheck*
