#!/bin/bash
# One-time setup after a fresh restore: build libcoap (sim flavour) and the harness. Offline, from files on disk only.
cd "$(dirname "$0")"
mkdir -p build evidence replays
./scripts/build_lib.sh sim && make -s -j16 FLAVOUR=sim
