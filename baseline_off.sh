#!/bin/bash
# Runs libcoap's own unit-test suite (tests/testdriver, 176 CUnit tests) built from
# /repo's working tree with repository defaults; no verification guard or wrap is involved.
set -e
REPO=${VERIF_REPO:-/repo}
D=$(mktemp -d /var/tmp/libcoap-baseline.XXXXXX)
trap 'rm -rf "$D"' EXIT
cmake -S "$REPO" -B "$D" -G Ninja -DENABLE_DOCS=OFF -DENABLE_EXAMPLES=OFF -DENABLE_TESTS=ON >"$D/cmake.log" 2>&1 || { cat "$D/cmake.log"; exit 2; }
cmake --build "$D" >"$D/build.log" 2>&1 || { tail -40 "$D/build.log"; exit 2; }
cd "$REPO/tests" 2>/dev/null || true
"$D/testdriver" | tee "$D/out.txt" | tail -15
awk '$1=="tests"{t=$2;r=$3;p=$4;f=$5} END{ if (t>0 && t==r && r==p && f==0) exit 0; exit 1 }' "$D/out.txt"
