#!/bin/bash
# scripts/run_matrix.sh : apply every kept seeded change (seeded/<ID>-mN/patch.diff) to /repo in turn, run the quick check of
# its property for 20 s, undo. One line per change in seeded/matrix.log. Needs exclusive use of /repo and /verif/build.
cd /verif
: > seeded/matrix.log
for d in seeded/C*-m*; do
  id=$(basename $d | cut -d- -f1)
  out=$(timeout 900 scripts/try_mutant.sh /verif/$d/patch.diff $id --budget 20 2>&1)
  rules=$(echo "$out" | grep -A1 "^VIOLATION" | grep "rule=" | sed 's/^ *//' | sort -u | tr '\n' ';')
  nv=$(echo "$out" | grep -c "^VIOLATION")
  last=$(echo "$out" | grep "^$id quick" | tail -1)
  echo "$(basename $d) violations=$nv $rules :: $last" >> seeded/matrix.log
done
echo DONE >> seeded/matrix.log
