#!/bin/bash
# scripts/make_seeded.sh : copy the sub-agents' seeded changes (/tmp/mut/<ID>.out/mN) into /verif/seeded/<ID>-mN and
# re-confirm each one in a scratch worktree of /repo HEAD (scripts/verify_seeded.sh). Result lines go to seeded/verify.log.
set -u
mkdir -p /verif/seeded
: > /verif/seeded/verify.log
one() {
  src=$1
  id=$(basename "$(dirname "$src")" .out)
  m=$(basename "$src")
  dst=/verif/seeded/$id-$m
  patch=$src/patch.diff
  [ -f "$src/patch.rebased.diff" ] && patch=$src/patch.rebased.diff
  [ -f "$patch" ] || return
  if ! git -C /repo apply --check "$patch" 2>/dev/null; then echo "RESULT $dst patch-does-not-apply-to-HEAD" >> /verif/seeded/verify.log; return; fi
  rm -rf "$dst"; mkdir -p "$dst"
  cp "$patch" "$dst/patch.diff"
  for f in demo.c run.sh README.txt demo.sh demo.py; do [ -f "$src/$f" ] && cp "$src/$f" "$dst/"; done
  /verif/scripts/verify_seeded.sh "$dst" 2>&1 | grep RESULT >> /verif/seeded/verify.log
}
export -f one
ls -d /tmp/mut/C*.out/m* | xargs -P 3 -I{} bash -c 'one {}'
echo DONE >> /verif/seeded/verify.log
