#!/bin/bash
# scripts/try_mutant.sh <patch.diff> <Cxx> [extra simcheck args]: apply a seeded change to /repo, run the quick check, undo.
P=$1; ID=$2; shift 2
cd /verif
git -C /repo apply "$P" || { echo "patch does not apply"; exit 3; }
trap 'git -C /repo checkout -- .; rm -rf /verif/replays/'$ID'; /verif/scripts/build_lib.sh sim >/dev/null 2>&1; make -s -C /verif -j16 >/dev/null 2>&1' EXIT
./check $ID quick --no-evidence "$@" 2>&1 | grep -E "^VIOLATION|^  rule=|^C[0-9]+ quick|KNOWN|MACHINERY" | head -12
