#!/bin/bash
# scripts/try_mutant_ns.sh <patch.diff> <Cxx> [extra simcheck args]
# Like try_mutant.sh, but leaves /repo and /verif/build alone so that it can run next to other work and next to other instances:
# a scratch worktree of /repo HEAD with the change applied and a scratch copy of /verif are bind-mounted over /repo and /verif in a
# private mount namespace, so every path (crash signatures, known findings, corpus) is what the registered check sees.
# Needs root (unshare -m). Prints the VIOLATION / rule / summary lines of `./check <Cxx> quick --no-evidence`.
P=$(realpath "$1"); ID=$2; shift 2
WT=$(mktemp -d /tmp/mwt.XXXXXX); VC=$(mktemp -d /tmp/mvf.XXXXXX)
trap 'git -C /repo worktree remove --force "$WT" >/dev/null 2>&1; rm -rf "$WT" "$VC"' EXIT
git -C /repo worktree add --detach "$WT" HEAD >/dev/null 2>&1 || { echo "worktree failed"; exit 3; }
git -C "$WT" apply "$P" || { echo "patch does not apply"; exit 3; }
# files the change does not touch keep the time stamps of /repo's copies: only what depends on the changed files is rebuilt
( cd "$WT" && git ls-files src include | while read -r f; do [ -f "/repo/$f" ] && cmp -s "$f" "/repo/$f" && touch -r "/repo/$f" "$f"; done )
rsync -a --exclude .git --exclude build/logs --exclude build/scratch --exclude 'build/simcheck.*' --exclude seeded --exclude replays /verif/ "$VC/"
mkdir -p "$VC/replays" "$VC/build/logs"
TIER=${MUT_TIER:-quick}
unshare -m bash -c "mount --bind '$WT' /repo && mount --bind '$VC' /verif && cd /verif && ./check $ID $TIER --no-evidence $* 2>&1" \
  | grep -E "^VIOLATION|^  rule=|^C[0-9]+ (quick|thorough)|KNOWN|MACHINERY" | head -${MUT_LINES:-14}
