#!/bin/bash
# scripts/sweep_seeds.sh <tier> <seed>... : run every check's <tier> under other base seeds with a private copy of the binary
# (no rebuild, no evidence); one line per (seed, property) in build/seeds.log plus any VIOLATION / MACHINERY lines.
cd /verif
tier=$1; shift
cp build/simcheck build/simcheck.sweep
for seed in "$@"; do
  for id in C01 C02 C03 C04 C05 C06 C07 C08 C09 C10 C11 C12 C13 C14 C15 C16 C17 C18 C19 C20; do
    out=$(VERIF_SEED=$seed timeout 1800 build/simcheck.sweep $id $tier --no-evidence 2>&1)
    echo "$out" | grep -E "^VIOLATION|^  rule=|MACHINERY" | head -8 | sed "s/^/seed=$seed $id: /" >> build/seeds.log
    echo "$out" | grep "^$id $tier" | sed "s/^/seed=$seed /" >> build/seeds.log
  done
done
echo "DONE $tier $*" >> build/seeds.log
