#!/bin/bash
# scripts/seed2.sh <ID> <mN> [budget]: take a second-wave seeded change from /tmp/mut2/<ID>.out/<mN>, keep it as seeded/<ID>-<mN>,
# re-confirm it (verify_seeded.sh: applies, builds, 176/176, demo passes clean / fails changed) and run the quick check of its
# property against it in a private mount namespace (try_mutant_ns.sh). Lines go to seeded/verify2.log and seeded/matrix2.log.
ID=$1; M=$2; BUDGET=${3:-30}
src=${MUTDIR:-/tmp/mut2}/$ID.out/$M; dst=/verif/seeded/$ID-$M
[ -f "$src/patch.diff" ] || { echo "no $src/patch.diff"; exit 1; }
rm -rf "$dst"; mkdir -p "$dst"
for f in patch.diff demo.c run.sh README.txt; do [ -f "$src/$f" ] && cp "$src/$f" "$dst/"; done
for f in "$src"/*; do case "$(basename $f)" in patch.diff|demo.c|run.sh|README.txt) ;; *) [ -f "$f" ] && [ $(stat -c %s "$f") -lt 200000 ] && cp "$f" "$dst/";; esac; done
v=$(/verif/scripts/verify_seeded.sh "$dst" 2>&1 | grep RESULT)
echo "$v" >> /verif/seeded/verify2.log
out=$(timeout 1500 /verif/scripts/try_mutant_ns.sh "$dst/patch.diff" $ID --budget $BUDGET 2>&1)
rules=$(echo "$out" | grep "rule=" | sed 's/^ *//' | sort -u | tr '\n' ';')
nv=$(echo "$out" | grep -c "^VIOLATION")
last=$(echo "$out" | grep "^$ID quick" | tail -1)
echo "$ID-$M violations=$nv $rules :: $last" >> /verif/seeded/matrix2.log
echo "$v"; echo "$ID-$M violations=$nv $rules :: $last"
