#!/bin/bash
# Build libcoap from /repo's current working tree into /verif/build/<flavour>.
# Usage: build_lib.sh <flavour>     flavours: sim  sim-ts1  plain
set -e
FL=${1:-sim}
REPO=${VERIF_REPO:-/repo}
B=/verif/build/$FL
mkdir -p "$B"
exec 9>"$B/.lock"
flock 9
SAN="-fsanitize=address,undefined -fno-sanitize=nonnull-attribute -fno-sanitize-recover=undefined"
case "$FL" in
  sim)      CC=clang; CFLAGS="$SAN -O1 -g -fno-omit-frame-pointer"; EXTRA="" ;;
  sim-ts1)  CC=clang; CFLAGS="$SAN -O1 -g -fno-omit-frame-pointer"; EXTRA="-DENABLE_THREAD_SAFE=1" ;;
  plain)    CC=gcc;   CFLAGS="-O1 -g"; EXTRA="" ;;
  *) echo "unknown flavour $FL" >&2; exit 2 ;;
esac
if [ ! -f "$B/build.ninja" ] || [ "$(cat $B/.repo 2>/dev/null)" != "$REPO" ]; then
  rm -rf "$B/CMakeCache.txt" "$B/CMakeFiles"
  cmake -S "$REPO" -B "$B" -G Ninja -DENABLE_DOCS=OFF -DENABLE_EXAMPLES=OFF -DENABLE_TESTS=OFF \
     -DCMAKE_BUILD_TYPE= -DCMAKE_C_COMPILER=$CC -DCMAKE_C_FLAGS="$CFLAGS" $EXTRA >"$B/cmake.log" 2>&1 || { cat "$B/cmake.log"; exit 2; }
  echo "$REPO" > "$B/.repo"
fi
cmake --build "$B" >"$B/build.log" 2>&1 || { tail -50 "$B/build.log"; exit 2; }
