#!/bin/bash
# scripts/run_matrix2.sh [jobs]: run the quick check of its property against every second-wave seeded change (seeded/C*-m3, -m4),
# each in a private mount namespace (try_mutant_ns.sh), JOBS at a time. One line per change in seeded/matrix2.log.
cd /verif
JOBS=${1:-2}
: > seeded/matrix2.log
one() {
  d=$1; id=${d%%-*}
  out=$(timeout 1500 /verif/scripts/try_mutant_ns.sh /verif/seeded/$d/patch.diff $id --budget 30 2>&1)
  rules=$(echo "$out" | grep "rule=" | sed 's/^ *//' | sort -u | tr '\n' ';')
  nv=$(echo "$out" | grep -c "^VIOLATION")
  last=$(echo "$out" | grep "^$id quick" | tail -1)
  echo "$d violations=$nv $rules :: $last" >> /verif/seeded/matrix2.log
}
export -f one
ls -d seeded/C*-m[1-6] | xargs -n1 basename | xargs -P $JOBS -I{} bash -c 'one {}'
sort -o seeded/matrix2.log seeded/matrix2.log
echo DONE
