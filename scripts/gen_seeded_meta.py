#!/usr/bin/env python3
# scripts/gen_seeded_meta.py : write seeded/<id>-m<n>/meta.json from the author's README, seeded/verify.log and seeded/matrix.log,
# and print the markdown table for DESIGN.md 14.5.
import json, os, re, sys
root = '/verif/seeded'
verify = {}
for l in open(os.path.join(root, 'verify.log')):
    m = re.match(r'RESULT /verif/seeded/(\S+) (.*)', l)
    if m: verify[m.group(1)] = m.group(2).strip()
matrix = {}
if os.path.exists(os.path.join(root, 'matrix.log')):
    for l in open(os.path.join(root, 'matrix.log')):
        m = re.match(r'(C\d+-m\d+) violations=(\d+) (.*?) :: (.*)', l)
        if m: matrix[m.group(1)] = (int(m.group(2)), m.group(3).strip(), m.group(4).strip())
rows = []
for d in sorted(os.listdir(root)):
    p = os.path.join(root, d)
    if not os.path.isdir(p) or not os.path.exists(os.path.join(p, 'patch.diff')): continue
    pid = d.split('-')[0]
    readme = open(os.path.join(p, 'README.txt'), errors='replace').read() if os.path.exists(os.path.join(p, 'README.txt')) else ''
    title = next((l.strip() for l in readme.splitlines() if l.strip() and not set(l.strip()) <= set('=-')), d)
    title = re.sub(r'^C\d+\s*[/ ]*\s*(seeded defect)?\s*m\d+\s*[-:]*\s*', '', title, flags=re.I).strip(' -:"')
    needs = ''
    m = re.search(r'(What is needed[^\n]*\n[-=]*\n)(.*?)(\n[A-Z][^\n]*\n[-=]{3,}|\Z)', readme, re.S)
    if m: needs = ' '.join(m.group(2).split())[:900]
    files = [l[6:].strip() for l in open(os.path.join(p, 'patch.diff')) if l.startswith('+++ b/')]
    mx = matrix.get(d)
    meta = {
        'property': pid,
        'change': title,
        'files_touched': files,
        'needs_to_manifest': needs,
        'author': 'sub-agent given only the property text and a scratch worktree of /repo; nothing from /verif',
        'confirmed_in_scratch_worktree': verify.get(d, 'not run'),
        'how_confirmed': 'scripts/verify_seeded.sh: git worktree of /repo HEAD, demo (run.sh) on the clean tree, git apply patch.diff, cmake build, tests/testdriver (176 tests), demo again',
        'check_run': f'scripts/try_mutant.sh /verif/seeded/{d}/patch.diff {pid} --budget 20  (git -C /repo apply; ./check {pid} quick --no-evidence --budget 20; git -C /repo checkout -- .)',
        'check_result': ({'violations': mx[0], 'rules': [r for r in mx[1].split(';') if r], 'summary': mx[2]} if mx else 'not run'),
    }
    json.dump(meta, open(os.path.join(p, 'meta.json'), 'w'), indent=1)
    if mx:
        rules = sorted(set(re.sub(r'rule=(\S+) sig=(\S+)', r'\1 [\2]', r) for r in mx[1].split(';') if r))
        rows.append(f"| {d} | {title[:90]} | {'**caught**' if mx[0] else 'missed'} | {'; '.join(rules)[:160]} |")
    else:
        rows.append(f"| {d} | {title[:90]} | not run | |")
print('| change | what it does | quick check of its property (20 s) | violated rule [signature] |')
print('|---|---|---|---|')
print('\n'.join(rows))
