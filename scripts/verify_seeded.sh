#!/bin/bash
# scripts/verify_seeded.sh <dir with patch.diff demo.c run.sh> : confirm a seeded change independently of its author:
# (1) applies to /repo HEAD, (2) builds and passes the 176 unit tests, (3) demo passes without and fails with the change.
D=$(realpath "$1")
WT=$(mktemp -d /tmp/seedchk.XXXXXX)
trap 'git -C /repo worktree remove --force "$WT" >/dev/null 2>&1; rm -rf "$WT"' EXIT
git -C /repo worktree add --detach "$WT" HEAD >/dev/null 2>&1 || { echo "RESULT $D worktree-failed"; exit 1; }
chmod +x "$D/run.sh"
( cd "$D" && timeout 600 ./run.sh "$WT" >"$WT.clean.log" 2>&1 ); rc_clean=$?
git -C "$WT" apply "$D/patch.diff" || { echo "RESULT $D patch-does-not-apply"; exit 1; }
cmake -S "$WT" -B "$WT/_b" -G Ninja -DENABLE_DOCS=OFF -DENABLE_EXAMPLES=OFF -DENABLE_TESTS=ON >/dev/null 2>&1 && cmake --build "$WT/_b" >"$WT.build.log" 2>&1
rc_build=$?
tests=$(cd "$WT/tests" && ../_b/testdriver 2>/dev/null | awk '$1=="tests"{print $2"/"$4"/"$5}')
rm -rf "$WT/_b"
( cd "$D" && timeout 600 ./run.sh "$WT" >"$WT.mut.log" 2>&1 ); rc_mut=$?
echo "RESULT $D build=$rc_build tests(total/passed/failed)=$tests demo_clean_exit=$rc_clean demo_mutant_exit=$rc_mut"
rm -f "$WT".*.log
