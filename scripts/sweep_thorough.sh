#!/bin/bash
# scripts/sweep_thorough.sh [budget_s] : run the thorough tier of every check in turn with a private copy of the binary
# (no rebuild, no evidence) and log one line per property to build/sweep.log. Used to flush out rare alarms.
cd /verif
cp build/simcheck build/simcheck.sweep
: > build/sweep.log
for id in C01 C02 C03 C04 C05 C06 C07 C08 C09 C10 C11 C12 C13 C14 C15 C16 C17 C18 C19 C20; do
  out=$(timeout 1800 build/simcheck.sweep $id thorough --no-evidence ${1:+--budget $1} 2>&1)
  echo "$out" | grep -E "^VIOLATION|^  rule=|MACHINERY" | head -8 | sed "s/^/$id: /" >> build/sweep.log
  echo "$out" | grep "^$id thorough" >> build/sweep.log
done
echo DONE >> build/sweep.log
