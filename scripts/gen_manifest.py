#!/usr/bin/env python3
# Regenerates /verif/MANIFEST.json from scripts/checks.json (claimed checks) and properties.jsonl.
import json, sys
props = [json.loads(l) for l in open('/verif/properties.jsonl')]
checks = json.load(open('/verif/scripts/checks.json'))
claimed = {c['property_id'] for c in checks['checks']}
na = checks.get('not_applicable', {})
m = {
 "version": 1,
 "setup_cmd": "./setup.sh",
 "hooks": {
   "guard": "OBGM_LIBCOAP_VERIF",
   "enable": "no source hooks are needed: every check builds /repo's working tree with the repository's own CMake files (scripts/build_lib.sh -> /verif/build/sim, clang ASan+UBSan) and links libcoap-3.a into the simulator with -Wl,--wrap=<symbol> seams (sockets, epoll, timerfd, select, read, libcoap's allocator, coap_pdu_parse, stdio/rename for C17, pthread_mutex_* for C13; clock_gettime/time/getrandom are strong definitions in the executable), see DESIGN.md sections 2.1 and 14",
   "baseline_off_cmd": "./baseline_off.sh",
   "source_commits": [],
   "add_only": True
 },
 "engines": [{"name": "simcheck", "path": "build/simcheck (sources: src/*.cpp, built by ./setup.sh or ./check)",
              "serves_properties": sorted(claimed),
              "kind_free_text": "deterministic discrete-event simulator: real libcoap on a simulated kernel (clock, UDP/TCP, epoll, timerfd, allocator, files), seeded plans with explicit faults, reference-model oracles, ddmin minimisation, replay files"}],
 "checks": [],
 "notes": checks.get('notes', ''),
 "not_applicable": []
}
for c in checks['checks']:
    pid = c['property_id']
    e = {
      "property_id": pid,
      "quick_cmd": "./check %s quick" % pid,
      "thorough_cmd": "./check %s thorough" % pid,
      "evidence_file": "/verif/evidence/%s.json" % pid,
      "replay_cmd_template": "./check %s --replay {path}" % pid,
      "engine": "simcheck",
      "level_claimed": {"category": c.get('category', 'exploration'), "text": c['level_text'], "design_ref": c.get('design_ref', 'DESIGN.md section 6')},
      "level_note": c['level_note'],
      "technique": c['technique'],
    }
    m["checks"].append(e)
for p in props:
    if p['id'] not in claimed:
        m["not_applicable"].append({"property_id": p['id'], "reason": na.get(p['id'], "check not built yet (work in progress; DESIGN.md section 13 gives the build order)")})
json.dump(m, open('/verif/MANIFEST.json', 'w'), indent=1)
print("claimed:", sorted(claimed))
