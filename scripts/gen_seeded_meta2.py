#!/usr/bin/env python3
# scripts/gen_seeded_meta2.py : second wave of seeded changes (seeded/<id>-m3, -m4): write meta.json from the author's README,
# seeded/verify2.log, seeded/matrix2.first.log (the check as it stood when the change arrived) and seeded/matrix2.log (the check
# as committed now; scripts/run_matrix2.sh), and print the markdown table for DESIGN.md 14.5.
import json, os, re
root = '/verif/seeded'
def load(name):
    out = {}
    p = os.path.join(root, name)
    if os.path.exists(p):
        for l in open(p):
            m = re.match(r'(C\d+-m\d+) violations=(\d+) (.*?) :: (.*)', l)
            if m:
                rules = sorted(set(re.findall(r'rule=(\S+) sig=([^;]*)', m.group(3))))
                out[m.group(1)] = (int(m.group(2)), rules, m.group(4).strip())
    return out
first, final = load('matrix2.first.log'), load('matrix2.log')
cross = load('matrix2.cross.log')
verify = {}
for l in open(os.path.join(root, 'verify2.log')):
    m = re.match(r'RESULT /verif/seeded/(\S+) (.*)', l)
    if m: verify[m.group(1)] = m.group(2).strip()
rows = []
for d in sorted(os.listdir(root)):
    if not re.match(r'C\d+-m[3-6]$', d): continue
    p = os.path.join(root, d)
    pid = d.split('-')[0]
    readme = open(os.path.join(p, 'README.txt'), errors='replace').read() if os.path.exists(os.path.join(p, 'README.txt')) else ''
    lines = [l.strip() for l in readme.splitlines() if l.strip() and not set(l.strip()) <= set('=-~')]
    title = lines[0] if lines else d
    title = re.sub(r'^(C\d+\s*[/ -]*\s*)?(seeded (defect|change))?\s*(m\d+)?\s*[-:–—]*\s*', '', title, flags=re.I).strip(' -:"')
    needs = ''
    m = re.search(r'\n[^\n]*needs?[^\n]*manifest[^\n]*\n[-=~]*\n?(.*?)(\n[A-Z][A-Za-z \'/()-]{8,}\n[-=~]{3,}|\n[A-Z][A-Z \'/()-]{10,}\n|\Z)', readme, re.S | re.I)
    if m: needs = ' '.join(m.group(1).split())[:1200]
    files = [l[6:].strip() for l in open(os.path.join(p, 'patch.diff')) if l.startswith('+++ b/')]
    f0, f1 = first.get(d), final.get(d)
    def res(x): return {'violations': x[0], 'rules': [f'{a} [{b}]' for a, b in x[1]], 'summary': x[2]} if x else 'not run'
    meta = {
        'property': pid, 'change': title, 'files_touched': files, 'needs_to_manifest': needs,
        'author': 'second-wave sub-agent given only the property text and a scratch worktree of /repo; nothing from /verif',
        'confirmed_in_scratch_worktree': verify.get(d, 'not run'),
        'how_confirmed': 'scripts/verify_seeded.sh: git worktree of /repo HEAD, demo (run.sh) on the clean tree, git apply patch.diff, cmake build, tests/testdriver (176 tests), demo again',
        'check_run': f'scripts/try_mutant_ns.sh /verif/seeded/{d}/patch.diff {pid} --budget 30  (scratch worktree of /repo HEAD with the change + scratch copy of /verif bind-mounted over /repo and /verif in a private mount namespace; ./check {pid} quick --no-evidence)',
        'check_result_when_the_change_arrived': res(f0),
        'check_result': res(f1),
    }
    if d in cross: meta['caught_by_other_check'] = res(cross[d])
    json.dump(meta, open(os.path.join(p, 'meta.json'), 'w'), indent=1)
    def cell(x): return 'not run' if not x else ('**caught**' if x[0] else 'missed')
    rules = '; '.join(f'{a} [{b[:40]}]' for a, b in (f1[1] if f1 else []))[:150]
    extra = ''
    if d in cross and cross[d][0]: extra = ' (caught by ' + cross[d][2].split()[0] + ')'
    rows.append(f"| {d} | {title[:100]} | {cell(f0)} | {cell(f1)}{extra} | {rules} |")
print('| change | what it does | check when the change arrived | check as committed | violated rule [signature] |')
print('|---|---|---|---|---|')
print('\n'.join(rows))
