// C12 — sessions map 1:1 to peers, live while referenced; everything is released.
// World: libcoap server (node 0) with one or two UDP endpoints, 1..50 raw peers on nodes 1..5 (distinct addresses and
// ports), generated histories of plain / observe / async requests, application reference / release / use of sessions,
// notifications, muted peers (unacknowledged Confirmables = queued messages), idle periods across every time-out,
// session_timeout / max_idle_sessions knobs, tear-down at an arbitrary instant; drop/dup/delay faults.
#include "runner.h"
#include "world.h"
#include "coapx.h"

namespace {

struct Key {
  simk::Addr remote;
  uint16_t lport;
  bool operator<(const Key &o) const { return remote != o.remote ? remote < o.remote : lport < o.lport; }
  bool operator==(const Key &o) const { return remote == o.remote && lport == o.lport; }
  std::string str() const { return remote.str() + "->:" + std::to_string(lport); }
};

struct Sess {
  Key key;
  uint64_t t_new = 0, last_act = 0, last_tx = 0, last_rx = 0, prev_rx = 0;   // prev_rx: the last reception before the current instant
  int app_refs = 0;
  int observers = 0;          // libcoap's own registry (observe_added / observe_deleted callbacks)
  int asyncs = 0;
  std::set<int> inflight;     // Confirmable mids sent by the server on this session and not yet concluded
  bool tcp = false;           // session of the TCP endpoint
  bool closed = false;        // TCP: the peer has closed or reset the connection
  std::string holders() const {
    std::string h;
    if (app_refs) h += "application_reference,";
    if (observers) h += "observation,";
    if (asyncs) h += "async_entry,";
    if (!inflight.empty()) h += "queued_message,";
    if (!h.empty()) h.pop_back();
    return h;
  }
};

struct C12World {
  World w;
  RunResult *res = nullptr;
  coap_context_t *ctx = nullptr;
  coap_resource_t *obs_res = nullptr;
  int state = 1;
  unsigned timeout_s = 300, max_idle = 0;
  bool tearing_down = false;
  std::map<const coap_session_t *, Sess> live;        // by session object
  std::map<Key, const coap_session_t *> by_key;
  std::map<Bytes, Key> token_owner;                   // request token -> who sent it to which port
  std::map<const void *, const coap_session_t *> sub_owner;   // subscription -> session
  uint64_t news = 0, dels = 0;
  uint64_t last_evict_t = 0;
  std::set<Key> arriving;                             // keys of the datagrams delivered to the server in this instant
  uint64_t arriving_t = 0;
  std::map<int, int> mute;                            // peer -> 1 = does not acknowledge
  std::set<Key> closed_keys;                          // TCP connections the peer has closed
};
const uint16_t TCP_PORT = 5700;
C12World *g = nullptr;

Key key_of(const coap_session_t *s) { return Key{cx::remote_of(s), cx::local_of(s).port}; }

void check_session(const coap_session_t *session, const Bytes &tok, const char *where) {
  auto to = g->token_owner.find(tok);
  if (to == g->token_owner.end()) return;
  const Key &k = to->second;
  auto lk = g->by_key.find(k);
  if (lk == g->by_key.end()) { g->res->violate("R8.handler_without_session_new", where, strfmt("%s for a request of %s runs on session %p but no session-new event was seen for that peer", where, k.str().c_str(), (const void *)session)); return; }
  if (lk->second != session) g->res->violate("R8.wrong_session_for_peer", where, strfmt("%s for a request of %s runs on session %p, the live session of that peer is %p (%s)", where, k.str().c_str(), (const void *)session, (const void *)lk->second, key_of(session).str().c_str()));
  if (!(key_of(session) == k)) g->res->violate("R8.wrong_session_for_peer", "addresses", strfmt("%s: session reports %s for a request that came from %s", where, key_of(session).str().c_str(), k.str().c_str()));
}

void hnd_plain(coap_resource_t *, coap_session_t *session, const coap_pdu_t *request, const coap_string_t *, coap_pdu_t *response) {
  check_session(session, cx::tok_of(request), "request handler");
  coap_pdu_set_code(response, COAP_RESPONSE_CODE_CONTENT);
  coap_add_data(response, 2, (const uint8_t *)"ok");
}

void hnd_obs(coap_resource_t *, coap_session_t *session, const coap_pdu_t *request, const coap_string_t *, coap_pdu_t *response) {
  check_session(session, cx::tok_of(request), "observe handler");
  {
    // libcoap's observe_added tracking callback is only made for UDP sessions: on the TCP endpoint the registration is taken from
    // the request the handler sees (the registration itself or the stored copy libcoap replays for a notification)
    auto it = g->live.find(session);
    coap_opt_iterator_t oi;
    coap_opt_t *o = coap_check_option(request, COAP_OPTION_OBSERVE, &oi);
    if (it != g->live.end() && it->second.tcp && !it->second.closed && o && coap_decode_var_bytes(coap_opt_value(o), coap_opt_length(o)) == 0) it->second.observers = 1;
  }
  coap_pdu_set_code(response, COAP_RESPONSE_CODE_CONTENT);
  uint8_t b[2] = {(uint8_t)(g->state >> 8), (uint8_t)g->state};
  coap_add_data(response, 2, b);
}

void hnd_async(coap_resource_t *, coap_session_t *session, const coap_pdu_t *request, const coap_string_t *query, coap_pdu_t *response) {
  check_session(session, cx::tok_of(request), "async handler");
  coap_bin_const_t token = coap_pdu_get_token(request);
  coap_async_t *async = coap_find_async(session, token);
  auto it = g->live.find(session);
  if (!async) {
    unsigned long delay = 1;
    if (query && query->length) { delay = 0; for (size_t i = 0; i < query->length && isdigit(query->s[i]); i++) delay = delay * 10 + (unsigned long)(query->s[i] - '0'); }
    if (delay == 0) delay = 1;
    async = coap_register_async(session, request, COAP_TICKS_PER_SECOND * delay);
    if (!async) { coap_pdu_set_code(response, COAP_RESPONSE_CODE_SERVICE_UNAVAILABLE); return; }
    if (it != g->live.end()) it->second.asyncs++;
    g->w.count("probe.async_registered");
    return;
  }
  if (it != g->live.end() && it->second.asyncs > 0) it->second.asyncs--;
  g->w.count("probe.async_fired");
  coap_pdu_set_code(response, COAP_RESPONSE_CODE_CONTENT);
  coap_add_data(response, 4, (const uint8_t *)"done");
}

int on_event(coap_session_t *s, const coap_event_t ev) {
  if (ev == COAP_EVENT_SERVER_SESSION_NEW) {
    Key k = key_of(s);
    g->news++;
    g->w.log("SESSION-NEW %s", k.str().c_str());
    if (g->live.count(s)) g->res->violate("R8.session_new_twice", "same_object", strfmt("second session-new event for session object %p (%s)", (void *)s, k.str().c_str()));
    auto bk = g->by_key.find(k);
    if (bk != g->by_key.end()) g->res->violate("R8.second_session_for_peer", "new_while_live", strfmt("session-new for %s (%p) while session %p of the same peer is still live", k.str().c_str(), (void *)s, (const void *)bk->second));
    // idle limit: a new session may only appear next to max_idle idle ones if the oldest idle one was evicted just now
    if (g->max_idle > 0 && k.lport != TCP_PORT) {
      unsigned idle = 0;
      for (auto &kv : g->live) if (kv.second.key.lport == k.lport && kv.second.holders().empty()) idle++;
      if (idle >= g->max_idle && g->last_evict_t != g->w.now())
        g->res->violate("R8.idle_limit_not_enforced", "no_eviction", strfmt("session-new for %s with %u idle unreferenced sessions on that endpoint (max_idle_sessions=%u) and no session was evicted", k.str().c_str(), idle, g->max_idle));
    }
    Sess n;
    n.key = k;
    n.t_new = n.last_act = n.last_rx = n.prev_rx = g->w.now();
    n.tcp = k.lport == TCP_PORT;
    n.closed = g->closed_keys.count(k) > 0;
    if (n.tcp) g->w.count("probe.tcp_session_new");
    g->live[s] = n;
    g->by_key[k] = s;
  } else if (ev == COAP_EVENT_SERVER_SESSION_DEL) {
    g->dels++;
    auto it = g->live.find(s);
    g->w.log("SESSION-DEL %s", it == g->live.end() ? "unknown" : it->second.key.str().c_str());
    if (it == g->live.end()) { g->res->violate("R8.session_del_without_new", "unknown_object", strfmt("session-deleted event for session object %p that is not live (never announced or already deleted)", (void *)s)); return 0; }
    Sess &ss = it->second;
    if (!g->tearing_down) {
      std::string h = ss.holders();
      if (!h.empty()) g->res->violate("R8.deleted_while_referenced", h, strfmt("session %s deleted while it is still referred to by: %s", ss.key.str().c_str(), h.c_str()));
      // a datagram delivered in this very instant has not been read yet when the time-out scan of the same step runs
      uint64_t idle_ns = g->w.now() - std::max(ss.last_tx, ss.last_rx == g->w.now() ? ss.prev_rx : ss.last_rx);
      if (ss.tcp && ss.closed) g->w.count("probe.tcp_closed_session_deleted");     // the connection is gone: reclaimed as soon as nothing refers to it
      else if (idle_ns + 2000000ull < (uint64_t)g->timeout_s * 1000000000ull) {
        // not a time-out: only legitimate as eviction of the oldest idle session when a new peer shows up at the limit
        unsigned idle = 0;
        uint64_t oldest = UINT64_MAX;
        for (auto &kv : g->live) if (kv.second.key.lport == ss.key.lport && kv.second.holders().empty()) { idle++; oldest = std::min(oldest, kv.second.last_act); }
        bool new_peer_now = false;
        if (g->arriving_t == g->w.now())
          for (auto &ak : g->arriving) if (!g->by_key.count(ak) && ak.lport == ss.key.lport) new_peer_now = true;
        if (!(g->max_idle > 0 && idle >= g->max_idle && new_peer_now))
          g->res->violate("R8.session_deleted_early", "not_idle_long_enough", strfmt("session %s deleted after %.3f s without traffic (session_timeout=%u s, max_idle_sessions=%u, %u idle sessions, new peer arriving: %d)", ss.key.str().c_str(), idle_ns / 1e9, g->timeout_s, g->max_idle, idle, (int)new_peer_now));
        else {
          if (ss.last_act > oldest + 2000000ull) g->res->violate("R8.evicted_not_oldest", "younger_evicted", strfmt("session %s (idle %.3f s) evicted at the idle limit although another idle session has been idle for %.3f s", ss.key.str().c_str(), idle_ns / 1e9, (g->w.now() - oldest) / 1e9));
          g->last_evict_t = g->w.now();
          g->w.count("probe.evictions");
        }
      } else { g->w.count("probe.timeouts"); g->last_evict_t = g->w.now(); }   // (a deletion within the tolerance of the time-out may equally be the eviction)
    }
    for (auto so = g->sub_owner.begin(); so != g->sub_owner.end();) so = so->second == s ? g->sub_owner.erase(so) : std::next(so);
    g->by_key.erase(ss.key);
    g->live.erase(it);
  }
  return 0;
}

int obs_added(coap_session_t *session, coap_subscription_t *key, coap_proto_t, coap_address_t *, coap_addr_tuple_t *, coap_bin_const_t *, coap_bin_const_t *, void *) {
  auto it = g->live.find(session);
  if (it != g->live.end()) { it->second.observers++; g->sub_owner[key] = session; }
  g->w.count("probe.observe_added");
  return 1;
}
int obs_deleted(coap_session_t *session, coap_subscription_t *key, void *) {
  auto so = g->sub_owner.find(key);
  if (so != g->sub_owner.end()) {
    auto it = g->live.find(so->second);
    if (it != g->live.end() && it->second.observers > 0) it->second.observers--;
    g->sub_owner.erase(so);
  }
  (void)session;
  g->w.count("probe.observe_deleted");
  return 1;
}
int obs_value(coap_context_t *, coap_str_const_t *, uint32_t, void *) { return 1; }
int dyn_added(coap_session_t *, coap_str_const_t *, coap_bin_const_t *, void *) { return 1; }
int res_deleted(coap_context_t *, coap_str_const_t *, void *) { return 1; }

void on_nack(coap_session_t *s, const coap_pdu_t *, const coap_nack_reason_t reason, const coap_mid_t mid) {
  auto it = g->live.find(s);
  if (it != g->live.end() && (reason == COAP_NACK_TOO_MANY_RETRIES || reason == COAP_NACK_RST || reason == COAP_NACK_NOT_DELIVERABLE)) it->second.inflight.erase((int)mid & 0xffff);
}

struct C12 : Property {
  C12() {
    id = "C12";
    technique = "deterministic simulation with fault injection: real libcoap server, 1-50 scripted raw peers, seeded histories of requests / observations / async registrations / application reference-release-use / muted peers / idle periods / tear-down at an arbitrary instant under drop/dup/delay faults; peer->session map and holder ledger (R8) checked at every session event and handler call, allocator ledger + ASan at the end";
    rule_text = "plan = session_timeout {default 300,1,5,30,120 s} x max_idle_sessions {0,1,2,3,5} x 1..2 UDP endpoints x 1..50 raw peers (5 addresses x ports) x 5..60 ops (request plain/observe/async CON|NON, app reference/release/use of a session, notify, mute/unmute a peer, delete the observable resource, idle gaps up to 700 s) x optional tear-down at a generated instant x isolated drop/dup/delay faults. Non-trivial: at least 2 sessions were created and one session-deleted event happened before tear-down; distinct = distinct trace hash.";
    real_components = {"libcoap server: coap_session.c (coap_endpoint_get_session, reference counting, idle eviction), coap_io.c (idle time-out scan), coap_net.c (dispatch, sendqueue references), coap_async.c, coap_resource.c (observer references), coap_free_context tear-down"};
    stub_components = {"simk clock/UDP", "raw peers (R1 codec)", "observer existence is taken from libcoap's own observe_added/observe_deleted tracking callbacks"};
    assumptions = {"the application releases its own session references before it frees the context",
                   "a queued message = a Confirmable sent by the server that is neither acknowledged, reset nor given up (NACK callback)",
                   "eviction ties (sessions idle since the same millisecond) are not ordered"};
    quick_budget_s = 35;
    thorough_budget_s = 600;
  }

  json generate(uint64_t base, uint64_t index, bool) override {
    Rng r(mix3(base, 0xC12, index));
    json p;
    p["property"] = "C12";
    p["seed"] = base;
    p["index"] = index;
    p["sched_salt"] = r.next() & 0xffffffff;
    static const int timeouts[] = {0, 1, 5, 30, 120};
    static const int idles[] = {0, 0, 1, 2, 3, 5};
    int npeers = r.chance(0.7) ? (int)r.range(1, 8) : (int)r.range(8, 50);
    int neps = r.chance(0.3) ? 2 : 1;
    int ntcp = r.chance(0.4) ? (int)r.range(1, 3) : 0;      // stream peers on a TCP endpoint (connect, request, close/reset)
    p["config"] = {{"session_timeout", timeouts[r.below(5)]}, {"max_idle", idles[r.below(6)]}, {"endpoints", neps}, {"peers", npeers}, {"tcp_peers", ntcp}};
    json ops = json::array();
    int n = (int)r.range(5, 60);
    int64_t t = 0;
    for (int i = 0; i < n; i++) {
      t += r.chance(0.5) ? r.range(0, 50) : r.chance(0.7) ? r.range(50, 5000) : r.chance(0.7) ? r.range(5000, 130000) : r.range(130000, 700000);
      int peer = (int)r.below((uint64_t)npeers), ep = (int)r.below((uint64_t)neps);
      double x = (r.next() >> 11) * (1.0 / 9007199254740992.0);
      if (ntcp && r.chance(0.45)) {
        int tp = (int)r.below((uint64_t)ntcp);
        static const int tdelays[] = {1, 2, 10, 60, 400};
        if (x < 0.45) {
          double y = (r.next() >> 11) * (1.0 / 9007199254740992.0);
          ops.push_back({{"t_ms", t}, {"op", "treq"}, {"tpeer", tp}, {"kind", y < 0.35 ? "plain" : y < 0.6 ? "observe" : "async"}, {"delay_s", tdelays[r.below(5)]}});
        } else if (x < 0.62) ops.push_back({{"t_ms", t}, {"op", "ref"}, {"tpeer", tp}});
        else if (x < 0.72) ops.push_back({{"t_ms", t}, {"op", "rel"}, {"tpeer", tp}});
        else if (x < 0.78) ops.push_back({{"t_ms", t}, {"op", "use"}, {"tpeer", tp}, {"con", r.chance(0.5)}});
        else ops.push_back({{"t_ms", t}, {"op", "tclose"}, {"tpeer", tp}, {"how", r.chance(0.5) ? "fin" : "rst"}});
        continue;
      }
      if (x < 0.45) {
        double y = (r.next() >> 11) * (1.0 / 9007199254740992.0);
        const char *kind = y < 0.45 ? "plain" : y < 0.75 ? "observe" : y < 0.8 ? "cancel" : "async";
        static const int delays[] = {1, 2, 10, 60, 400};
        ops.push_back({{"t_ms", t}, {"op", "req"}, {"peer", peer}, {"ep", ep}, {"kind", kind}, {"con", r.chance(0.7)}, {"delay_s", delays[r.below(5)]}});
      } else if (x < 0.57) ops.push_back({{"t_ms", t}, {"op", "ref"}, {"peer", peer}, {"ep", ep}});
      else if (x < 0.69) ops.push_back({{"t_ms", t}, {"op", "rel"}, {"peer", peer}, {"ep", ep}});
      else if (x < 0.76) ops.push_back({{"t_ms", t}, {"op", "use"}, {"peer", peer}, {"ep", ep}, {"con", r.chance(0.5)}});
      else if (x < 0.90) ops.push_back({{"t_ms", t}, {"op", "notify"}, {"burst", r.chance(0.3) ? r.range(2, 8) : 1}});
      else if (x < 0.95) ops.push_back({{"t_ms", t}, {"op", "mute"}, {"peer", peer}, {"on", r.chance(0.6)}});
      else if (x < 0.97) ops.push_back({{"t_ms", t}, {"op", "delres"}});
      else ops.push_back({{"t_ms", t}, {"op", "relall"}});
    }
    p["ops"] = ops;
    if (r.chance(0.4)) p["teardown_ms"] = r.range(0, t + 2000);
    json faults = json::array();
    double rate = r.chance(0.4) ? 0.0 : 0.08;
    for (int nd = 1; nd <= 5; nd++)
      for (int dir = 0; dir < 2; dir++) {
        int last = -5;
        for (int k = 0; k < 40; k++) {
          if (k - last < 3 || !r.chance(rate)) continue;     // isolated faults: a Confirmable is never starved of all five transmissions by faults alone
          last = k;
          std::string link = dir ? strfmt("0>%d", nd) : strfmt("%d>0", nd);
          double x = (r.next() >> 11) * (1.0 / 9007199254740992.0);
          if (x < 0.5) faults.push_back({{"link", link}, {"idx", k}, {"act", "drop"}});
          else if (x < 0.8) faults.push_back({{"link", link}, {"idx", k}, {"act", "dup"}, {"n", 1}, {"delay_us", {r.range(0, 1500000)}}});
          else faults.push_back({{"link", link}, {"idx", k}, {"act", "delay"}, {"delay_us", {r.range(0, 1500000)}}});
        }
      }
    p["faults"] = faults;
    return p;
  }

  void execute(const json &plan, RunResult &res, bool verbose) override {
    C12World cw;
    g = &cw;
    cw.res = &res;
    World &w = cw.w;
    w.begin(plan.value("sched_salt", 1ull), &res, verbose, false);
    w.max_sim_ns = 60000ull * 1000000000ull;
    const json &cfg = plan["config"];
    int npeers = std::max(1, std::min(50, cfg.value("peers", 1)));
    int neps = std::max(1, std::min(2, cfg.value("endpoints", 1)));
    unsigned st = (unsigned)cfg.value("session_timeout", 0);
    cw.timeout_s = st ? st : 300;
    cw.max_idle = (unsigned)cfg.value("max_idle", 0);
    static const uint16_t ports[2] = {5683, 5690};
    w.add_node(nullptr);
    for (int i = 0; i < 5; i++) w.add_node(nullptr);
    cw.ctx = cx::new_context(w, 0);
    auto make_obs_res = [&]() {
      coap_resource_t *rs = coap_resource_init(coap_make_str_const("o"), COAP_RESOURCE_FLAGS_NOTIFY_NON);
      coap_register_request_handler(rs, COAP_REQUEST_GET, hnd_obs);
      coap_resource_set_get_observable(rs, 1);
      coap_add_resource(cw.ctx, rs);
      cw.obs_res = rs;
    };
    {
      World::AsNode as(0);
      if (st) coap_context_set_session_timeout(cw.ctx, st);
      if (cw.max_idle) coap_context_set_max_idle_sessions(cw.ctx, cw.max_idle);
      coap_register_event_handler(cw.ctx, on_event);
      coap_register_nack_handler(cw.ctx, on_nack);
      coap_persist_track_funcs(cw.ctx, obs_added, obs_deleted, obs_value, dyn_added, res_deleted, 1, nullptr);
      coap_resource_t *r1 = coap_resource_init(coap_make_str_const("r"), 0);
      coap_register_request_handler(r1, COAP_REQUEST_GET, hnd_plain);
      coap_add_resource(cw.ctx, r1);
      coap_resource_t *r2 = coap_resource_init(coap_make_str_const("a"), 0);
      coap_register_request_handler(r2, COAP_REQUEST_GET, hnd_async);
      coap_add_resource(cw.ctx, r2);
      make_obs_res();
    }
    for (int e = 0; e < neps; e++) cx::new_endpoint(w, 0, cw.ctx, ports[e], COAP_PROTO_UDP);
    // stream peers: connect lazily, send their CSM first, may close or reset the connection while the server still refers to the session
    struct TPeer { int fd = -1; Bytes pending; Key key; bool have_key = false; uint64_t stream = 0; };
    int ntcp = std::max(0, std::min(3, cfg.value("tcp_peers", 0)));
    std::vector<TPeer> tp((size_t)ntcp);
    if (ntcp) cx::new_endpoint(w, 0, cw.ctx, TCP_PORT, COAP_PROTO_TCP);
    auto tcp_connect = [&](int i) {
      TPeer &t = tp[(size_t)i];
      if (t.fd >= 0) return;
      t.fd = simk::raw_connect(1 + i, World::node_addr(0, TCP_PORT));
      t.pending.clear();
      t.have_key = false;
      t.stream = 0;
      if (t.fd < 0) return;
      simk::Fd *f = simk::get(t.fd);
      t.key = Key{f->local, TCP_PORT};
      t.have_key = true;
      r1::Msg csm;
      csm.code = 0xE1;
      csm.opts.push_back({2, r1::encode_uint(1152)});
      Bytes b = r1::encode_tcp(csm);
      t.pending.insert(t.pending.end(), b.begin(), b.end());
      w.count("probe.tcp_connect");
    };
    auto stamp = [&](const Key &k, bool rx) {
      auto bk = cw.by_key.find(k);
      if (bk == cw.by_key.end()) return;
      Sess &ss = cw.live[bk->second];
      if (rx) { if (w.now() > ss.last_rx) { ss.prev_rx = ss.last_rx; ss.last_rx = w.now(); } }
      else ss.last_tx = w.now();
      ss.last_act = std::max(ss.last_tx, ss.last_rx);
    };
    w.stream_taps.push_back([&](int sid, int side, const Bytes &) {
      if (cw.tearing_down) return;
      for (auto &t : tp) {
        if (t.fd < 0 || !t.have_key) continue;
        simk::Fd *f = simk::get(t.fd);
        if (!f || !f->st || (int)f->st->id != sid) continue;
        Key k = t.key;
        if (side == 1) stamp(k, false);                                       // the server wrote
        else w.after_us(w.base_latency_us, [&, k]() { if (!cw.tearing_down) { if (cw.arriving_t != w.now()) cw.arriving.clear(); cw.arriving_t = w.now(); stamp(k, true); } });   // the peer wrote: read one latency later
      }
    });
    w.pollers.push_back([&]() {
      for (auto &t : tp) {
        if (t.fd < 0) continue;
        if (!t.pending.empty() && simk::fd_writable(t.fd)) { simk::raw_stream_write(t.fd, t.pending); t.pending.clear(); }
        Bytes sink;
        simk::raw_stream_read(t.fd, sink);
      }
    });
    // raw peers
    std::vector<int> fds;
    std::vector<simk::Addr> addrs;
    for (int i = 0; i < npeers; i++) {
      int node = 1 + i % 5;
      simk::Addr a = World::node_addr(node, (uint16_t)(20000 + i / 5));
      addrs.push_back(a);
      fds.push_back(simk::raw_udp_socket(node, a));
    }
    for (auto &f : plan["faults"]) w.faults.push_back(f.get<Fault>());
    // wire: activity stamps, in-flight Confirmables, which peer's datagram the server is about to read
    w.taps.push_back([&](const WireEv &e) {
      if (cw.tearing_down) return;
      if (e.kind == WireEv::DELIVER && e.to == 0) {
        Key k{e.d->src, e.d->dst.port};
        if (cw.arriving_t != e.t_ns) cw.arriving.clear();
        cw.arriving.insert(k);
        cw.arriving_t = e.t_ns;
        auto bk = cw.by_key.find(k);
        if (bk == cw.by_key.end()) return;
        Sess &s = cw.live[bk->second];
        if (e.t_ns > s.last_rx) { s.prev_rx = s.last_rx; s.last_rx = e.t_ns; }
        s.last_act = std::max(s.last_tx, s.last_rx);
        r1::Msg m;
        if (r1::decode_udp(e.d->data, m) == r1::ACCEPT && (m.type == 2 || m.type == 3)) s.inflight.erase(m.mid);
      } else if (e.kind == WireEv::SEND && e.from == 0) {
        Key k{e.d->dst, e.d->src.port};
        auto bk = cw.by_key.find(k);
        if (bk == cw.by_key.end()) return;
        Sess &s = cw.live[bk->second];
        s.last_tx = e.t_ns;
        s.last_act = std::max(s.last_tx, s.last_rx);
        r1::Msg m;
        if (r1::decode_udp(e.d->data, m) == r1::ACCEPT && m.type == 0) s.inflight.insert(m.mid);
      }
    });
    // peers acknowledge Confirmables unless muted
    w.pollers.push_back([&]() {
      for (int i = 0; i < npeers; i++) {
        simk::Datagram d;
        while (simk::raw_recv(fds[(size_t)i], d)) {
          r1::Msg m;
          if (r1::decode_udp(d.data, m) != r1::ACCEPT) continue;
          if (m.type == 0 && !cw.mute[i]) {
            r1::Msg a;
            a.type = 2;
            a.mid = m.mid;
            simk::raw_sendto(fds[(size_t)i], d.src, r1::encode_udp(a));
          }
        }
      }
    });
    int tokctr = 0, midctr = 1;
    for (auto &op : plan["ops"]) {
      json o = op;
      w.at_ns(w.now() + (uint64_t)op.value("t_ms", (int64_t)0) * 1000000ull, [&, o]() {
        if (cw.tearing_down) return;
        std::string kind = o.value("op", "notify");
        int peer = o.value("peer", 0) % npeers, ep = o.value("ep", 0) % neps;
        Key k{addrs[(size_t)peer], ports[ep]};
        int tpi = -1;
        if (o.contains("tpeer")) {
          if (!ntcp) return;
          tpi = o.value("tpeer", 0) % ntcp;
          if (kind != "treq" && !tp[(size_t)tpi].have_key) return;
          k = tp[(size_t)tpi].key;
        }
        bool app_loop = false;     // the application did something: its main loop then calls coap_io_process() again
        struct Stepper { World &w; bool &on; ~Stepper() { if (on) w.step_node(0); } } stepper{w, app_loop};
        if (kind == "treq") {
          tcp_connect(tpi);
          TPeer &t = tp[(size_t)tpi];
          if (t.fd < 0) return;
          std::string rk = o.value("kind", "plain");
          r1::Msg m;
          m.code = 1;
          if (rk == "observe") m.token = {0xC1, 0x2A, (uint8_t)tpi};
          else { tokctr++; m.token = {0xC1, 0x2B, (uint8_t)(tokctr >> 8), (uint8_t)tokctr}; }
          if (rk == "observe") m.opts.push_back({r1::O_OBSERVE, {}});
          std::string path = rk == "plain" ? "r" : rk == "async" ? "a" : "o";
          m.opts.push_back({r1::O_URI_PATH, Bytes(path.begin(), path.end())});
          if (rk == "async") { std::string q = std::to_string(o.value("delay_s", 1)); m.opts.push_back({r1::O_URI_QUERY, Bytes(q.begin(), q.end())}); }
          cw.token_owner[m.token] = t.key;
          Bytes b = r1::encode_tcp(m);
          t.pending.insert(t.pending.end(), b.begin(), b.end());
          w.count("probe.tcp_request");
          w.log("TREQ tpeer=%d %s", tpi, rk.c_str());
        } else if (kind == "tclose") {
          TPeer &t = tp[(size_t)tpi];
          if (t.fd < 0) return;
          bool rst = o.value("how", "fin") == "rst";
          cw.closed_keys.insert(t.key);
          auto bk = cw.by_key.find(t.key);
          if (bk != cw.by_key.end()) {
            Sess &ss = cw.live[bk->second];
            ss.closed = true;
            ss.observers = 0;       // observations end with the connection
            std::string h = ss.holders();
            if (!h.empty()) w.count("probe.tcp_closed_while_referenced");
          }
          if (rst) {
            simk::Fd *f = simk::get(t.fd);
            if (f && f->st) { simk::Stream *st = f->st; w.after_us(w.base_latency_us, [st]() { simk::deliver_fin(st, 1, true); }); }
          }
          simk::raw_close(t.fd);
          t.fd = -1;
          w.count(rst ? "fault.peer_rst" : "fault.peer_fin");
          w.log("TCLOSE tpeer=%d %s", tpi, rst ? "rst" : "fin");
        } else if (kind == "req") {
          std::string rk = o.value("kind", "plain");
          r1::Msg m;
          m.type = o.value("con", true) ? 0 : 1;
          m.code = 1;
          m.mid = (midctr++ * 7 + peer * 1000) & 0xffff;
          // one token per (peer, endpoint) for observe so that cancel finds it; fresh otherwise
          if (rk == "observe" || rk == "cancel") m.token = {0xC1, 0x20, (uint8_t)peer, (uint8_t)ep};
          else { tokctr++; m.token = {0xC1, 0x21, (uint8_t)(tokctr >> 8), (uint8_t)tokctr}; }
          if (rk == "observe") m.opts.push_back({r1::O_OBSERVE, {}});
          if (rk == "cancel") m.opts.push_back({r1::O_OBSERVE, {1}});
          std::string path = rk == "plain" ? "r" : rk == "async" ? "a" : "o";
          m.opts.push_back({r1::O_URI_PATH, Bytes(path.begin(), path.end())});
          if (rk == "async") { std::string q = std::to_string(o.value("delay_s", 1)); m.opts.push_back({r1::O_URI_QUERY, Bytes(q.begin(), q.end())}); }
          cw.token_owner[m.token] = k;
          simk::raw_sendto(fds[(size_t)peer], World::node_addr(0, ports[ep]), r1::encode_udp(m));
          w.log("REQ peer=%d ep=%d %s %s", peer, ep, rk.c_str(), m.type ? "NON" : "CON");
        } else if (kind == "ref") {
          auto bk = cw.by_key.find(k);
          if (bk == cw.by_key.end()) return;
          World::AsNode as(0);
          coap_session_reference(const_cast<coap_session_t *>(bk->second));
          cw.live[bk->second].app_refs++;
          w.count("probe.app_reference");
          w.log("APP-REF %s", k.str().c_str());
          app_loop = true;
        } else if (kind == "rel") {
          auto bk = cw.by_key.find(k);
          if (bk == cw.by_key.end() || cw.live[bk->second].app_refs == 0) return;
          World::AsNode as(0);
          cw.live[bk->second].app_refs--;
          coap_session_release(const_cast<coap_session_t *>(bk->second));
          w.log("APP-REL %s", k.str().c_str());
          app_loop = true;
        } else if (kind == "relall") {
          World::AsNode as(0);
          for (auto &bk : cw.by_key) { Sess &ss = cw.live[bk.second]; while (ss.app_refs > 0) { ss.app_refs--; coap_session_release(const_cast<coap_session_t *>(bk.second)); } }
          w.log("APP-REL-ALL");
          app_loop = true;
        } else if (kind == "use") {
          // the application uses a session it holds a reference to (possibly long after the peer went quiet)
          auto bk = cw.by_key.find(k);
          if (bk == cw.by_key.end() || cw.live[bk->second].app_refs == 0) return;
          World::AsNode as(0);
          coap_session_t *s = const_cast<coap_session_t *>(bk->second);
          if (!(cx::remote_of(s) == k.remote)) res.violate("R8.wrong_session_for_peer", "held_reference", strfmt("session held by the application for %s now reports remote %s", k.str().c_str(), cx::remote_of(s).str().c_str()));
          coap_pdu_t *p = coap_new_pdu(o.value("con", false) ? COAP_MESSAGE_CON : COAP_MESSAGE_NON, COAP_REQUEST_CODE_GET, s);
          if (p) {
            uint8_t tk[3] = {0xC1, 0x22, (uint8_t)peer};
            coap_add_token(p, 3, tk);
            coap_add_option(p, COAP_OPTION_URI_PATH, 1, (const uint8_t *)"x");
            coap_send(s, p);
          }
          w.count("probe.app_use_of_held_session");
          w.log("APP-USE %s", k.str().c_str());
          app_loop = true;
        } else if (kind == "notify") {
          if (!cw.obs_res) return;
          World::AsNode as(0);
          for (int b = 0; b < o.value("burst", 1); b++) { cw.state++; coap_resource_notify_observers(cw.obs_res, nullptr); }
          w.log("NOTIFY x%d", o.value("burst", 1));
        } else if (kind == "mute") {
          cw.mute[peer] = o.value("on", true) ? 1 : 0;
          w.log("MUTE peer=%d %d", peer, cw.mute[peer]);
        } else if (kind == "delres") {
          if (!cw.obs_res) return;
          World::AsNode as(0);
          coap_delete_resource(cw.ctx, cw.obs_res);
          cw.obs_res = nullptr;
          for (auto &kv : cw.live) if (kv.second.tcp) kv.second.observers = 0;
          // libcoap reports the removed observations through observe_deleted; anything it forgot stays in the ledger
          w.log("DELETE-RESOURCE");
          app_loop = true;
        }
      }, -1);
    }
    uint64_t until = plan.contains("teardown_ms") ? w.now() + (uint64_t)plan.value("teardown_ms", (int64_t)0) * 1000000ull : UINT64_MAX;
    w.run(until);
    bool early = plan.contains("teardown_ms") && !w.aborted;
    if (w.aborted) res.violate("M-live.abort", w.abort_why, "run did not quiesce: " + w.abort_why);
    else if (until == UINT64_MAX) {
      // quiescence: nothing is in flight and no timer is armed, so every session still alive must have a holder
      for (auto &bk : cw.by_key) {
        auto kv = *cw.live.find(bk.second);
        std::string h = kv.second.holders();
        if (h.empty()) res.violate("R8.idle_session_not_reclaimed", "at_quiescence", strfmt("session %s has no application reference, observation, async entry or queued message and has been idle for %.3f s (session_timeout=%u s) but no timer is armed to reclaim it", kv.second.key.str().c_str(), (w.now() - kv.second.last_act) / 1e9, cw.timeout_s));
      }
    }
    bool nontrivial = cw.news >= 2 && cw.dels >= 1;
    // tear-down (the application lets go of its references first)
    uint64_t live_at_teardown = cw.live.size();
    {
      World::AsNode as(0);
      cw.tearing_down = true;
      for (auto &bk : cw.by_key) { Sess &ss = cw.live[bk.second]; while (ss.app_refs > 0) { ss.app_refs--; coap_session_release(const_cast<coap_session_t *>(bk.second)); } }
      coap_free_context(cw.ctx);
    }
    if (early) w.count("probe.teardown_mid_run");
    if (live_at_teardown) w.count("probe.sessions_live_at_teardown", live_at_teardown);
    if (!cw.live.empty() && !w.aborted)
      res.violate("R8.session_new_del_not_paired", "missing_del_at_teardown", strfmt("%zu of %llu server sessions announced by session-new never got a session-deleted event, not even when the context was freed (first: %s)", cw.live.size(), (unsigned long long)cw.news, cw.live.begin()->second.key.str().c_str()));
    w.end();   // coap_cleanup()
    int64_t leaked = simk::K().alloc.live;
    if (leaked != 0 && !w.aborted) {
      std::string types;
      for (int t = 0; t < 32; t++) if (simk::K().alloc.live_by_type[t]) types += strfmt(" type%d:%lld", t, (long long)simk::K().alloc.live_by_type[t]);
      res.violate("R8.not_released", early ? "teardown_mid_run" : "teardown_at_quiescence", strfmt("%lld objects allocated by libcoap are still live after coap_free_context and coap_cleanup:%s", (long long)leaked, types.c_str()));
    }
    res.nontrivial = nontrivial;
    g = nullptr;
  }
};

struct Reg { Reg() { register_property(new C12()); } } reg;

}  // namespace
