#include "runner.h"
int main(int argc, char **argv) { return runner_main(argc, argv); }
