// Runner: plan generation → worker pool → oracles' verdicts → minimisation → replay gate → evidence.
#pragma once
#include "common.h"

struct Property {
  std::string id;
  std::string level = "exploration";
  std::string rule_text;                       // evidence: how cases are generated, what makes one non-trivial
  std::string technique;
  std::vector<std::string> real_components, stub_components, assumptions;
  double quick_budget_s = 35, thorough_budget_s = 600;
  uint64_t quick_max_runs = UINT64_MAX, thorough_max_runs = UINT64_MAX;
  int run_timeout_s = 60;                      // per-run wall-clock watchdog
  virtual ~Property() {}
  // Plans are a pure function of (base seed, index, tier). Indices below family_size() enumerate a systematic family.
  virtual json generate(uint64_t base_seed, uint64_t index, bool thorough) = 0;
  virtual void execute(const json &plan, RunResult &res, bool verbose) = 0;
  virtual uint64_t family_size(bool /*thorough*/) { return 0; }
  virtual std::string family_name() { return ""; }
  // keys of the plan's arrays that minimisation may delete elements from, in order
  virtual std::vector<std::string> shrink_keys() { return {"faults", "ops"}; }
  // property-specific simplifications tried after list shrinking (each candidate must be "simpler")
  virtual std::vector<json> simpler(const json & /*plan*/) { return {}; }
  // optional one-time self test of reference models; return "" if fine
  virtual std::string selftest() { return ""; }
};

void register_property(Property *p);
Property *find_property(const std::string &id);
int runner_main(int argc, char **argv);
