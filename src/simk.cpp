// simk — simulated kernel. See simk.h / DESIGN.md §2.3.
#include "simk.h"
#include <cerrno>
#include <cstring>
#include <cstdio>
#include <cstdlib>
#include <cstdarg>
#include <ctime>
#include <unistd.h>
#include <sys/socket.h>
#include <sys/epoll.h>
#include <sys/timerfd.h>
#include <sys/select.h>
#include <sys/ioctl.h>
#include <sys/syscall.h>
#include <sys/random.h>
#include <arpa/inet.h>
#include <net/if.h>

namespace simk {

static Kernel g_k;
Kernel &K() { return g_k; }

std::string Addr::str() const {
  char b[40];
  snprintf(b, sizeof b, "%u.%u.%u.%u:%u", ip >> 24, (ip >> 16) & 255, (ip >> 8) & 255, ip & 255, port);
  return b;
}

uint64_t real_ns() {
  struct timespec ts;
  syscall(SYS_clock_gettime, CLOCK_MONOTONIC, &ts);
  return (uint64_t)ts.tv_sec * 1000000000ull + (uint64_t)ts.tv_nsec;
}

void alloc_reset() { g_k.alloc = AllocStats(); }

void reset() {
  for (auto *s : g_k.streams) delete s;
  g_k.streams.clear();
  g_k.fds.clear();
  g_k.fds.resize(FD_MAX - FD_BASE + 1);
  g_k.now_ns = EPOCH_NS;
  g_k.cur_node = 0;
  g_k.dgram_seq = g_k.stream_seq = 0;
  g_k.next_port.clear();
  g_k.node_ip.clear();
  g_k.hooks = NetHooks();
  g_k.alloc = AllocStats();
  g_k.syscalls = 0;
  g_k.exit_called = 0;
  g_k.pending_send_errno = 0;
  g_k.icmp_recv_only = false;
  g_k.exit_code = 0;
  g_k.sysrng_state = 0x1234567;
  g_k.sysrng_pos = 0;
  g_k.sysrng_word = 0;
}

Fd *get(int fd) {
  if (fd < FD_BASE || fd > FD_MAX) return nullptr;
  if (g_k.fds.empty()) return nullptr;
  Fd *f = &g_k.fds[fd - FD_BASE];
  return f->kind == FD_FREE ? nullptr : f;
}

void set_node_ip(int node, uint32_t ip) { g_k.node_ip[node] = ip; }

static uint32_t node_ip_of(int node) {
  auto it = g_k.node_ip.find(node);
  return it == g_k.node_ip.end() ? ip4(10, 0, 0, 1 + node) : it->second;
}

static int alloc_fd(FdKind kind) {
  if (g_k.fds.empty()) g_k.fds.resize(FD_MAX - FD_BASE + 1);
  for (size_t i = 0; i < g_k.fds.size(); i++) {
    if (g_k.fds[i].kind == FD_FREE) {
      g_k.fds[i] = Fd();
      g_k.fds[i].kind = kind;
      g_k.fds[i].node = g_k.cur_node;
      return FD_BASE + (int)i;
    }
  }
  errno = EMFILE;
  return -1;
}

static uint16_t ephemeral(int node) {
  uint16_t &p = g_k.next_port[node];
  if (p == 0) p = 40000;
  return p++;
}

static Addr from_sa(const struct sockaddr *sa) {
  Addr a;
  if (sa && sa->sa_family == AF_INET) {
    const struct sockaddr_in *s = (const struct sockaddr_in *)sa;
    a.ip = ntohl(s->sin_addr.s_addr);
    a.port = ntohs(s->sin_port);
  }
  return a;
}
static void to_sa(const Addr &a, struct sockaddr *sa, socklen_t *len) {
  struct sockaddr_in s;
  memset(&s, 0, sizeof s);
  s.sin_family = AF_INET;
  s.sin_addr.s_addr = htonl(a.ip);
  s.sin_port = htons(a.port);
  socklen_t n = sizeof s;
  if (len) {
    if (*len < n) n = *len;
    memcpy(sa, &s, n);
    *len = sizeof s;
  } else {
    memcpy(sa, &s, n);
  }
}

static void stream_unref(Stream *s) { (void)s; /* freed in reset() */ }

// ---------------------------------------------------------------- readiness
bool fd_readable(int fd) {
  Fd *f = get(fd);
  if (!f) return false;
  switch (f->kind) {
  case FD_DGRAM: return !f->rxq.empty() || f->pending_err;
  case FD_STREAM:
    if (!f->st) return f->connecting && f->conn_done && f->so_error;
    return !f->st->rx[f->side].empty() || f->st->fin[f->side] || f->st->rst[f->side];
  case FD_LISTEN: return !f->acceptq.empty();
  case FD_TIMER: return f->expiry_ns && g_k.now_ns >= f->expiry_ns;
  default: return false;
  }
}
bool fd_writable(int fd) {
  Fd *f = get(fd);
  if (!f) return false;
  switch (f->kind) {
  case FD_DGRAM: return true;
  case FD_STREAM:
    if (f->connecting) return f->conn_done;
    if (f->st && K().hooks.write_blocked && !f->st->rst[f->side] && K().hooks.write_blocked(f->st, f->side)) return false;
    return f->st != nullptr;
  default: return false;
  }
}
static uint32_t fd_events(int fd) {
  Fd *f = get(fd);
  if (!f) return 0;
  uint32_t ev = 0;
  if (fd_readable(fd)) ev |= EPOLLIN;
  if (fd_writable(fd)) ev |= EPOLLOUT;
  if (f->kind == FD_STREAM) {
    if (f->connecting && f->conn_done && f->so_error) ev |= EPOLLERR | EPOLLHUP;
    if (f->st && f->st->rst[f->side]) ev |= EPOLLERR | EPOLLHUP;
    if (f->st && f->st->fin[f->side]) ev |= EPOLLRDHUP;
  }
  return ev;
}
int epoll_collect(int epfd, struct epoll_event *ev, int maxev) {
  Fd *e = get(epfd);
  if (!e || e->kind != FD_EPOLL) return 0;
  int n = 0;
  for (auto &kv : e->interest) {
    uint32_t have = fd_events(kv.first);
    uint32_t want = kv.second.events | EPOLLERR | EPOLLHUP;
    uint32_t r = have & want;
    if (r) {
      if (n < maxev && ev) {
        ev[n].events = r;
        ev[n].data.u64 = kv.second.data;
      }
      n++;
      if (ev && n >= maxev) break;
    }
  }
  return n;
}
bool node_ready(int node) {
  for (size_t i = 0; i < g_k.fds.size(); i++) {
    Fd &f = g_k.fds[i];
    if (f.kind == FD_EPOLL && f.node == node)
      if (epoll_collect(FD_BASE + (int)i, nullptr, 1 << 30) > 0) return true;
  }
  return false;
}
uint64_t node_next_timer_ns(int node) {
  uint64_t best = 0;
  for (auto &f : g_k.fds)
    if (f.kind == FD_TIMER && f.node == node && f.expiry_ns)
      if (!best || f.expiry_ns < best) best = f.expiry_ns;
  return best;
}
int open_fds(int node) {
  int n = 0;
  for (auto &f : g_k.fds)
    if (f.kind != FD_FREE && (node < 0 || f.node == node)) n++;
  return n;
}

// ---------------------------------------------------------------- delivery
int deliver_datagram(const Datagram &d) {
  int reached = 0;
  bool mc = is_mcast(d.dst.ip);
  // prefer connected sockets that match the 4-tuple exactly
  int best = -1;
  for (size_t i = 0; i < g_k.fds.size(); i++) {
    Fd &f = g_k.fds[i];
    if (f.kind != FD_DGRAM || !f.bound || f.local.port != d.dst.port) continue;
    if (mc) {
      bool member = false;
      for (uint32_t g : f.groups) member |= (g == d.dst.ip);
      if (!member) continue;
      if (f.rxq.size() < 512) { f.rxq.push_back(d); reached++; }
      continue;
    }
    bool ipok = f.local.ip == d.dst.ip || (f.local.ip == 0 && node_ip_of(f.node) == d.dst.ip);
    if (!ipok) continue;
    if (f.connected) {
      if (f.peer == d.src) { best = (int)i; break; }
      continue;
    }
    if (best < 0) best = (int)i;
  }
  if (!mc && best >= 0) {
    Fd &f = g_k.fds[best];
    if (f.rxq.size() < 512) { f.rxq.push_back(d); reached++; }
  }
  return reached;
}

void deliver_icmp_unreach(const Datagram &d) {
  for (auto &f : g_k.fds)
    if (f.kind == FD_DGRAM && f.connected && f.local == d.src && f.peer == d.dst) f.pending_err = ECONNREFUSED;
}

void complete_connect(int fd, bool ok) {
  Fd *f = get(fd);
  if (!f || f->kind != FD_STREAM || !f->connecting || f->conn_done) return;
  int lfd = -1;
  if (ok) {
    for (size_t i = 0; i < g_k.fds.size(); i++) {
      Fd &l = g_k.fds[i];
      if (l.kind != FD_LISTEN || l.local.port != f->peer.port) continue;
      if (l.local.ip == f->peer.ip || (l.local.ip == 0 && node_ip_of(l.node) == f->peer.ip)) { lfd = (int)i; break; }
    }
  }
  f->conn_done = true;
  if (lfd < 0) { f->so_error = ECONNREFUSED; return; }
  Stream *s = new Stream();
  s->id = ++g_k.stream_seq;
  s->a[0] = f->local;
  s->a[1] = f->peer;
  s->fd[0] = fd;
  s->node[0] = f->node;
  s->node[1] = g_k.fds[lfd].node;
  s->established = true;
  g_k.streams.push_back(s);
  f->st = s;
  f->side = 0;
  f->so_error = 0;
  g_k.fds[lfd].acceptq.push_back(s);
}

void deliver_stream(Stream *s, int to_side, const Bytes &b) {
  if (s->inflight[to_side] >= b.size()) s->inflight[to_side] -= b.size(); else s->inflight[to_side] = 0;
  if (s->fd[to_side] == -2) return;  // closed: bytes vanish
  for (uint8_t c : b) s->rx[to_side].push_back(c);
}
void deliver_fin(Stream *s, int to_side, bool rst) {
  if (rst) s->rst[to_side] = true; else s->fin[to_side] = true;
}

// ---------------------------------------------------------------- raw peers
int raw_udp_socket(int node, Addr local) {
  int save = g_k.cur_node;
  g_k.cur_node = node;
  int fd = alloc_fd(FD_DGRAM);
  g_k.cur_node = save;
  if (fd < 0) return -1;
  Fd *f = get(fd);
  f->bound = true;
  f->local = local;
  if (!f->local.port) f->local.port = ephemeral(node);
  f->nonblock = true;
  return fd;
}
void raw_sendto(int fd, Addr dst, const Bytes &b) {
  Fd *f = get(fd);
  if (!f) return;
  Datagram d;
  d.src = f->local;
  if (!d.src.ip) d.src.ip = node_ip_of(f->node);
  d.dst = dst;
  d.data = b;
  d.id = ++g_k.dgram_seq;
  if (g_k.hooks.on_datagram) g_k.hooks.on_datagram(d, f->node);
  else deliver_datagram(d);
}
void raw_send_from(int node, Addr src, Addr dst, const Bytes &b) {
  Datagram d;
  d.src = src;
  d.dst = dst;
  d.data = b;
  d.id = ++g_k.dgram_seq;
  if (g_k.hooks.on_datagram) g_k.hooks.on_datagram(d, node);
  else deliver_datagram(d);
}
bool raw_recv(int fd, Datagram &out) {
  Fd *f = get(fd);
  if (!f || f->rxq.empty()) return false;
  out = f->rxq.front();
  f->rxq.pop_front();
  return true;
}

}  // namespace simk

// =====================================================================
// libc seams
// =====================================================================
using namespace simk;

extern "C" {

int __real_close(int);
ssize_t __real_read(int, void *, size_t);
int __real_select(int, fd_set *, fd_set *, fd_set *, struct timeval *);
int __real_ioctl(int, unsigned long, ...);

// ---- time: strong definitions so that libgnutls.so sees them as well
int clock_gettime(clockid_t, struct timespec *ts) {
  if (ts) {
    ts->tv_sec = (time_t)(K().now_ns / 1000000000ull);
    ts->tv_nsec = (long)(K().now_ns % 1000000000ull);
  }
  return 0;
}
time_t time(time_t *t) {
  time_t v = (time_t)(K().now_ns / 1000000000ull);
  if (t) *t = v;
  return v;
}
ssize_t getrandom(void *buf, size_t len, unsigned int) {
  // deterministic entropy for GnuTLS and for libcoap's default PRNG (splitmix64 stream)
  uint8_t *o = (uint8_t *)buf;
  for (size_t i = 0; i < len; i++) {
    if ((K().sysrng_pos & 7) == 0) {
      uint64_t z = (K().sysrng_state += 0x9e3779b97f4a7c15ull);
      z = (z ^ (z >> 30)) * 0xbf58476d1ce4e5b9ull;
      z = (z ^ (z >> 27)) * 0x94d049bb133111ebull;
      K().sysrng_word = z ^ (z >> 31);
    }
    o[i] = (uint8_t)(K().sysrng_word >> (8 * (K().sysrng_pos & 7)));
    K().sysrng_pos++;
  }
  return (ssize_t)len;
}
int gettimeofday(struct timeval *tv, void *) {
  if (tv) {
    tv->tv_sec = (time_t)(K().now_ns / 1000000000ull);
    tv->tv_usec = (suseconds_t)((K().now_ns % 1000000000ull) / 1000);
  }
  return 0;
}

// ---- sockets
int __wrap_socket(int domain, int type, int) {
  K().syscalls++;
  if (domain != AF_INET) { errno = EAFNOSUPPORT; return -1; }
  int base = type & 0xf;
  if (base != SOCK_DGRAM && base != SOCK_STREAM) { errno = EPROTONOSUPPORT; return -1; }
  int fd = alloc_fd(base == SOCK_DGRAM ? FD_DGRAM : FD_STREAM);
  if (fd >= 0 && (type & SOCK_NONBLOCK)) get(fd)->nonblock = true;
  return fd;
}

int __wrap_close(int fd) {
  Fd *f = get(fd);
  if (!f) {
    if (fd >= FD_BASE && fd <= FD_MAX) { errno = EBADF; return -1; }
    return __real_close(fd);
  }
  K().syscalls++;
  if (f->kind == FD_STREAM && f->st) {
    Stream *s = f->st;
    int side = f->side;
    s->fd[side] = -2;
    bool unread = !s->rx[side].empty();
    s->rx[side].clear();
    if (K().hooks.on_stream_close) K().hooks.on_stream_close(s, side);
    else deliver_fin(s, 1 - side, unread);
    stream_unref(s);
  }
  if (f->kind == FD_LISTEN) {
    for (Stream *s : f->acceptq) { s->fd[1] = -2; deliver_fin(s, 0, true); }
  }
  // remove from every epoll interest list (as the kernel does on last close)
  for (auto &e : K().fds)
    if (e.kind == FD_EPOLL) e.interest.erase(fd);
  *f = Fd();
  return 0;
}

int __wrap_bind(int fd, const struct sockaddr *sa, socklen_t) {
  Fd *f = get(fd);
  if (!f) { errno = EBADF; return -1; }
  K().syscalls++;
  if (!sa || sa->sa_family != AF_INET) { errno = EAFNOSUPPORT; return -1; }
  Addr a = from_sa(sa);
  if (!a.port) a.port = ephemeral(f->node);
  if (f->kind == FD_STREAM || f->kind == FD_LISTEN) {
    for (auto &o : K().fds)
      if (&o != f && o.kind == FD_LISTEN && o.local.port == a.port && (o.local.ip == a.ip || !o.local.ip || !a.ip) && o.node == f->node) {
        errno = EADDRINUSE;
        return -1;
      }
  }
  f->local = a;
  f->bound = true;
  return 0;
}

int __wrap_listen(int fd, int) {
  Fd *f = get(fd);
  if (!f || f->kind != FD_STREAM) { errno = EBADF; return -1; }
  K().syscalls++;
  f->kind = FD_LISTEN;
  return 0;
}

int __wrap_accept(int fd, struct sockaddr *sa, socklen_t *len) {
  Fd *l = get(fd);
  if (!l || l->kind != FD_LISTEN) { errno = EBADF; return -1; }
  K().syscalls++;
  if (l->acceptq.empty()) { errno = EAGAIN; return -1; }
  Stream *s = l->acceptq.front();
  l->acceptq.pop_front();
  int save = K().cur_node;
  K().cur_node = l->node;
  int nfd = alloc_fd(FD_STREAM);
  K().cur_node = save;
  if (nfd < 0) { deliver_fin(s, 0, true); return -1; }
  l = get(fd);
  Fd *f = get(nfd);
  f->st = s;
  f->side = 1;
  f->bound = true;
  f->connected = true;
  f->local = s->a[1];
  f->peer = s->a[0];
  s->fd[1] = nfd;
  if (sa) to_sa(f->peer, sa, len);
  return nfd;
}

int __wrap_connect(int fd, const struct sockaddr *sa, socklen_t) {
  Fd *f = get(fd);
  if (!f) { errno = EBADF; return -1; }
  K().syscalls++;
  if (!sa || sa->sa_family != AF_INET) { errno = EAFNOSUPPORT; return -1; }
  Addr dst = from_sa(sa);
  if (!f->bound) {
    f->local.ip = 0;
    f->local.port = ephemeral(f->node);
    f->bound = true;
  }
  if (!f->local.ip) f->local.ip = node_ip_of(f->node);
  f->peer = dst;
  if (f->kind == FD_DGRAM) {
    f->connected = true;
    return 0;
  }
  if (f->kind != FD_STREAM) { errno = EINVAL; return -1; }
  f->connecting = true;
  f->conn_done = false;
  if (K().hooks.on_connect) K().hooks.on_connect(fd, dst);
  else complete_connect(fd, true);
  f = get(fd);
  if (f->conn_done && !f->so_error) {   // completed synchronously
    f->connecting = false;
    f->connected = true;
    return 0;
  }
  errno = EINPROGRESS;
  return -1;
}

int __wrap_getsockname(int fd, struct sockaddr *sa, socklen_t *len) {
  Fd *f = get(fd);
  if (!f) { errno = EBADF; return -1; }
  K().syscalls++;
  Addr a = f->local;
  to_sa(a, sa, len);
  return 0;
}
int __wrap_getpeername(int fd, struct sockaddr *sa, socklen_t *len) {
  Fd *f = get(fd);
  if (!f) { errno = EBADF; return -1; }
  K().syscalls++;
  if (!f->connected && !f->connecting) { errno = ENOTCONN; return -1; }
  to_sa(f->peer, sa, len);
  return 0;
}

int __wrap_setsockopt(int fd, int level, int name, const void *val, socklen_t len) {
  Fd *f = get(fd);
  if (!f) { errno = EBADF; return -1; }
  K().syscalls++;
  if (level == IPPROTO_IP && name == IP_PKTINFO) f->pktinfo = true;
  if (level == IPPROTO_IP && name == IP_ADD_MEMBERSHIP && val && len >= sizeof(struct ip_mreq)) {
    const struct ip_mreq *m = (const struct ip_mreq *)val;
    f->groups.push_back(ntohl(m->imr_multiaddr.s_addr));
  }
  return 0;
}
int __wrap_getsockopt(int fd, int level, int name, void *val, socklen_t *len) {
  Fd *f = get(fd);
  if (!f) { errno = EBADF; return -1; }
  K().syscalls++;
  if (level == SOL_SOCKET && name == SO_ERROR && val && len && *len >= sizeof(int)) {
    int e = f->so_error;
    if (f->connecting && f->conn_done) {
      f->connecting = false;
      if (!e) f->connected = true;
    }
    f->so_error = 0;
    memcpy(val, &e, sizeof e);
    *len = sizeof e;
    return 0;
  }
  if (val && len && *len >= sizeof(int)) { int z = 0; memcpy(val, &z, sizeof z); *len = sizeof z; }
  return 0;
}

int __wrap_ioctl(int fd, unsigned long req, void *arg) {
  Fd *f = get(fd);
  if (!f) return __real_ioctl(fd, req, arg);
  K().syscalls++;
  if (req == FIONBIO) { f->nonblock = arg && *(int *)arg; return 0; }
  if (req == SIOCGIFINDEX && arg) { ((struct ifreq *)arg)->ifr_ifindex = 1; return 0; }
  if (req == SIOCGIFADDR && arg) {
    struct sockaddr_in *s = (struct sockaddr_in *)&((struct ifreq *)arg)->ifr_addr;
    memset(s, 0, sizeof *s);
    s->sin_family = AF_INET;
    s->sin_addr.s_addr = htonl(node_ip_of(f->node));
    return 0;
  }
  errno = ENOTTY;
  return -1;
}

static ssize_t dgram_send(Fd *f, Addr dst, Addr src_hint, const void *buf, size_t len) {
  if (K().hooks.yield) K().hooks.yield("send");
  Datagram d;
  if (!f->bound) {
    f->local.ip = 0;
    f->local.port = ephemeral(f->node);
    f->bound = true;
  }
  d.src = f->local;
  if (!d.src.ip) d.src.ip = src_hint.ip ? src_hint.ip : node_ip_of(f->node);
  d.dst = dst;
  d.data.assign((const uint8_t *)buf, (const uint8_t *)buf + len);
  d.id = ++K().dgram_seq;
  int node = f->node;
  K().pending_send_errno = 0;
  if (K().hooks.on_datagram) K().hooks.on_datagram(d, node);
  else deliver_datagram(d);
  if (K().pending_send_errno) { errno = K().pending_send_errno; K().pending_send_errno = 0; return -1; }
  return (ssize_t)len;
}

static ssize_t stream_send(Fd *f, const void *buf, size_t len) {
  if (K().hooks.yield) K().hooks.yield("send");
  if (!f->st) { errno = f->connecting ? EAGAIN : ENOTCONN; return -1; }
  Stream *s = f->st;
  int side = f->side;
  if (s->rst[side]) { errno = ECONNRESET; return -1; }
  if (s->fd[1 - side] == -2 && s->fin[side]) { /* peer gone */ }
  size_t n = len;
  if (K().hooks.write_blocked && len > 0 && K().hooks.write_blocked(s, side)) { errno = EAGAIN; return -1; }
  if (K().hooks.write_cut) {
    size_t c = K().hooks.write_cut(s, side, len);
    if (c == 0 && len > 0) { errno = EAGAIN; return -1; }
    if (c < n) n = c;
  }
  Bytes b((const uint8_t *)buf, (const uint8_t *)buf + n);
  s->sent[side] += n;
  s->inflight[1 - side] += n;
  if (K().hooks.on_stream_data) K().hooks.on_stream_data(s, side, b);
  else deliver_stream(s, 1 - side, b);
  return (ssize_t)n;
}

ssize_t __wrap_send(int fd, const void *buf, size_t len, int) {
  Fd *f = get(fd);
  if (!f) { errno = EBADF; return -1; }
  K().syscalls++;
  if (f->kind == FD_DGRAM) {
    if (!f->connected) { errno = EDESTADDRREQ; return -1; }
    if (f->pending_err && !K().icmp_recv_only) { int e = f->pending_err; f->pending_err = 0; errno = e; return -1; }
    return dgram_send(f, f->peer, Addr(), buf, len);
  }
  if (f->kind == FD_STREAM) return stream_send(f, buf, len);
  errno = EBADF;
  return -1;
}

ssize_t __wrap_sendmsg(int fd, const struct msghdr *m, int) {
  Fd *f = get(fd);
  if (!f) { errno = EBADF; return -1; }
  K().syscalls++;
  Bytes all;
  for (size_t i = 0; i < (size_t)m->msg_iovlen; i++) {
    const uint8_t *p = (const uint8_t *)m->msg_iov[i].iov_base;
    all.insert(all.end(), p, p + m->msg_iov[i].iov_len);
  }
  if (f->kind == FD_STREAM) return stream_send(f, all.data(), all.size());
  if (f->kind != FD_DGRAM) { errno = EBADF; return -1; }
  Addr dst = f->peer;
  if (m->msg_name) dst = from_sa((const struct sockaddr *)m->msg_name);
  else if (!f->connected) { errno = EDESTADDRREQ; return -1; }
  Addr hint;
  if (m->msg_control && m->msg_controllen >= sizeof(struct cmsghdr)) {
    for (struct cmsghdr *c = CMSG_FIRSTHDR((struct msghdr *)m); c; c = CMSG_NXTHDR((struct msghdr *)m, c)) {
      if (c->cmsg_level == IPPROTO_IP && c->cmsg_type == IP_PKTINFO) {
        struct in_pktinfo pi;
        memcpy(&pi, CMSG_DATA(c), sizeof pi);
        hint.ip = ntohl(pi.ipi_spec_dst.s_addr);
        if (is_mcast(hint.ip)) hint.ip = 0;
      }
    }
  }
  return dgram_send(f, dst, hint, all.data(), all.size());
}

static ssize_t stream_recv(Fd *f, void *buf, size_t len) {
  if (K().hooks.yield) K().hooks.yield("recv");
  if (!f->st) {
    if (f->connecting && f->conn_done && f->so_error) { errno = f->so_error; return -1; }
    errno = f->connecting ? EAGAIN : ENOTCONN;
    return -1;
  }
  Stream *s = f->st;
  int side = f->side;
  auto &q = s->rx[side];
  if (q.empty()) {
    if (s->rst[side]) { errno = ECONNRESET; return -1; }
    if (s->fin[side]) return 0;
    errno = EAGAIN;
    return -1;
  }
  size_t n = len < q.size() ? len : q.size();
  if (K().hooks.read_cut) {
    size_t c = K().hooks.read_cut(s, side, len, q.size());
    if (c && c < n) n = c;
  }
  uint8_t *o = (uint8_t *)buf;
  for (size_t i = 0; i < n; i++) { o[i] = q.front(); q.pop_front(); }
  return (ssize_t)n;
}

ssize_t __wrap_recv(int fd, void *buf, size_t len, int) {
  Fd *f = get(fd);
  if (!f) { errno = EBADF; return -1; }
  K().syscalls++;
  if (f->kind == FD_STREAM) return stream_recv(f, buf, len);
  if (f->kind != FD_DGRAM) { errno = EBADF; return -1; }
  if (K().hooks.yield) K().hooks.yield("recv");
  if (f->pending_err) { int e = f->pending_err; f->pending_err = 0; errno = e; return -1; }
  if (f->rxq.empty()) { errno = EAGAIN; return -1; }
  Datagram d = std::move(f->rxq.front());
  f->rxq.pop_front();
  size_t n = d.data.size() < len ? d.data.size() : len;
  memcpy(buf, d.data.data(), n);
  return (ssize_t)n;
}

ssize_t __wrap_recvmsg(int fd, struct msghdr *m, int) {
  Fd *f = get(fd);
  if (!f) { errno = EBADF; return -1; }
  K().syscalls++;
  if (f->kind != FD_DGRAM) { errno = EBADF; return -1; }
  if (K().hooks.yield) K().hooks.yield("recv");
  if (f->pending_err) { int e = f->pending_err; f->pending_err = 0; errno = e; return -1; }
  if (f->rxq.empty()) { errno = EAGAIN; return -1; }
  Datagram d = std::move(f->rxq.front());
  f->rxq.pop_front();
  size_t off = 0;
  for (size_t i = 0; i < (size_t)m->msg_iovlen && off < d.data.size(); i++) {
    size_t n = d.data.size() - off;
    if (n > m->msg_iov[i].iov_len) n = m->msg_iov[i].iov_len;
    memcpy(m->msg_iov[i].iov_base, d.data.data() + off, n);
    off += n;
  }
  m->msg_flags = off < d.data.size() ? MSG_TRUNC : 0;
  if (m->msg_name) {
    socklen_t l = m->msg_namelen;
    to_sa(d.src, (struct sockaddr *)m->msg_name, &l);
    m->msg_namelen = l;
  }
  if (m->msg_control && f->pktinfo && m->msg_controllen >= CMSG_SPACE(sizeof(struct in_pktinfo))) {
    struct cmsghdr *c = (struct cmsghdr *)m->msg_control;
    c->cmsg_level = IPPROTO_IP;
    c->cmsg_type = IP_PKTINFO;
    c->cmsg_len = CMSG_LEN(sizeof(struct in_pktinfo));
    struct in_pktinfo pi;
    memset(&pi, 0, sizeof pi);
    pi.ipi_ifindex = 1;
    pi.ipi_addr.s_addr = htonl(d.dst.ip);
    pi.ipi_spec_dst.s_addr = htonl(is_mcast(d.dst.ip) ? node_ip_of(f->node) : d.dst.ip);
    memcpy(CMSG_DATA(c), &pi, sizeof pi);
    m->msg_controllen = CMSG_SPACE(sizeof(struct in_pktinfo));
  } else {
    m->msg_controllen = 0;
  }
  return (ssize_t)off;
}

ssize_t __wrap_read(int fd, void *buf, size_t len) {
  Fd *f = get(fd);
  if (!f) {
    if (fd >= FD_BASE && fd <= FD_MAX) { errno = EBADF; return -1; }
    return __real_read(fd, buf, len);
  }
  K().syscalls++;
  if (f->kind == FD_TIMER) {
    if (len < 8) { errno = EINVAL; return -1; }
    if (f->expiry_ns && K().now_ns >= f->expiry_ns) {
      uint64_t one = 1;
      memcpy(buf, &one, 8);
      f->expiry_ns = 0;
      return 8;
    }
    errno = EAGAIN;
    return -1;
  }
  if (f->kind == FD_STREAM) return stream_recv(f, buf, len);
  errno = EBADF;
  return -1;
}

// ---- epoll / timerfd / select
int __wrap_epoll_create1(int) {
  K().syscalls++;
  return alloc_fd(FD_EPOLL);
}
int __wrap_epoll_ctl(int epfd, int op, int fd, struct epoll_event *ev) {
  Fd *e = get(epfd);
  if (!e || e->kind != FD_EPOLL) { errno = EBADF; return -1; }
  K().syscalls++;
  if (!get(fd)) { errno = EBADF; return -1; }
  auto it = e->interest.find(fd);
  switch (op) {
  case EPOLL_CTL_ADD:
    if (it != e->interest.end()) { errno = EEXIST; return -1; }
    e->interest[fd] = Fd::Interest{ev->events, ev->data.u64};
    return 0;
  case EPOLL_CTL_MOD:
    if (it == e->interest.end()) { errno = ENOENT; return -1; }
    it->second = Fd::Interest{ev->events, ev->data.u64};
    return 0;
  case EPOLL_CTL_DEL:
    if (it == e->interest.end()) { errno = ENOENT; return -1; }
    e->interest.erase(it);
    return 0;
  }
  errno = EINVAL;
  return -1;
}
int __wrap_epoll_wait(int epfd, struct epoll_event *ev, int maxev, int timeout) {
  Fd *e = get(epfd);
  if (!e || e->kind != FD_EPOLL) { errno = EBADF; return -1; }
  K().syscalls++;
  int n = epoll_collect(epfd, ev, maxev);
  if (n == 0 && timeout != 0 && K().hooks.block) {
    int node = e->node;
    K().hooks.block(node, [epfd]() { return epoll_collect(epfd, nullptr, 1 << 30) > 0; }, timeout);
    if (K().hooks.epoll_eintr && K().hooks.epoll_eintr()) { errno = EINTR; return -1; }
    n = epoll_collect(epfd, ev, maxev);
  }
  return n;
}
int __wrap_timerfd_create(int, int) {
  K().syscalls++;
  return alloc_fd(FD_TIMER);
}
int __wrap_timerfd_settime(int fd, int flags, const struct itimerspec *nv, struct itimerspec *) {
  Fd *f = get(fd);
  if (!f || f->kind != FD_TIMER) { errno = EBADF; return -1; }
  K().syscalls++;
  uint64_t v = (uint64_t)nv->it_value.tv_sec * 1000000000ull + (uint64_t)nv->it_value.tv_nsec;
  if (v == 0) f->expiry_ns = 0;
  else f->expiry_ns = (flags & TFD_TIMER_ABSTIME) ? v : K().now_ns + v;
  return 0;
}

int __wrap_select(int nfds, fd_set *r, fd_set *w, fd_set *x, struct timeval *tv) {
  bool any_sim = false;
  for (int fd = FD_BASE; fd < nfds && fd <= FD_MAX; fd++)
    if ((r && FD_ISSET(fd, r)) || (w && FD_ISSET(fd, w)) || (x && FD_ISSET(fd, x))) any_sim = true;
  if (!any_sim && nfds > 0 && nfds <= FD_BASE) return __real_select(nfds, r, w, x, tv);
  K().syscalls++;
  fd_set r0, w0;
  FD_ZERO(&r0);
  FD_ZERO(&w0);
  if (r) r0 = *r;
  if (w) w0 = *w;
  auto count = [&](bool apply) {
    int n = 0;
    for (int fd = 0; fd < nfds && fd <= FD_MAX; fd++) {
      bool rr = r && FD_ISSET(fd, &r0) && fd_readable(fd);
      bool ww = w && FD_ISSET(fd, &w0) && fd_writable(fd);
      if (apply) {
        if (r) { if (rr) FD_SET(fd, r); else FD_CLR(fd, r); }
        if (w) { if (ww) FD_SET(fd, w); else FD_CLR(fd, w); }
        if (x) FD_CLR(fd, x);
      }
      n += rr + ww;
    }
    return n;
  };
  int n = count(false);
  int64_t to_ms = tv ? (int64_t)tv->tv_sec * 1000 + (tv->tv_usec + 999) / 1000 : -1;
  if (n == 0 && to_ms != 0 && K().hooks.block) {
    K().hooks.block(K().cur_node, [&]() { return count(false) > 0; }, to_ms);
  }
  return count(true);
}

// ---- allocator (definitions live in coap_mem.c; every caller is elsewhere)
void *__real_coap_malloc_type(int type, size_t size);
void *__real_coap_realloc_type(int type, void *p, size_t size);
void __real_coap_free_type(int type, void *p);

void *__wrap_coap_malloc_type(int type, size_t size) {
  Kernel &k = K();
  if (k.hooks.yield) k.hooks.yield("malloc");
  k.alloc.calls++;
  if (k.hooks.fail_alloc && k.hooks.fail_alloc(type, size)) { k.alloc.failed++; return nullptr; }
  void *p = __real_coap_malloc_type(type, size);
  if (p) { k.alloc.live++; if (type >= 0 && type < 32) k.alloc.live_by_type[type]++; }
  return p;
}
void *__wrap_coap_realloc_type(int type, void *old, size_t size) {
  Kernel &k = K();
  k.alloc.calls++;
  if (k.hooks.fail_alloc && k.hooks.fail_alloc(type, size)) { k.alloc.failed++; return nullptr; }
  void *p = __real_coap_realloc_type(type, old, size);
  if (p && !old) { k.alloc.live++; if (type >= 0 && type < 32) k.alloc.live_by_type[type]++; }
  return p;
}
void __wrap_coap_free_type(int type, void *p) {
  Kernel &k = K();
  if (k.hooks.yield) k.hooks.yield("free");
  if (p) { k.alloc.live--; if (type >= 0 && type < 32) k.alloc.live_by_type[type]--; }
  __real_coap_free_type(type, p);
}

// ---- exit (reached from uthash_fatal)
void __real_exit(int);
void __wrap_exit(int code) {
  K().exit_called++;
  K().exit_code = code;
  if (K().hooks.on_exit) K().hooks.on_exit(code);
  __real_exit(code);
}

}  // extern "C"

namespace simk {
int raw_listen(int node, Addr local) {
  int save = K().cur_node;
  K().cur_node = node;
  int fd = __wrap_socket(AF_INET, SOCK_STREAM, 0);
  K().cur_node = save;
  if (fd < 0) return -1;
  struct sockaddr_in sa;
  memset(&sa, 0, sizeof sa);
  sa.sin_family = AF_INET;
  sa.sin_addr.s_addr = htonl(local.ip);
  sa.sin_port = htons(local.port);
  if (__wrap_bind(fd, (struct sockaddr *)&sa, sizeof sa) < 0 || __wrap_listen(fd, 5) < 0) { __wrap_close(fd); return -1; }
  get(fd)->nonblock = true;
  return fd;
}
int raw_accept(int lfd) {
  struct sockaddr_in sa;
  socklen_t l = sizeof sa;
  int fd = __wrap_accept(lfd, (struct sockaddr *)&sa, &l);
  if (fd >= 0) get(fd)->nonblock = true;
  return fd;
}
int raw_connect(int node, Addr dst) {
  int save = K().cur_node;
  K().cur_node = node;
  int fd = __wrap_socket(AF_INET, SOCK_STREAM, 0);
  if (fd >= 0) {
    get(fd)->nonblock = true;
    struct sockaddr_in sa;
    memset(&sa, 0, sizeof sa);
    sa.sin_family = AF_INET;
    sa.sin_addr.s_addr = htonl(dst.ip);
    sa.sin_port = htons(dst.port);
    __wrap_connect(fd, (struct sockaddr *)&sa, sizeof sa);
  }
  K().cur_node = save;
  return fd;
}
bool raw_stream_read(int fd, Bytes &out, bool *eof) {
  bool any = false;
  if (eof) *eof = false;
  Fd *f = get(fd);
  if (f && f->connecting && f->conn_done) { int e = 0; socklen_t l = sizeof e; __wrap_getsockopt(fd, SOL_SOCKET, SO_ERROR, &e, &l); }
  for (;;) {
    uint8_t buf[4096];
    ssize_t n = __wrap_recv(fd, buf, sizeof buf, 0);
    if (n > 0) { out.insert(out.end(), buf, buf + n); any = true; continue; }
    if (n == 0 && eof) *eof = true;
    break;
  }
  return any;
}
void raw_stream_write(int fd, const Bytes &b) {
  size_t off = 0;
  int guard = 0;
  Fd *f = get(fd);
  if (f && f->connecting && f->conn_done) { int e = 0; socklen_t l = sizeof e; __wrap_getsockopt(fd, SOL_SOCKET, SO_ERROR, &e, &l); }
  while (off < b.size() && guard++ < 100000) {
    ssize_t n = __wrap_send(fd, b.data() + off, b.size() - off, 0);
    if (n > 0) off += (size_t)n;
    else if (n < 0 && errno != EAGAIN) break;
  }
}
void raw_close(int fd) { __wrap_close(fd); }
}  // namespace simk
