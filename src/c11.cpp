// C11 — observe: registered observers get fresh, ordered notifications until cancelled.
// World: libcoap server (node 0) with 1..3 observable resources, 1..3 libcoap clients (nodes 1..3); ops register / change /
// cancel (Observe=1, RST via handler verdict, error response, resource deletion) / re-register; loss/dup/delay on everything.
#include "runner.h"
#include "world.h"
#include "coapx.h"
#include "mon_r3.h"

namespace {

struct ObsKey {
  simk::Addr peer;
  Bytes token;
  bool operator<(const ObsKey &o) const { return peer != o.peer ? peer < o.peer : token < o.token; }
};

struct ObsState {
  bool registered = false;          // as far as the server is concerned
  uint64_t t_registered = 0, t_dereg = 0;
  int res = -1;
  std::string query;
  std::string dereg_why;
  int last_notif_mid = -1;
  bool diverged = false;            // libcoap ignored a Reset the model honoured (known finding rst_older): its entry lives on with its own deferred work
  uint32_t last_obs = 0;
  bool have_obs = false, have_notif_obs = false;
  uint32_t last_notif_obs = 0;
  int consecutive_non = 0;
  int new_notifications = 0;        // since (re-)registration, not counting the registration response
  uint64_t t_count_from = 0;        // instant of the (re-)registration the count starts at
  int last_state_sent = -1;
  std::set<Bytes> datagrams_seen;
  std::set<int> notif_mids;         // all notification mids to this observer (for RST attribution)
};

struct C11World {
  World w;
  RunResult *res = nullptr;
  R3Monitor *r3 = nullptr;
  coap_context_t *sctx = nullptr;
  std::vector<coap_context_t *> cctx;
  std::vector<coap_session_t *> csess;
  std::vector<coap_resource_t *> resources;
  std::vector<int> state;                  // per resource: state counter (payload of notifications)
  std::vector<bool> gone;                  // handler answers 4.04
  std::vector<bool> deleted;
  std::map<ObsKey, ObsState> obs;
  struct Pending { uint64_t t; int mid; int type; int res; std::string query; };
  std::map<ObsKey, Pending> pending;         // registration requests delivered to the server, not yet answered
  std::vector<std::vector<std::pair<uint64_t, int>>> changes;   // per resource: (instant, number of changes signalled)
  void dereg(ObsState &s, uint64_t t, const char *why) {
    if (!s.registered) return;
    s.registered = false;
    s.t_dereg = t;
    s.dereg_why = why;
    w.count(std::string("probe.dereg_by_") + why);
  }
  int changes_since(int ri, uint64_t t) const {
    int n = 0;
    for (auto &c : changes[(size_t)ri]) if (c.first >= t) n += c.second;
    return n;
  }
  bool big = false;                        // representations need three Block2 blocks
  std::map<Bytes, bool> client_reject;     // client token -> response handler returns FAIL (RST)
  std::map<const coap_session_t *, simk::Addr> sess_addr;
  std::map<const void *, ObsKey> sub_key;            // libcoap subscription -> (peer, token)
  std::map<simk::Addr, uint64_t> last_rst_t;         // peer -> instant of the last Reset delivered to the server
};
C11World *g = nullptr;

bool serial_gt(uint32_t a, uint32_t b) {   // RFC 7641 3.4 / RFC 1982 on 24 bits
  a &= 0xffffff;
  b &= 0xffffff;
  return (a > b && a - b < (1u << 23)) || (a < b && b - a > (1u << 23));
}

void hnd(coap_resource_t *resource, coap_session_t *session, const coap_pdu_t *request, const coap_string_t *query, coap_pdu_t *response) {
  int ri = (int)(intptr_t)coap_resource_get_userdata(resource);
  coap_opt_iterator_t oi;
  coap_opt_t *o = coap_check_option(request, COAP_OPTION_OBSERVE, &oi);
  Bytes tok = cx::tok_of(request);
  simk::Addr peer = cx::remote_of(session);
  int obsval = o ? (int)coap_decode_var_bytes(coap_opt_value(o), coap_opt_length(o)) : -1;
  g->w.log("SERVER-HANDLER res=%d peer=%s tok=%s observe=%d state=%d gone=%d", ri, peer.str().c_str(), hex(tok).c_str(), obsval, g->state[(size_t)ri], (int)g->gone[(size_t)ri]);
  ObsKey k{peer, tok};
  // NB: libcoap re-runs this handler with the stored registration request for every notification, so registrations are
  // modelled from the request datagrams that reach the server (wire tap), not from handler calls.
  if (g->gone[(size_t)ri]) {
    coap_pdu_set_code(response, COAP_RESPONSE_CODE_NOT_FOUND);
    // an error response ends the observation
    auto it = g->obs.find(k);
    if (it != g->obs.end() && it->second.res == ri) g->dereg(it->second, g->w.now(), "error_response");
    return;
  }
  coap_pdu_set_code(response, COAP_RESPONSE_CODE_CONTENT);
  uint8_t body[4] = {'S', (uint8_t)ri, (uint8_t)(g->state[(size_t)ri] >> 8), (uint8_t)g->state[(size_t)ri]};
  if (g->big) {
    uint8_t *big = (uint8_t *)malloc(2500);
    memset(big, 0x2e, 2500);
    memcpy(big, body, 4);
    g->w.count("probe.block2_notification_bodies");
    if (!coap_add_data_large_response(resource, session, request, response, query, COAP_MEDIATYPE_APPLICATION_OCTET_STREAM, -1, (uint64_t)(0x1000 + g->state[(size_t)ri] * 8 + ri) /* ETag of this representation */, 2500, big,
                                      [](coap_session_t *, void *p) { free(p); }, big))
      coap_pdu_set_code(response, COAP_RESPONSE_CODE_INTERNAL_ERROR);
    return;
  }
  coap_add_data(response, 4, body);
}

coap_response_t resp_cb(coap_session_t *, const coap_pdu_t *, const coap_pdu_t *rcv, const coap_mid_t) {
  Bytes tok = cx::tok_of(rcv);
  g->w.log("CLIENT-RESP tok=%s code=%d", hex(tok).c_str(), (int)coap_pdu_get_code(rcv));
  auto it = g->client_reject.find(tok);
  if (it != g->client_reject.end() && it->second) return COAP_RESPONSE_FAIL;
  return COAP_RESPONSE_OK;
}

void server_nack(coap_session_t *s, const coap_pdu_t *sent, const coap_nack_reason_t reason, const coap_mid_t mid) {
  g->w.log("SERVER-NACK peer=%s mid=%04x reason=%d sent=%d", cx::remote_of(s).str().c_str(), (unsigned)mid & 0xffff, (int)reason, sent != nullptr);
  if (sent) g->r3->on_nack(0, s, mid, reason);
  simk::Addr peer = cx::remote_of(s);
  if (reason == COAP_NACK_TOO_MANY_RETRIES && sent && (coap_pdu_get_code(sent) >> 5) == 2) {
    // a failed Confirmable notification ends the observation
    ObsKey k{peer, cx::tok_of(sent)};
    auto it = g->obs.find(k);
    if (it != g->obs.end()) g->dereg(it->second, g->w.now(), "failed_con");
  }
}

// libcoap's own view of its registry is used for one thing only: a Reset whose mid is not one of the notifications sent
// (e.g. the Reset of a registration answer) can still hit obs->pdu->mid, which holds a freshly allocated, never transmitted
// mid until the first notification (1 in 65536). When libcoap reports the observer deleted in the instant such a Reset from
// that peer was delivered, the model follows.
int obs_added_cb(coap_session_t *session, coap_subscription_t *key, coap_proto_t, coap_address_t *, coap_addr_tuple_t *, coap_bin_const_t *raw, coap_bin_const_t *, void *) {
  r1::Msg m;
  if (raw && r1::decode_udp(raw->s, raw->length, m) != r1::REJECT) g->sub_key[key] = ObsKey{cx::remote_of(session), m.token};
  return 1;
}
int obs_deleted_cb(coap_session_t *, coap_subscription_t *key, void *) {
  auto it = g->sub_key.find(key);
  if (it == g->sub_key.end()) return 1;
  auto rt = g->last_rst_t.find(it->second.peer);
  auto ob = g->obs.find(it->second);
  if (rt != g->last_rst_t.end() && rt->second == g->w.now() && ob != g->obs.end() && ob->second.registered) g->dereg(ob->second, g->w.now(), "rst_mid_coincidence");
  g->sub_key.erase(it);
  return 1;
}
int obs_value_cb(coap_context_t *, coap_str_const_t *, uint32_t, void *) { return 1; }
int dyn_added_cb(coap_session_t *, coap_str_const_t *, coap_bin_const_t *, void *) { return 1; }
int res_deleted_cb(coap_context_t *, coap_str_const_t *, void *) { return 1; }

int server_event(coap_session_t *s, const coap_event_t ev) {
  if (ev == COAP_EVENT_SERVER_SESSION_NEW) g->sess_addr[s] = cx::remote_of(s);
  if (ev == COAP_EVENT_SERVER_SESSION_DEL) {
    simk::Addr peer = g->sess_addr.count(s) ? g->sess_addr[s] : cx::remote_of(s);
    g->w.log("SERVER-SESSION-DEL peer=%s", peer.str().c_str());
    for (auto &kv : g->obs)
      if (kv.first.peer == peer && kv.second.registered && !g->deleted[(size_t)kv.second.res])
        g->res->violate("R7.session_reclaimed_with_observer", "session_del", strfmt("server session of %s was deleted while it still has an observer (token %s)", peer.str().c_str(), hex(kv.first.token).c_str()));
    g->sess_addr.erase(s);
  }
  return 0;
}

struct C11 : Property {
  C11() {
    id = "C11";
    technique = "deterministic simulation with fault injection: real libcoap server and clients, seeded histories of register/change/cancel/re-register with loss/dup/delay on notifications, ACKs and RSTs; wire-level observe-registry oracle (R7) with 24-bit serial arithmetic + retransmission monitor (R3)";
    rule_text = "plan = 1..3 resources (NOTIFY_NON / NOTIFY_CON) x 1..4 clients x history of 5..40 ops (register with fresh or reused token, change = coap_resource_notify_observers incl. bursts between I/O steps, cancel by Observe=1 / by RST (client handler verdict FAIL) / by error response (resource answers 4.04) / by resource deletion, idle periods beyond the session time-out) x drop/dup/delay faults on both directions of every client link. Non-trivial: at least one notification was sent after a fault fired; distinct = distinct trace hash.";
    real_components = {"libcoap server: coap_resource.c (coap_add_observer, coap_notify_observers, coap_check_notify, failed-observer handling), coap_subscribe.c, coap_net.c (Observe handling in handle_request, RST handling), coap_session.c (idle reclamation); libcoap clients: observe bookkeeping, coap_cancel_observe"};
    stub_components = {"simk clock/UDP", "R1 decoder for the wire registry"};
    assumptions = {"deregistration is effective at the server when the cancelling datagram was processed there (handler ran with Observe=1, RST matched, give-up NACK, error response sent, resource deleted); notifications sent before that instant are legitimate",
                   "coalescing of bursts is permitted: fewer notifications than changes is fine as long as the last state is notified",
                   "NOTIFY_NON_ALWAYS is not generated"};
    quick_budget_s = 35;
    thorough_budget_s = 600;
  }

  json generate(uint64_t base, uint64_t index, bool) override {
    Rng r(mix3(base, 0xC11, index));
    json p;
    p["property"] = "C11";
    p["seed"] = base;
    p["index"] = index;
    p["sched_salt"] = r.next() & 0xffffffff;
    int nres = (int)r.range(1, 3), ncl = (int)r.range(1, 4);
    json resj = json::array();
    for (int i = 0; i < nres; i++) resj.push_back({{"con", r.chance(0.35)}});
    // "notifications larger than one block": the representation is 2500 bytes (more than a datagram takes) served through
    // coap_add_data_large_response() with a 512-byte maximum block size; the observer fetches blocks 1.. of every notification with follow-up requests
    p["config"] = {{"resources", resj}, {"clients", ncl}, {"big", r.chance(0.15)}};
    json ops = json::array();
    int n = (int)r.range(5, 40);
    int64_t t = 0;
    int ntok = 0;
    std::vector<std::array<int, 4>> regs;   // (client, res, tokid, query)
    static const char *const queries[] = {"", "", "a=1", "b=2"};
    for (int i = 0; i < n; i++) {
      t += r.chance(0.5) ? r.range(0, 30) : r.chance(0.9) ? r.range(30, 3000) : r.range(3000, 400000);
      double x = (r.next() >> 11) * (1.0 / 9007199254740992.0);
      if (x < 0.25 || regs.empty()) {
        int c = (int)r.below((uint64_t)ncl), rs = (int)r.below((uint64_t)nres);
        int tk = ntok++, qi = (int)r.below(4);
        if (!regs.empty() && r.chance(0.25)) { auto &old = regs[r.below(regs.size())]; c = old[0]; rs = old[1]; tk = old[2]; qi = old[3]; }   // re-register the same observation
        ops.push_back({{"t_ms", t}, {"op", "register"}, {"client", c}, {"res", rs}, {"tok", tk}, {"query", queries[qi]}, {"con", r.chance(0.8)}});
        regs.push_back({c, rs, tk, qi});
      } else if (x < 0.70) {
        ops.push_back({{"t_ms", t}, {"op", "change"}, {"res", r.below((uint64_t)nres)}, {"burst", r.chance(0.3) ? r.range(2, 5) : 1}});
      } else if (x < 0.80) {
        auto &g3 = regs[r.below(regs.size())];
        ops.push_back({{"t_ms", t}, {"op", "cancel"}, {"client", g3[0]}, {"res", g3[1]}, {"tok", g3[2]}, {"con", r.chance(0.7)}});
      } else if (x < 0.87) {
        auto &g3 = regs[r.below(regs.size())];
        ops.push_back({{"t_ms", t}, {"op", "reject"}, {"tok", g3[2]}});        // client starts answering notifications with RST
      } else if (x < 0.90) {
        ops.push_back({{"t_ms", t}, {"op", "gone"}, {"res", r.below((uint64_t)nres)}});
      } else if (x < 0.93) {
        // the client drops off the network for a while (long enough, sometimes, for a Confirmable notification to fail)
        ops.push_back({{"t_ms", t}, {"op", "partition"}, {"client", r.below((uint64_t)ncl)}, {"dir", r.below(3)}, {"dur_ms", r.chance(0.5) ? r.range(500, 20000) : r.range(20000, 200000)}});
      } else if (x < 0.95) {
        ops.push_back({{"t_ms", t}, {"op", "delete"}, {"res", r.below((uint64_t)nres)}});
      } else ops.push_back({{"t_ms", t}, {"op", "change"}, {"res", r.below((uint64_t)nres)}, {"burst", 7}});
    }
    p["ops"] = ops;
    json faults = json::array();
    double rate = r.chance(0.3) ? 0.0 : r.chance(0.3) ? 0.2 : 0.07;
    for (int c = 1; c <= ncl; c++)
      for (int dir = 0; dir < 2; dir++)
        for (int k = 0; k < 40; k++) {
          if (!r.chance(rate)) continue;
          std::string link = dir ? strfmt("0>%d", c) : strfmt("%d>0", c);
          double x = (r.next() >> 11) * (1.0 / 9007199254740992.0);
          if (x < 0.5) faults.push_back({{"link", link}, {"idx", k}, {"act", "drop"}});
          else if (x < 0.8) faults.push_back({{"link", link}, {"idx", k}, {"act", "dup"}, {"n", 1}, {"delay_us", {r.range(0, 1500000)}}});
          else faults.push_back({{"link", link}, {"idx", k}, {"act", "delay"}, {"delay_us", {r.range(0, 1500000)}}});
        }
    p["faults"] = faults;
    return p;
  }

  void execute(const json &plan, RunResult &res, bool verbose) override {
    C11World cw;
    g = &cw;
    cw.res = &res;
    World &w = cw.w;
    w.begin(plan.value("sched_salt", 1ull), &res, verbose, false);
    w.max_sim_ns = 40000ull * 1000000000ull;
    R3Monitor r3(w, res);
    cw.r3 = &r3;
    const json &cfg = plan["config"];
    int ncl = cfg.value("clients", 1);
    w.add_node(nullptr);   // 0 server
    cw.sctx = cx::new_context(w, 0);
    {
      World::AsNode as(0);
      coap_register_nack_handler(cw.sctx, server_nack);
      coap_register_event_handler(cw.sctx, server_event);
      cw.big = cfg.value("big", false);
      if (cw.big) { coap_context_set_block_mode(cw.sctx, COAP_BLOCK_USE_LIBCOAP); coap_context_set_max_block_size(cw.sctx, 512); }
      coap_persist_track_funcs(cw.sctx, obs_added_cb, obs_deleted_cb, obs_value_cb, dyn_added_cb, res_deleted_cb, 1, nullptr);
      int i = 0;
      for (auto &jr : cfg["resources"]) {
        std::string name = "o" + std::to_string(i);
        coap_resource_t *rs = coap_resource_init(coap_new_str_const((const uint8_t *)name.data(), name.size()), COAP_RESOURCE_FLAGS_RELEASE_URI | (jr.value("con", false) ? COAP_RESOURCE_FLAGS_NOTIFY_CON : COAP_RESOURCE_FLAGS_NOTIFY_NON));
        coap_resource_set_userdata(rs, (void *)(intptr_t)i);
        coap_register_request_handler(rs, COAP_REQUEST_GET, hnd);
        coap_resource_set_get_observable(rs, 1);
        coap_add_resource(cw.sctx, rs);
        cw.resources.push_back(rs);
        cw.state.push_back(1);
        cw.gone.push_back(false);
        cw.deleted.push_back(false);
        cw.changes.emplace_back();
        i++;
      }
    }
    cx::new_endpoint(w, 0, cw.sctx, 5683, COAP_PROTO_UDP);
    for (int c = 1; c <= ncl; c++) {
      w.add_node(nullptr);
      coap_context_t *cc = cx::new_context(w, c);
      {
        World::AsNode as(c);
        coap_context_set_block_mode(cc, COAP_BLOCK_USE_LIBCOAP);     // coap_cancel_observe needs libcoap's request tracking
        coap_register_response_handler(cc, resp_cb);
      }
      cw.cctx.push_back(cc);
      cw.csess.push_back(cx::new_client(w, c, cc, World::node_addr(0, 5683), COAP_PROTO_UDP));
    }
    for (auto &f : plan["faults"]) w.faults.push_back(f.get<Fault>());
    r3.watch(0, R3Monitor::Params());
    r3.attach();
    bool notif_after_fault = false;
    // wire registry: requests and Resets reaching the server (registration / cancellation), notifications leaving it
    w.taps.push_back([&](const WireEv &e) {
      if (e.kind == WireEv::DELIVER && e.to == 0) {
        r1::Msg q;
        if (r1::decode_udp(e.d->data, q) != r1::ACCEPT) return;
        if (q.type == 3) {
          cw.last_rst_t[e.d->src] = e.t_ns;
          // Reset in reply to a notification ends that observation
          for (auto &kv : cw.obs)
            if (kv.first.peer == e.d->src && kv.second.registered && kv.second.notif_mids.count(q.mid))
              cw.dereg(kv.second, e.t_ns, kv.second.last_notif_mid == q.mid ? "rst_latest" : "rst_older");
          return;
        }
        if (q.code != 1) return;
        const r1::Opt *oo = q.find(r1::O_OBSERVE);
        const r1::Opt *pp = q.find(r1::O_URI_PATH);
        if (!oo || !pp || pp->val.size() != 2 || pp->val[0] != 'o') return;
        int ri = pp->val[1] - '0';
        if (ri < 0 || ri >= (int)cw.resources.size() || cw.deleted[(size_t)ri]) return;
        std::string query;
        // libcoap's cache key: every option but Observe, ETag, OSCORE and the NoCacheKey class (coap_cache.c)
        for (auto &op : q.opts) if (op.num != 6 && op.num != 4 && op.num != 9 && (op.num & 0x1e) != 0x1c) query += strfmt("/%u=", (unsigned)op.num) + hex(op.val);
        ObsKey k{e.d->src, q.token};
        uint32_t ov = r1::decode_uint(oo->val);
        if (ov == 0) cw.pending[k] = C11World::Pending{e.t_ns, q.mid, q.type, ri, query};   // effective once answered 2.xx + Observe
        else if (ov == 1) {
          // by token on this resource, else by cache key (same endpoint, resource and query) -- coap_delete_observer_request
          auto it = cw.obs.find(k);
          if (it != cw.obs.end() && it->second.registered && it->second.res == ri) cw.dereg(it->second, e.t_ns, "request");
          else
            for (auto &kv : cw.obs)
              if (kv.first.peer == e.d->src && kv.second.registered && kv.second.res == ri && kv.second.query == query) { cw.dereg(kv.second, e.t_ns, "request_cache_key"); break; }
        }
        return;
      }
      if (e.kind != WireEv::SEND || e.from != 0) return;
      r1::Msg m;
      if (r1::decode_udp(e.d->data, m) != r1::ACCEPT) return;
      const r1::Opt *o = m.find(r1::O_OBSERVE);
      if (m.code == 0) return;
      ObsKey k{e.d->dst, m.token};
      auto pit = cw.pending.find(k);
      bool reg_response = false;
      if (pit != cw.pending.end()) {
        if (pit->second.t != e.t_ns) cw.pending.erase(pit);        // libcoap answers in the step that read the request
        else if (pit->second.mid == m.mid && (m.type == 2 ? pit->second.type == 0 : (m.type == 1 && pit->second.type == 1))) reg_response = true;   // libcoap answers a NON request with a NON under the request's mid
      }
      if (reg_response && (!o || (m.code >> 5) != 2)) {
        // registration refused: the attempt has already displaced an entry for the same request (coap_add_observer runs
        // before the handler), and the refusal tells the client that nothing is registered for it any more
        C11World::Pending pd = pit->second;
        cw.pending.erase(pit);
        for (auto &kv : cw.obs)
          if (kv.first.peer == k.peer && kv.second.res == pd.res && (kv.first.token == k.token || kv.second.query == pd.query)) cw.dereg(kv.second, e.t_ns, "registration_refused");
        return;
      }
      if (!o || (m.code >> 5) != 2) return;
      uint32_t v = r1::decode_uint(o->val);
      if (reg_response) {
        C11World::Pending pd = pit->second;
        cw.pending.erase(pit);
        ObsState &s = cw.obs[k];
        if (s.registered && s.res == pd.res) {
          w.count("probe.reregistration");      // a notification deferred by NSTART stays due: counters carry on
        } else {
          ObsState fresh;
          fresh.datagrams_seen = s.datagrams_seen;
          fresh.diverged = s.diverged || s.dereg_why == "rst_older";
          // (mids of the notifications of an earlier observation under this token are not carried over: a late Reset for one
          //  of them does not concern the new observation)
          s = fresh;
          s.registered = true;
          s.t_registered = e.t_ns;
          s.res = pd.res;
          s.query = pd.query;
          s.new_notifications = 0;
          s.t_count_from = e.t_ns;
          // libcoap keeps one observation per (session, resource, cache key): a registration of the same request under
          // another token replaces the older entry (coap_add_observer)
          for (auto &kv : cw.obs)
            if (!(kv.first.token == k.token) && kv.first.peer == k.peer && kv.second.registered && kv.second.res == pd.res && kv.second.query == pd.query) cw.dereg(kv.second, e.t_ns, "replaced_same_request");
          w.count("probe.registration");
        }
      }
      auto it = cw.obs.find(k);
      if (it == cw.obs.end()) {
        res.violate("R7.notification_after_deregistration", "never_registered", strfmt("notification mid=%04x Observe=%u to %s token %s which never registered", m.mid, v, e.d->dst.str().c_str(), hex(m.token).c_str()));
        return;
      }
      ObsState &s = it->second;
      bool is_new = s.datagrams_seen.insert(e.d->data).second;   // (message ids alone can coincide with the client's mid space)
      if (!is_new && !reg_response) return;     // retransmission: byte-identity is R3's business (a duplicated request is answered afresh under the same mid)
      std::string ctx = strfmt("observer %s token %s resource %d: %s mid=%04x Observe=%u %s", e.d->dst.str().c_str(), hex(m.token).c_str(), s.res, reg_response ? "registration response" : "notification", m.mid, v, m.type == 0 ? "CON" : m.type == 1 ? "NON" : "ACK");
      // the answer to a re-registration is not caused by a change: it may repeat the current value, never go back
      // (and a notification deferred across a re-registration may repeat the value of that answer)
      if (s.have_obs && !serial_gt(v, s.last_obs) && v != s.last_obs) res.violate("R7.observe_not_increasing", reg_response ? "registration_response" : "notification", ctx + strfmt(" is less than the earlier %u", s.last_obs));
      else if (!reg_response && s.have_notif_obs && !serial_gt(v, s.last_notif_obs)) res.violate("R7.observe_not_increasing", "notification", ctx + strfmt(" is not greater than the earlier notification's %u", s.last_notif_obs));
      s.last_obs = v;
      s.have_obs = true;
      if (!reg_response) { s.last_notif_obs = v; s.have_notif_obs = true; }
      if (m.payload.size() >= 4 && m.payload[0] == 'S') s.last_state_sent = m.payload[2] << 8 | m.payload[3];   // (first block of a block-wise notification)
      if (reg_response) return;
      s.notif_mids.insert(m.mid);
      s.last_notif_mid = m.mid;
      for (auto &f : w.faults) if (f.fired) notif_after_fault = true;
      w.count("probe.notifications");
      // a notification that left in the instant the Reset arrived went out before the server read the Reset: by then
      // the Reset no longer names the latest notification
      if (!s.registered && e.t_ns == s.t_dereg && s.dereg_why == "rst_latest") s.dereg_why = "rst_older";
      if (!s.registered && e.t_ns > s.t_dereg) { res.violate("R7.notification_after_deregistration", "after_" + s.dereg_why, ctx + strfmt(" sent %.3f ms after the observation ended (%s)", (e.t_ns - s.t_dereg) / 1e6, s.dereg_why.c_str())); return; }
      if (m.type == 1) { if (++s.consecutive_non > 5) res.violate("R7.no_confirmable_in_six", "six_non", ctx + strfmt(": %d consecutive Non-confirmable notifications", s.consecutive_non)); }
      else s.consecutive_non = 0;
      s.new_notifications++;
      int nchg = cw.changes_since(s.res, s.t_count_from);
      if (s.new_notifications > nchg && !s.diverged) res.violate("R7.more_notifications_than_changes", "duplicate_entry", ctx + strfmt(": %d notifications for %d changes since the (re-)registration", s.new_notifications, nchg));
    });
    // workload
    for (auto &op : plan["ops"]) {
      json o = op;
      w.at_ns(w.now() + (uint64_t)op.value("t_ms", (int64_t)0) * 1000000ull, [&cw, &w, o, ncl]() {
        std::string kind = o.value("op", "change");
        if (kind == "register" || kind == "cancel") {
          int c = o.value("client", 0) % ncl;
          int rs = o.value("res", 0) % (int)cw.resources.size();
          Bytes tok = {0xC1, 0x10, (uint8_t)o.value("tok", 0), (uint8_t)(0x40 + c), 0x7E};
          World::AsNode as(c + 1);
          coap_session_t *s = cw.csess[(size_t)c];
          if (kind == "cancel") {
            coap_binary_t *t = coap_new_binary(tok.size());
            memcpy(t->s, tok.data(), tok.size());
            int r = coap_cancel_observe(s, t, o.value("con", true) ? COAP_MESSAGE_CON : COAP_MESSAGE_NON);
            coap_delete_binary(t);
            w.log("CANCEL client=%d tok=%s result=%d", c, hex(tok).c_str(), r);
            return;
          }
          cw.client_reject[tok] = false;
          coap_pdu_t *p = coap_new_pdu(o.value("con", true) ? COAP_MESSAGE_CON : COAP_MESSAGE_NON, COAP_REQUEST_CODE_GET, s);
          if (!p) return;
          coap_add_token(p, tok.size(), tok.data());
          coap_add_option(p, COAP_OPTION_OBSERVE, 0, nullptr);
          std::string name = "o" + std::to_string(rs);
          coap_add_option(p, COAP_OPTION_URI_PATH, name.size(), (const uint8_t *)name.data());
          std::string qs = o.value("query", std::string());
          if (!qs.empty()) coap_add_option(p, COAP_OPTION_URI_QUERY, qs.size(), (const uint8_t *)qs.data());
          coap_send(s, p);
          w.log("REGISTER client=%d res=%d tok=%s", c, rs, hex(tok).c_str());
        } else if (kind == "change") {
          int rs = o.value("res", 0) % (int)cw.resources.size();
          if (cw.deleted[(size_t)rs]) return;
          World::AsNode as(0);
          int burst = o.value("burst", 1);
          for (int b = 0; b < burst; b++) {
            cw.state[(size_t)rs]++;
            coap_resource_notify_observers(cw.resources[(size_t)rs], nullptr);
          }
          cw.changes[(size_t)rs].push_back({w.now(), burst});
          w.log("CHANGE res=%d x%d state=%d", rs, burst, cw.state[(size_t)rs]);
        } else if (kind == "reject") {
          for (auto &kv : cw.client_reject) if (kv.first.size() > 2 && kv.first[2] == (uint8_t)o.value("tok", 0)) kv.second = true;
          w.log("REJECT tok=%d", o.value("tok", 0));
        } else if (kind == "partition") {
          int c = o.value("client", 0) % ncl + 1, dir = o.value("dir", 0);
          if (dir != 2) w.partitioned.insert({0, c});
          if (dir != 1) w.partitioned.insert({c, 0});
          w.log("PARTITION client=%d dir=%d for %lld ms", c - 1, dir, (long long)o.value("dur_ms", (int64_t)1000));
          w.at_ns(w.now() + (uint64_t)o.value("dur_ms", (int64_t)1000) * 1000000ull, [&w, c]() {
            w.partitioned.erase({0, c});
            w.partitioned.erase({c, 0});
            w.log("HEAL client=%d", c - 1);
          }, -1);
        } else if (kind == "gone") {
          int rs = o.value("res", 0) % (int)cw.resources.size();
          cw.gone[(size_t)rs] = true;
          w.log("GONE res=%d", rs);
        } else if (kind == "delete") {
          int rs = o.value("res", 0) % (int)cw.resources.size();
          if (cw.deleted[(size_t)rs]) return;
          World::AsNode as(0);
          cw.deleted[(size_t)rs] = true;
          for (auto &kv : cw.obs) if (kv.second.res == rs) cw.dereg(kv.second, w.now(), "resource_deleted");   // the 4.04 farewell is sent in this instant
          coap_delete_resource(cw.sctx, cw.resources[(size_t)rs]);
          w.log("DELETE res=%d", rs);
        }
      }, -1);
    }
    w.run();
    if (w.aborted) res.violate("M-live.abort", w.abort_why, "run did not quiesce: " + w.abort_why);
    else {
      r3.finish();
      // the last state is eventually notified to every observer still registered
      for (auto &kv : cw.obs) {
        ObsState &s = kv.second;
        if (!s.registered || cw.deleted[(size_t)s.res] || cw.gone[(size_t)s.res]) continue;
        if (s.last_state_sent != cw.state[(size_t)s.res])
          res.violate("R7.last_state_not_notified", "last_state", strfmt("observer %s token %s is still registered on resource %d at quiescence but the last notification sent carried state %d, the resource is at %d", kv.first.peer.str().c_str(), hex(kv.first.token).c_str(), s.res, s.last_state_sent, cw.state[(size_t)s.res]));
      }
    }
    res.nontrivial = notif_after_fault;
    for (size_t c = 0; c < cw.cctx.size(); c++) {
      World::AsNode as((int)c + 1);
      if (cw.csess[c]) coap_session_release(cw.csess[c]);
      coap_free_context(cw.cctx[c]);
    }
    {
      World::AsNode as(0);
      cw.obs.clear();     // tear-down deletes sessions with observers: not judged
      coap_free_context(cw.sctx);
    }
    w.end();
    g = nullptr;
  }
};

struct Reg { Reg() { register_property(new C11()); } } reg;

}  // namespace
