// R3 — retransmission-clock monitor (C06): watches every Confirmable datagram a libcoap node sends.
#pragma once
#include "world.h"
#include "r1.h"
#include "coapx.h"
#include <cmath>
#include <algorithm>

struct R3Monitor {
  World &w;
  RunResult &res;
  struct Params { double at_ms = 2000, rf = 1.5; int max_rtx = 4; };
  // transmission parameters per (node, peer address); falls back to node default
  std::map<std::pair<int, simk::Addr>, Params> params;
  std::map<int, Params> node_default;
  bool judge_timing = true;        // off when nodes may be stalled
  bool judge_count = true;
  int tol_ms = 2;

  struct Key {
    int node;
    simk::Addr src, dst;
    int mid;
    bool operator<(const Key &o) const {
      if (node != o.node) return node < o.node;
      if (src != o.src) return src < o.src;
      if (dst != o.dst) return dst < o.dst;
      return mid < o.mid;
    }
  };
  struct Tx {
    std::vector<uint64_t> t;     // transmission instants (ns)
    Bytes bytes;
    Bytes token;
    uint64_t t_ack = 0, t_rst = 0;          // first delivery of matching ACK / RST
    bool ack_maybe = false;                 // an ACK/RST with this mid sat in the socket in the instant of the first transmission
    uint64_t t_resp = 0;                    // first delivery of a separate response carrying the request's token
    bool is_request = false;
    int nacks = 0;
    int nack_reason = -1;
    uint64_t t_nack = 0;
    bool session_gone = false;             // the application released / the harness tore the session down
    double T_ms = 0;                        // learnt from the first gap
    double Tlo = 0, Thi = 0;                // interval of integer tick values T still consistent with every gap seen
    bool reported = false;
  };
  std::map<Key, Tx> m;
  std::set<int> watched;                    // nodes whose CONs are judged
  std::set<Bytes> exempt_tokens;            // messages carrying these tokens are not judged (narrow, stated by the world)

  R3Monitor(World &w_, RunResult &r) : w(w_), res(r) {}

  Params par(int node, simk::Addr peer) const {
    auto it = params.find({node, peer});
    if (it != params.end()) return it->second;
    auto d = node_default.find(node);
    return d != node_default.end() ? d->second : Params();
  }
  void watch(int node, Params p) { watched.insert(node); node_default[node] = p; }
  void set_params_from_session(int node, coap_session_t *s) {
    Params p;
    coap_fixed_point_t at = coap_session_get_ack_timeout(s), rf = coap_session_get_ack_random_factor(s);
    p.at_ms = at.integer_part * 1000.0 + at.fractional_part;
    p.rf = rf.integer_part + rf.fractional_part / 1000.0;
    p.max_rtx = coap_session_get_max_retransmit(s);
    params[{node, cx::remote_of(s)}] = p;
  }

  void violate(Tx &tx, const Key &k, const std::string &rule, const std::string &detail) {
    (void)tx;
    res.violate("R3." + rule, rule, strfmt("node %d mid=%04x to %s: %s", k.node, k.mid, k.dst.str().c_str(), detail.c_str()));
  }

  // T is an integer number of millisecond ticks; every gap n must equal T*2^(n-1) within tick rounding.
  std::string check_gap(Tx &tx, double gap, size_t n) {
    double f = (double)(1u << (n - 1));
    double lo = std::max(tx.Tlo, (gap - tol_ms) / f), hi = std::min(tx.Thi, (gap + tol_ms) / f);
    if (std::ceil(lo - 1e-9) > std::floor(hi + 1e-9)) return gap < tx.T_ms * f ? "gap_before_deadline" : "gap_after_deadline";
    tx.Tlo = lo;
    tx.Thi = hi;
    return "";
  }

  void attach() {
    w.taps.push_back([this](const WireEv &e) { on_wire(e); });
  }

  std::map<Key, std::pair<uint64_t, int>> early;   // ACK/RST delivered for a mid nothing has been transmitted under yet: (instant, type)
  void on_wire(const WireEv &e) {
    const Bytes &b = e.d->data;
    if (b.size() < 4 || (b[0] >> 6) != 1) return;
    int type = (b[0] >> 4) & 3, mid = b[2] << 8 | b[3];
    if (e.kind == WireEv::SEND && type == 0 && watched.count(e.from)) {
      Key k{e.from, e.d->src, e.d->dst, mid};
      Tx &tx = m[k];
      Params p = par(e.from, e.d->dst);
      // a message id may be used again once EXCHANGE_LIFETIME (247 s with default parameters) has passed: a new session to the
      // same peer draws a new random start value. A concluded exchange that old is forgotten.
      if (!tx.t.empty() && (tx.t_ack || tx.t_rst || tx.t_resp || tx.nacks) && e.t_ns - tx.t.back() > 247ull * 1000000000ull) { tx = Tx(); w.count("probe.mid_reused_after_exchange_lifetime"); }
      if (tx.t.empty()) {
        tx.bytes = b;
        r1::Msg mm;
        if (r1::decode_udp(b, mm) != r1::REJECT) tx.token = mm.token;
        tx.is_request = b[1] >= 1 && b[1] < 32;
        // An ACK/RST with this mid that reached the socket earlier in this very instant (sent by the peer before it could have
        // seen the message, e.g. a spoofed or mis-numbered one) is read by libcoap right after this first transmission of the
        // same I/O pass and legitimately concludes it.
        auto ei = early.find(k);
        // ... or was read just before it and ignored: either way is right, so the message may stop without a further outcome
        // (ack_maybe) but is not held to it.
        if (ei != early.end() && ei->second.first == e.t_ns) { tx.ack_maybe = true; w.count("probe.ack_before_first_transmission_same_instant"); }
      } else {
        if (tx.t_resp && e.t_ns > tx.t_resp) violate(tx, k, "tx_after_response", strfmt("request transmitted %.3f ms after its response was delivered", (e.t_ns - tx.t_resp) / 1e6));
        if (tx.bytes != b) violate(tx, k, "not_byte_identical", "retransmission differs from first transmission");
        if (tx.t_ack && e.t_ns > tx.t_ack) violate(tx, k, "tx_after_ack", strfmt("transmitted %.3f ms after its ACK was delivered", (e.t_ns - tx.t_ack) / 1e6));
        if (tx.t_rst && e.t_ns > tx.t_rst) violate(tx, k, "tx_after_rst", strfmt("transmitted %.3f ms after its RST was delivered", (e.t_ns - tx.t_rst) / 1e6));
        if (tx.nacks) violate(tx, k, "tx_after_nack", "transmitted after its NACK was reported");
        size_t n = tx.t.size();   // this is retransmission number n
        if (judge_count && (int)n > p.max_rtx) violate(tx, k, "too_many_retransmissions", strfmt("retransmission #%zu with MAX_RETRANSMIT=%d", n, p.max_rtx));
        double gap = (e.t_ns - tx.t.back()) / 1e6;
        if (judge_timing) {
          if (n == 1) {
            tx.T_ms = gap;
            tx.Tlo = gap - tol_ms;
            tx.Thi = gap + tol_ms;
            // libcoap holds ACK_TIMEOUT and ACK_RANDOM_FACTOR as Q6 fixed point: each may be off by 1/128
            double lo = p.at_ms - 8, hi = (p.at_ms + 8) * (p.rf + 1.0 / 128) + 8;
            if (gap < lo - tol_ms) violate(tx, k, "first_gap_below_ack_timeout", strfmt("first retransmission after %.3f ms, ACK_TIMEOUT=%.0f ms", gap, p.at_ms));
            if (gap > hi + tol_ms) violate(tx, k, "first_gap_above_range", strfmt("first retransmission after %.3f ms, ACK_TIMEOUT*ACK_RANDOM_FACTOR=%.0f ms", gap, p.at_ms * p.rf));
          } else {
            std::string why = check_gap(tx, gap, n);
            if (!why.empty()) violate(tx, k, why, strfmt("retransmission #%zu after %.3f ms, expected T*2^%zu with T=%.3f ms (first gap), i.e. %.3f ms", n, gap, n - 1, tx.T_ms, tx.T_ms * (double)(1u << (n - 1))));
          }
        }
      }
      tx.t.push_back(e.t_ns);
      w.count(tx.t.size() > 1 ? "probe.retransmission" : "probe.con_first_tx");
    }
    if (e.kind == WireEv::DELIVER && (type == 0 || type == 1) && b[1] >= 64 && e.to >= 0 && watched.count(e.to)) {
      // separate response (CON/NON carrying a response code): concludes the pending request with the same token
      r1::Msg mm;
      if (r1::decode_udp(b, mm) == r1::ACCEPT) {
        for (auto &kv : m) {
          if (kv.first.node != e.to || kv.first.src != e.d->dst || kv.first.dst != e.d->src) continue;
          Tx &tx = kv.second;
          if (!tx.is_request || tx.token != mm.token || tx.nacks || tx.t_ack || tx.t_rst || tx.t_resp || tx.t.empty()) continue;
          tx.t_resp = e.t_ns;
          w.count("probe.separate_response_concludes_request");
        }
      }
    }
    if (e.kind == WireEv::DELIVER && (type == 2 || type == 3) && e.to >= 0 && watched.count(e.to)) {
      // ACK/RST from d->src to d->dst: closes (node=to, src=d->dst, dst=d->src, mid)
      Key k{e.to, e.d->dst, e.d->src, mid};
      auto it = m.find(k);
      if (it == m.end()) { early[k] = {e.t_ns, type}; return; }     // (see the first-transmission branch)
      Tx &tx = it->second;
      if (tx.nacks || tx.t_ack || tx.t_rst || tx.t_resp) return;   // already concluded
      if (type == 2) { tx.t_ack = e.t_ns; w.count("probe.ack_delivered"); }
      else { tx.t_rst = e.t_ns; w.count("probe.rst_delivered"); }
    }
  }

  // called from the node's NACK handler
  void on_nack(int node, coap_session_t *s, coap_mid_t mid, coap_nack_reason_t reason) {
    Key k{node, cx::local_of(s), cx::remote_of(s), (int)mid & 0xffff};
    auto it = m.find(k);
    if (it == m.end()) return;    // NACK for something never put on the wire (held message): other monitors judge
    Tx &tx = it->second;
    tx.nacks++;
    if (tx.nacks > 1) violate(tx, k, "second_nack", strfmt("NACK reported %d times (reasons %d then %d)", tx.nacks, tx.nack_reason, (int)reason));
    // An ACK/RST that reached the socket in the very instant the deadline expired has not been read yet when the
    // library runs its timers (timers first, then sockets): the give-up legitimately wins that tie.
    if (reason == COAP_NACK_TOO_MANY_RETRIES && tx.t_ack == w.now()) { tx.t_ack = 0; w.count("probe.ack_deadline_tie"); }
    if (reason == COAP_NACK_TOO_MANY_RETRIES && tx.t_rst == w.now()) { tx.t_rst = 0; w.count("probe.ack_deadline_tie"); }
    if (reason == COAP_NACK_TOO_MANY_RETRIES && tx.t_resp == w.now()) { tx.t_resp = 0; w.count("probe.ack_deadline_tie"); }
    if (tx.t_resp) violate(tx, k, "nack_after_response", strfmt("NACK reason %d although the response had been delivered %.3f ms earlier", (int)reason, (w.now() - tx.t_resp) / 1e6));
    if (tx.t_ack) violate(tx, k, "nack_after_ack", strfmt("NACK reason %d although its ACK had been delivered %.3f ms earlier", (int)reason, (w.now() - tx.t_ack) / 1e6));
    if (reason == COAP_NACK_RST && !tx.t_rst) violate(tx, k, "nack_rst_without_rst", "NACK(RST) without a delivered RST");
    if (reason == COAP_NACK_TOO_MANY_RETRIES && tx.t_rst) violate(tx, k, "giveup_after_rst", "TOO_MANY_RETRIES although its RST had been delivered earlier");
    if (reason == COAP_NACK_TOO_MANY_RETRIES) {
      Params p = par(node, k.dst);
      w.count("probe.giveup_nack");
      if (judge_count && (int)tx.t.size() != p.max_rtx + 1)
        violate(tx, k, "giveup_count", strfmt("gave up after %zu transmissions, expected 1+MAX_RETRANSMIT=%d", tx.t.size(), p.max_rtx + 1));
      if (judge_timing && tx.t.size() >= 2) {
        double gap = (w.now() - tx.t.back()) / 1e6;
        std::string why = check_gap(tx, gap, tx.t.size());
        if (!why.empty()) violate(tx, k, "giveup_time", strfmt("gave up %.3f ms after the last transmission, expected T*2^%zu = %.3f ms", gap, tx.t.size() - 1, tx.T_ms * (double)(1u << (tx.t.size() - 1))));
      }
    }
    tx.nack_reason = (int)reason;
    tx.t_nack = w.now();
  }

  // The send call for the first transmission of this message failed and coap_send() reported the failure to the caller: the
  // message was never accepted for sending, the attempt seen at the socket is not an exchange.
  void first_send_refused(int node, coap_session_t *s, int mid) {
    Key k{node, cx::local_of(s), cx::remote_of(s), mid & 0xffff};
    auto it = m.find(k);
    if (it != m.end() && it->second.t.size() == 1) m.erase(it);
  }

  bool acked(int node, coap_session_t *s, coap_mid_t mid) {
    auto it = m.find(Key{node, cx::local_of(s), cx::remote_of(s), (int)mid & 0xffff});
    return it != m.end() && (it->second.t_ack || it->second.t_resp);
  }

  void session_gone(int node, simk::Addr local, simk::Addr remote) {
    for (auto &kv : m)
      if (kv.first.node == node && kv.first.src == local && kv.first.dst == remote) kv.second.session_gone = true;
  }

  // earliest deadline (ns) at which some in-flight CON of `node` must be retransmitted or given up; 0 = none
  uint64_t earliest_deadline_upper(int node) {
    uint64_t best = 0;
    for (auto &kv : m) {
      if (kv.first.node != node) continue;
      Tx &tx = kv.second;
      if (tx.t_ack || tx.t_rst || tx.t_resp || tx.nacks || tx.session_gone || tx.t.empty() || tx.ack_maybe) continue;
      if (exempt_tokens.count(tx.token)) continue;
      Params p = par(node, kv.first.dst);
      double gap_ms = tx.t.size() == 1 ? (p.at_ms + 8) * (p.rf + 1.0 / 128) + 8 : tx.Thi * (double)(1u << (tx.t.size() - 1));
      uint64_t d = tx.t.back() + (uint64_t)((gap_ms + tol_ms * (double)tx.t.size()) * 1e6);
      if (!best || d < best) best = d;
    }
    return best;
  }

  // wait-time rule, evaluated after every step of a watched node
  void check_wait(int node) {
    uint64_t dl = earliest_deadline_upper(node);
    if (!dl) return;
    uint64_t armed = simk::node_next_timer_ns(node);
    if (!armed) { res.violate("R3.wait_unbounded", "wait_unbounded", strfmt("node %d: no wake-up armed although a Confirmable is awaiting retransmission", node)); return; }
    if (armed > dl) res.violate("R3.wait_beyond_deadline", "wait_beyond_deadline", strfmt("node %d: wake-up armed %.3f ms after the earliest pending deadline", node, (armed - dl) / 1e6));
  }

  // at quiescence
  void finish() {
    for (auto &kv : m) {
      Tx &tx = kv.second;
      const Key &k = kv.first;
      if (tx.session_gone || exempt_tokens.count(tx.token)) continue;
      if (tx.t_resp) {
        if (tx.nacks) violate(tx, k, "nack_after_response", "both a response and a NACK");
      } else if (tx.t_ack) {
        if (tx.nacks) violate(tx, k, "nack_after_ack", "both an ACK and a NACK");
      } else if (tx.t_rst) {
        if (tx.nacks != 1) violate(tx, k, "rst_outcome", strfmt("RST delivered but %d NACK calls", tx.nacks));
      } else {
        if (tx.nacks != 1 && !(tx.ack_maybe && tx.nacks == 0)) violate(tx, k, "no_outcome", strfmt("neither ACK nor RST arrived and %d NACK calls at quiescence (%zu transmissions)", tx.nacks, tx.t.size()));
      }
    }
  }
};
