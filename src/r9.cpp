// R9 — reference OSCORE (RFC 8613). See r9.h. Section numbers below refer to RFC 8613 unless stated otherwise.
#include "r9.h"
#include <algorithm>
#include <cstring>
#include <nettle/aes.h>
#include <nettle/ccm.h>
#include <nettle/hkdf.h>
#include <nettle/hmac.h>

namespace r9 {
namespace {

constexpr int ALG_AEAD = 10;                 // COSE AES-CCM-16-64-128
constexpr size_t KEY_LEN = 16, NONCE_LEN = 13, TAG_LEN = 8;
constexpr size_t PIV_MAX = 5;                // §5.2 step 1
constexpr size_t ID_MAX = NONCE_LEN - 6;     // §3.3 / §5.2 step 2
constexpr uint64_t SEQ_MAX = (1ull << 40) - 1;
constexpr size_t CCM_MSG_MAX = 65535;        // nonce 13 -> L = 2 length bytes

// nettle takes (length, pointer); never hand it a null pointer even for length 0
const uint8_t *ptr(const Bytes &b) {
  static const uint8_t z = 0;
  return b.empty() ? &z : b.data();
}
void append(Bytes &o, const Bytes &b) { o.insert(o.end(), b.begin(), b.end()); }
bool fail(std::string *why, const std::string &w) {
  if (why) *why = w;
  return false;
}

// ---- CBOR (RFC 8949), just what info and aad_array need -------------------------------------------------------------
void cbor_head(Bytes &o, unsigned major, uint64_t v) {
  uint8_t m = (uint8_t)(major << 5);
  if (v < 24) o.push_back((uint8_t)(m | v));
  else if (v < 0x100) { o.push_back(m | 24); o.push_back((uint8_t)v); }
  else if (v < 0x10000) { o.push_back(m | 25); o.push_back((uint8_t)(v >> 8)); o.push_back((uint8_t)v); }
  else if (v < 0x100000000ull) { o.push_back(m | 26); for (int i = 3; i >= 0; i--) o.push_back((uint8_t)(v >> (8 * i))); }
  else { o.push_back(m | 27); for (int i = 7; i >= 0; i--) o.push_back((uint8_t)(v >> (8 * i))); }
}
void cbor_uint(Bytes &o, uint64_t v) { cbor_head(o, 0, v); }
void cbor_int(Bytes &o, int64_t v) {
  if (v >= 0) cbor_head(o, 0, (uint64_t)v);
  else cbor_head(o, 1, (uint64_t)(-(v + 1)));
}
void cbor_bstr(Bytes &o, const Bytes &b) { cbor_head(o, 2, b.size()); append(o, b); }
void cbor_tstr(Bytes &o, const char *s) { size_t n = strlen(s); cbor_head(o, 3, n); o.insert(o.end(), s, s + n); }
void cbor_array(Bytes &o, size_t n) { cbor_head(o, 4, n); }
void cbor_nil(Bytes &o) { o.push_back(0xf6); }

// ---- HKDF-SHA-256 (RFC 5869) through nettle -------------------------------------------------------------------------
void hm_update(void *ctx, size_t n, const uint8_t *p) { hmac_sha256_update((struct hmac_sha256_ctx *)ctx, n, p); }
void hm_digest(void *ctx, size_t n, uint8_t *p) { hmac_sha256_digest((struct hmac_sha256_ctx *)ctx, n, p); }

Bytes hkdf_sha256(const Bytes &salt, const Bytes &ikm, const Bytes &info, size_t L) {
  struct hmac_sha256_ctx h;
  uint8_t prk[SHA256_DIGEST_SIZE];
  // an empty salt keys HMAC with the empty string, which equals HashLen zero bytes (RFC 5869 §2.2)
  hmac_sha256_set_key(&h, salt.size(), ptr(salt));
  hkdf_extract(&h, hm_update, hm_digest, SHA256_DIGEST_SIZE, ikm.size(), ptr(ikm), prk);
  hmac_sha256_set_key(&h, SHA256_DIGEST_SIZE, prk);
  Bytes out(L);
  hkdf_expand(&h, hm_update, hm_digest, SHA256_DIGEST_SIZE, info.size(), ptr(info), L, out.data());
  return out;
}

bool ctx_has_idc(const Ctx &c) { return c.has_id_context || !c.id_context.empty(); }

// §3.2.1: info = [ id : bstr, id_context : bstr / nil, alg_aead : int / tstr, type : tstr, L : uint ]
Bytes hkdf_info(const Bytes &id, bool has_idc, const Bytes &idc, const char *type, size_t L) {
  Bytes o;
  cbor_array(o, 5);
  cbor_bstr(o, id);
  if (has_idc) cbor_bstr(o, idc); else cbor_nil(o);
  cbor_int(o, ALG_AEAD);
  cbor_tstr(o, type);
  cbor_uint(o, L);
  return o;
}

// ---- AES-CCM-16-64-128 ----------------------------------------------------------------------------------------------
bool aead_seal(const Bytes &key, const Bytes &n, const Bytes &a, const Bytes &pt, Bytes &ct) {
  if (key.size() != KEY_LEN || n.size() != NONCE_LEN || pt.size() > CCM_MSG_MAX) return false;
  struct ccm_aes128_ctx cc;
  ccm_aes128_set_key(&cc, key.data());
  ct.assign(pt.size() + TAG_LEN, 0);
  ccm_aes128_encrypt_message(&cc, n.size(), n.data(), a.size(), ptr(a), TAG_LEN, ct.size(), ct.data(), ptr(pt));
  return true;
}
bool aead_open(const Bytes &key, const Bytes &n, const Bytes &a, const Bytes &ct, Bytes &pt) {
  if (key.size() != KEY_LEN || n.size() != NONCE_LEN || ct.size() < TAG_LEN || ct.size() - TAG_LEN > CCM_MSG_MAX) return false;
  struct ccm_aes128_ctx cc;
  ccm_aes128_set_key(&cc, key.data());
  size_t mlen = ct.size() - TAG_LEN;
  Bytes out(mlen + 1);   // +1: keep data() non-null for mlen 0
  int ok = ccm_aes128_decrypt_message(&cc, n.size(), n.data(), a.size(), ptr(a), TAG_LEN, mlen, out.data(), ct.data());
  if (!ok) return false;
  out.resize(mlen);
  pt.swap(out);
  return true;
}

bool ctx_ready(const Ctx &c) {
  return c.sender_key.size() == KEY_LEN && c.recipient_key.size() == KEY_LEN && c.common_iv.size() == NONCE_LEN &&
         c.sender_id.size() <= ID_MAX && c.recipient_id.size() <= ID_MAX;
}

// §8.2/§8.4 step 1: outer options that are discarded on reception (class E in Figure 5 + RFC 9175/9177 class E options)
bool outer_discarded(uint32_t n) {
  switch (n) {
  case r1::O_IF_MATCH: case r1::O_ETAG: case r1::O_IF_NONE_MATCH: case r1::O_OBSERVE: case r1::O_LOCATION_PATH:
  case r1::O_URI_PATH: case r1::O_CONTENT_FORMAT: case r1::O_MAX_AGE: case r1::O_URI_QUERY: case r1::O_ACCEPT:
  case r1::O_LOCATION_QUERY: case r1::O_BLOCK2: case r1::O_BLOCK1: case r1::O_SIZE2: case r1::O_SIZE1: case r1::O_NO_RESPONSE:
  case r1::O_Q_BLOCK1: case r1::O_Q_BLOCK2: case r1::O_ECHO: case r1::O_RTAG:
    return true;
  }
  return false;
}

void sort_opts(std::vector<r1::Opt> &o) {
  std::stable_sort(o.begin(), o.end(), [](const r1::Opt &a, const r1::Opt &b) { return a.num < b.num; });
}

// §4.1.3.5.2: "the OSCORE client implementation MAY set the Observe value to the three least significant bytes of the Partial IV"
Bytes observe_from_piv(const Bytes &piv) {
  size_t n = std::min<size_t>(3, piv.size());
  Bytes v(piv.end() - (ptrdiff_t)n, piv.end());
  while (!v.empty() && v[0] == 0) v.erase(v.begin());
  return v;
}

struct Inter {   // intermediate values, for the Appendix C comparisons
  Bytes aad, nonce, plaintext, option;
};

bool protect_impl(const Ctx &c, const r1::Msg &plain, bool is_request, uint64_t seq, bool include_kid_context, bool use_own_piv,
                  const Bytes &request_kid, const Bytes &request_piv, r1::Msg &outer, std::string *why, Inter *im) {
  if (!ctx_ready(c)) return fail(why, "security context not derived");
  if (plain.code == 0) return fail(why, "Empty message cannot be protected");
  if (plain.find(r1::O_OSCORE)) return fail(why, "message already has an OSCORE option");
  if (plain.find(r1::O_PROXY_URI)) return fail(why, "Proxy-Uri not supported (4.1.3.3)");

  // §4.1: split the options
  r1::Msg inner;
  inner.code = plain.code;
  inner.payload = plain.payload;
  std::vector<r1::Opt> oo;
  bool observe = false;
  for (auto &o : plain.opts) {
    bool in, out;
    option_class(o.num, in, out);
    if (o.num == r1::O_OBSERVE) {
      observe = true;
      oo.push_back(o);                                                  // §4.1.3.5: outer as given
      inner.opts.push_back(is_request ? o : r1::Opt{o.num, Bytes()});   // .1: same value; .2: notifications: inner MUST be empty
      continue;
    }
    if (in) inner.opts.push_back(o);
    if (out) oo.push_back(o);
  }

  // §5.3: plaintext = code || class E options || 0xFF payload
  Bytes pt;
  pt.push_back((uint8_t)plain.code);
  r1::encode_body(inner, pt);
  if (pt.size() > CCM_MSG_MAX) return fail(why, "inner message too large for AES-CCM with a 13-byte nonce");

  Bytes piv, a, n, ov;
  if (is_request) {
    if (seq > SEQ_MAX) return fail(why, "sender sequence number above 2^40-1");
    if (include_kid_context && !ctx_has_idc(c)) return fail(why, "kid context requested but the context has no ID Context");
    piv = piv_bytes(seq);
    a = aad(c.sender_id, piv);                     // §5.4: request_kid/request_piv are this request's own
    n = nonce(c.sender_id, piv, c.common_iv);
    ov = option_value(piv, include_kid_context, c.id_context, true, c.sender_id);
  } else {
    if (request_kid.size() > ID_MAX) return fail(why, "request_kid longer than 7 bytes");
    if (request_piv.empty() || request_piv.size() > PIV_MAX) return fail(why, "request_piv must be 1..5 bytes");
    a = aad(request_kid, request_piv);
    if (use_own_piv) {                             // §8.3 step 3 alternative / §5.2
      if (seq > SEQ_MAX) return fail(why, "sender sequence number above 2^40-1");
      piv = piv_bytes(seq);
      n = nonce(c.sender_id, piv, c.common_iv);
    } else {
      n = nonce(request_kid, request_piv, c.common_iv);   // the request's nonce
    }
    ov = option_value(piv, false, Bytes(), false, Bytes());
  }
  if (n.size() != NONCE_LEN) return fail(why, "cannot build nonce");

  Bytes ct;
  if (!aead_seal(c.sender_key, n, a, pt, ct)) return fail(why, "AEAD failure");

  outer = r1::Msg();
  outer.ver = plain.ver;
  outer.type = plain.type;
  outer.mid = plain.mid;
  outer.token = plain.token;
  // §4.2 / §4.1.3.5
  outer.code = is_request ? (observe ? 0x05 /*FETCH*/ : 0x02 /*POST*/) : (observe ? 0x45 /*2.05*/ : 0x44 /*2.04*/);
  oo.push_back(r1::Opt{r1::O_OSCORE, ov});
  sort_opts(oo);
  outer.opts = std::move(oo);
  outer.payload = std::move(ct);
  if (im) { im->aad = a; im->nonce = n; im->plaintext = pt; im->option = ov; }
  return true;
}

}  // namespace

// ---- public ---------------------------------------------------------------------------------------------------------

void derive(Ctx &c) {
  if (!c.id_context.empty()) c.has_id_context = true;
  c.sender_key.clear();
  c.recipient_key.clear();
  c.common_iv.clear();
  if (c.sender_id.size() > ID_MAX || c.recipient_id.size() > ID_MAX) return;
  bool h = ctx_has_idc(c);
  c.sender_key = hkdf_sha256(c.master_salt, c.master_secret, hkdf_info(c.sender_id, h, c.id_context, "Key", KEY_LEN), KEY_LEN);
  c.recipient_key = hkdf_sha256(c.master_salt, c.master_secret, hkdf_info(c.recipient_id, h, c.id_context, "Key", KEY_LEN), KEY_LEN);
  c.common_iv = hkdf_sha256(c.master_salt, c.master_secret, hkdf_info(Bytes(), h, c.id_context, "IV", NONCE_LEN), NONCE_LEN);
}

Bytes nonce(const Bytes &id_piv, const Bytes &partial_iv, const Bytes &common_iv) {
  if (id_piv.size() > ID_MAX || partial_iv.size() > PIV_MAX || common_iv.size() != NONCE_LEN) return Bytes();
  Bytes n(NONCE_LEN, 0);
  n[0] = (uint8_t)id_piv.size();                                                                  // step 3: S
  std::copy(id_piv.begin(), id_piv.end(), n.begin() + 1 + (ptrdiff_t)(ID_MAX - id_piv.size()));   // step 2
  std::copy(partial_iv.begin(), partial_iv.end(), n.end() - (ptrdiff_t)partial_iv.size());        // step 1
  for (size_t i = 0; i < NONCE_LEN; i++) n[i] ^= common_iv[i];                                    // step 4
  return n;
}

Bytes aad(const Bytes &request_kid, const Bytes &request_piv) {
  // §5.4: aad_array = [ oscore_version : uint, algorithms : [ alg_aead ], request_kid : bstr, request_piv : bstr, options : bstr ]
  Bytes arr;
  cbor_array(arr, 5);
  cbor_uint(arr, 1);
  cbor_array(arr, 1);
  cbor_int(arr, ALG_AEAD);
  cbor_bstr(arr, request_kid);
  cbor_bstr(arr, request_piv);
  cbor_bstr(arr, Bytes());
  // §5.3 / RFC 8152 §5.3: Enc_structure = [ "Encrypt0", protected = h'', external_aad = bstr .cbor aad_array ]
  Bytes o;
  cbor_array(o, 3);
  cbor_tstr(o, "Encrypt0");
  cbor_bstr(o, Bytes());
  cbor_bstr(o, arr);
  return o;
}

Bytes option_value(const Bytes &partial_iv, bool has_kid_context, const Bytes &kid_context, bool has_kid, const Bytes &kid) {
  // §6.1:  0 1 2 3 4 5 6 7 <- n bytes ->  <- 1 byte -> <- s bytes ->  <- rest ->
  //       |0 0 0|h|k|  n  | Partial IV   | s          | kid context  | kid
  Bytes v;
  if (partial_iv.size() > PIV_MAX || (has_kid_context && kid_context.size() > 255)) return v;
  uint8_t flags = (uint8_t)(partial_iv.size() | (has_kid_context ? 0x10 : 0) | (has_kid ? 0x08 : 0));
  if (flags == 0) return v;   // "If the OSCORE flag bits are all zero (0x00), the option value SHALL be empty"
  v.push_back(flags);
  append(v, partial_iv);
  if (has_kid_context) { v.push_back((uint8_t)kid_context.size()); append(v, kid_context); }
  if (has_kid) append(v, kid);
  return v;
}

bool parse_option_value(const Bytes &v, Bytes &partial_iv, bool &has_kid_context, Bytes &kid_context, bool &has_kid, Bytes &kid) {
  partial_iv.clear();
  kid_context.clear();
  kid.clear();
  has_kid_context = has_kid = false;
  if (v.empty()) return true;
  uint8_t f = v[0];
  if (f & 0xE0) return false;        // bits 0..2 reserved (bit 0 would announce a second flag byte): "MUST be set to zero ... malformed"
  size_t n = f & 7;
  if (n > PIV_MAX) return false;     // 6 and 7 reserved
  if (f == 0) return false;          // flags all zero but value not empty
  size_t pos = 1;
  if (v.size() - pos < n) return false;
  partial_iv.assign(v.begin() + (ptrdiff_t)pos, v.begin() + (ptrdiff_t)(pos + n));
  pos += n;
  if (f & 0x10) {
    if (v.size() - pos < 1) return false;
    size_t s = v[pos++];
    if (v.size() - pos < s) return false;
    has_kid_context = true;
    kid_context.assign(v.begin() + (ptrdiff_t)pos, v.begin() + (ptrdiff_t)(pos + s));
    pos += s;
  }
  if (f & 0x08) {
    has_kid = true;
    kid.assign(v.begin() + (ptrdiff_t)pos, v.end());
  } else if (pos != v.size()) {
    return false;                    // bytes that belong to no field
  }
  return true;
}

Bytes piv_bytes(uint64_t seq) {
  Bytes b;
  if (seq > SEQ_MAX) return b;
  while (seq) { b.insert(b.begin(), (uint8_t)(seq & 255)); seq >>= 8; }
  if (b.empty()) b.push_back(0);
  return b;
}

void option_class(uint32_t n, bool &inner, bool &outer) {
  switch (n) {
  case r1::O_URI_HOST: case r1::O_URI_PORT: case r1::O_OSCORE: case r1::O_PROXY_URI: case r1::O_PROXY_SCHEME:
  case r1::O_HOP_LIMIT:   // RFC 8768 §3: class U
    inner = false; outer = true; return;
  case r1::O_OBSERVE:
    inner = true; outer = true; return;
  // No-Response (RFC 8613 4.1.3.6): "If used, No-Response MUST be Inner ... The Outer option SHOULD NOT be present" -> inner only
  }
  // Figure 5 class E, the E+U options used as inner only here (Max-Age, Block1/2, Size1/2), and "a new CoAP option SHOULD be of class E"
  inner = true; outer = false;
}

bool protect(const Ctx &c, const r1::Msg &plain, bool is_request, uint64_t seq, bool include_kid_context,
             bool use_own_piv, const Bytes &request_kid, const Bytes &request_piv, r1::Msg &outer, std::string *why) {
  return protect_impl(c, plain, is_request, seq, include_kid_context, use_own_piv, request_kid, request_piv, outer, why, nullptr);
}

bool unprotect(const Ctx &c, const r1::Msg &outer, bool is_request, const Bytes &request_kid, const Bytes &request_piv,
               r1::Msg &plain, Bytes *kid_out, Bytes *piv_out, Bytes *kc_out, std::string *why) {
  if (kid_out) kid_out->clear();
  if (piv_out) piv_out->clear();
  if (kc_out) kc_out->clear();
  if (!ctx_ready(c)) return fail(why, "security context not derived");
  int cnt = outer.count(r1::O_OSCORE);
  if (cnt == 0) return fail(why, "no OSCORE option");
  if (cnt > 1) return fail(why, "more than one OSCORE option");
  if (outer.payload.empty()) return fail(why, "OSCORE option without payload (section 2: malformed)");

  // §8.2 step 2 / §8.4 step 2: decompress the COSE object
  Bytes piv, kc, kid;
  bool has_kc, has_kid;
  if (!parse_option_value(outer.find(r1::O_OSCORE)->val, piv, has_kc, kc, has_kid, kid)) return fail(why, "OSCORE option cannot be decoded");
  if (kid_out) *kid_out = kid;
  if (piv_out) *piv_out = piv;
  if (kc_out) *kc_out = kc;

  // outer block-wise (§4.1.3.4.2) would have to be reassembled before this point
  for (auto &o : outer.opts)
    if (o.num == r1::O_BLOCK1 || o.num == r1::O_BLOCK2) {
      uint32_t b = r1::decode_uint(o.val);
      if (o.val.size() > 3 || (b >> 4) != 0 || (b & 8)) return fail(why, "outer block-wise fragment, reassembly not supported");
    }

  Bytes a, n;
  if (is_request) {
    if (!has_kid) return fail(why, "request without kid");
    if (piv.empty()) return fail(why, "request without Partial IV");
    if (kid != c.recipient_id) return fail(why, "security context not found (kid)");
    if (has_kc && !(ctx_has_idc(c) && kc == c.id_context)) return fail(why, "security context not found (kid context)");
    a = aad(kid, piv);                              // step 4
    n = nonce(c.recipient_id, piv, c.common_iv);    // step 5
  } else {
    if (has_kid && kid != c.recipient_id) return fail(why, "kid in response is not the Recipient ID");
    if (request_kid.size() > ID_MAX || request_piv.empty() || request_piv.size() > PIV_MAX) return fail(why, "bad request_kid/request_piv");
    a = aad(request_kid, request_piv);              // step 3
    n = piv.empty() ? nonce(request_kid, request_piv, c.common_iv)      // step 4a
                    : nonce(c.recipient_id, piv, c.common_iv);          // step 4b
  }
  if (n.size() != NONCE_LEN) return fail(why, "cannot build nonce");

  Bytes pt;
  if (!aead_open(c.recipient_key, n, a, outer.payload, pt)) return fail(why, "decryption failed");
  if (pt.empty()) return fail(why, "empty plaintext (no code)");

  r1::Msg inner;
  inner.code = pt[0];
  if (inner.code == 0) return fail(why, "inner code 0.00");
  std::string w;
  if (r1::decode_rest(pt.data() + 1, pt.size() - 1, 0, inner, &w, false) == r1::REJECT) return fail(why, "inner message malformed: " + w);

  plain = r1::Msg();
  plain.ver = outer.ver;
  plain.type = outer.type;
  plain.mid = outer.mid;
  plain.token = outer.token;
  plain.code = inner.code;
  plain.payload = std::move(inner.payload);
  for (auto &o : outer.opts)
    if (o.num != r1::O_OSCORE && !outer_discarded(o.num)) plain.opts.push_back(o);
  for (auto &o : inner.opts) {
    if (o.num == r1::O_OBSERVE && !is_request) plain.opts.push_back(r1::Opt{o.num, observe_from_piv(piv)});   // see r9.h
    else plain.opts.push_back(o);
  }
  sort_opts(plain.opts);
  return true;
}

// ---- self test ------------------------------------------------------------------------------------------------------
namespace {

Ctx mk(const char *secret, const char *salt, const char *idc, const char *sid, const char *rid) {
  Ctx c;
  c.master_secret = unhex(secret);
  if (salt) c.master_salt = unhex(salt);
  if (idc) { c.id_context = unhex(idc); c.has_id_context = true; }
  c.sender_id = unhex(sid);
  c.recipient_id = unhex(rid);
  derive(c);
  return c;
}

#define R9_EQ(what, got, exp) do { if ((got) != (exp)) return strfmt("%s: %s: got %s expected %s", name, what, hex(got).c_str(), hex(exp).c_str()); } while (0)

const char *SECRET = "0102030405060708090a0b0c0d0e0f10";
const char *SALT = "9e7ca92223786340";
const char *IDC = "37cbf3210017a2d3";

std::string kd_vector(const char *name, const Ctx &c, const char *skey, const char *rkey, const char *civ, const char *snonce, const char *rnonce,
                      const char *sinfo, const char *rinfo, const char *ivinfo) {
  R9_EQ("sender key info", hkdf_info(c.sender_id, ctx_has_idc(c), c.id_context, "Key", 16), unhex(sinfo));
  R9_EQ("recipient key info", hkdf_info(c.recipient_id, ctx_has_idc(c), c.id_context, "Key", 16), unhex(rinfo));
  R9_EQ("common iv info", hkdf_info(Bytes(), ctx_has_idc(c), c.id_context, "IV", 13), unhex(ivinfo));
  R9_EQ("sender key", c.sender_key, unhex(skey));
  R9_EQ("recipient key", c.recipient_key, unhex(rkey));
  R9_EQ("common iv", c.common_iv, unhex(civ));
  // "From the previous parameters and a Partial IV equal to 0 (both for sender and recipient)"
  R9_EQ("sender nonce", nonce(c.sender_id, piv_bytes(0), c.common_iv), unhex(snonce));
  R9_EQ("recipient nonce", nonce(c.recipient_id, piv_bytes(0), c.common_iv), unhex(rnonce));
  return "";
}

std::string req_vector(const char *name, const Ctx &cli, const Ctx &srv, const char *unprot, uint64_t seq, bool kc,
                       const char *x_aad, const char *x_nonce, const char *x_pt, const char *x_opt, const char *x_ct, const char *x_prot) {
  r1::Msg plain, outer, back;
  std::string w;
  Bytes up = unhex(unprot);
  if (r1::decode_udp(up, plain, &w) != r1::ACCEPT) return strfmt("%s: cannot parse unprotected message: %s", name, w.c_str());
  Inter im;
  if (!protect_impl(cli, plain, true, seq, kc, false, Bytes(), Bytes(), outer, &w, &im)) return strfmt("%s: protect failed: %s", name, w.c_str());
  R9_EQ("AAD", im.aad, unhex(x_aad));
  R9_EQ("nonce", im.nonce, unhex(x_nonce));
  R9_EQ("plaintext", im.plaintext, unhex(x_pt));
  R9_EQ("OSCORE option value", im.option, unhex(x_opt));
  R9_EQ("ciphertext", outer.payload, unhex(x_ct));
  R9_EQ("protected message", r1::encode_udp(outer), unhex(x_prot));
  // and back, on the server, from the RFC's bytes
  r1::Msg wire;
  Bytes kid, piv, kctx;
  if (r1::decode_udp(unhex(x_prot), wire, &w) != r1::ACCEPT) return strfmt("%s: cannot parse protected message: %s", name, w.c_str());
  if (!unprotect(srv, wire, true, Bytes(), Bytes(), back, &kid, &piv, &kctx, &w)) return strfmt("%s: unprotect failed: %s", name, w.c_str());
  R9_EQ("unprotected message", r1::encode_udp(back), up);
  R9_EQ("kid", kid, cli.sender_id);
  R9_EQ("piv", piv, piv_bytes(seq));
  R9_EQ("kid context", kctx, kc ? cli.id_context : Bytes());
  return "";
}

std::string resp_vector(const char *name, const Ctx &srv, const Ctx &cli, const char *unprot, uint64_t seq, bool own_piv,
                        const Bytes &rkid, const Bytes &rpiv,
                        const char *x_aad, const char *x_nonce, const char *x_pt, const char *x_opt, const char *x_ct, const char *x_prot) {
  r1::Msg plain, outer, back;
  std::string w;
  Bytes up = unhex(unprot);
  if (r1::decode_udp(up, plain, &w) != r1::ACCEPT) return strfmt("%s: cannot parse unprotected message: %s", name, w.c_str());
  Inter im;
  if (!protect_impl(srv, plain, false, seq, false, own_piv, rkid, rpiv, outer, &w, &im)) return strfmt("%s: protect failed: %s", name, w.c_str());
  R9_EQ("AAD", im.aad, unhex(x_aad));
  R9_EQ("nonce", im.nonce, unhex(x_nonce));
  R9_EQ("plaintext", im.plaintext, unhex(x_pt));
  R9_EQ("OSCORE option value", im.option, unhex(x_opt));
  R9_EQ("ciphertext", outer.payload, unhex(x_ct));
  R9_EQ("protected message", r1::encode_udp(outer), unhex(x_prot));
  r1::Msg wire;
  Bytes kid, piv, kctx;
  if (r1::decode_udp(unhex(x_prot), wire, &w) != r1::ACCEPT) return strfmt("%s: cannot parse protected message: %s", name, w.c_str());
  if (!unprotect(cli, wire, false, rkid, rpiv, back, &kid, &piv, &kctx, &w)) return strfmt("%s: unprotect failed: %s", name, w.c_str());
  R9_EQ("unprotected message", r1::encode_udp(back), up);
  R9_EQ("kid", kid, Bytes());
  R9_EQ("piv", piv, own_piv ? piv_bytes(seq) : Bytes());
  return "";
}

std::string vectors() {
  std::string e;
  Ctx c11 = mk(SECRET, SALT, nullptr, "", "01"), c12 = mk(SECRET, SALT, nullptr, "01", "");
  Ctx c21 = mk(SECRET, nullptr, nullptr, "00", "01"), c22 = mk(SECRET, nullptr, nullptr, "01", "00");
  Ctx c31 = mk(SECRET, SALT, IDC, "", "01"), c32 = mk(SECRET, SALT, IDC, "01", "");

  e = kd_vector("C.1.1", c11, "f0910ed7295e6ad4b54fc793154302ff", "ffb14e093c94c9cac9471648b4f98710", "4622d4dd6d944168eefb54987c",
                "4622d4dd6d944168eefb54987c", "4722d4dd6d944169eefb54987c",
                "8540f60a634b657910", "854101f60a634b657910", "8540f60a6249560d");
  if (!e.empty()) return e;
  e = kd_vector("C.1.2", c12, "ffb14e093c94c9cac9471648b4f98710", "f0910ed7295e6ad4b54fc793154302ff", "4622d4dd6d944168eefb54987c",
                "4722d4dd6d944169eefb54987c", "4622d4dd6d944168eefb54987c",
                "854101f60a634b657910", "8540f60a634b657910", "8540f60a6249560d");
  if (!e.empty()) return e;
  e = kd_vector("C.2.1", c21, "321b26943253c7ffb6003b0b64d74041", "e57b5635815177cd679ab4bcec9d7dda", "be35ae297d2dace910c52e99f9",
                "bf35ae297d2dace910c52e99f9", "bf35ae297d2dace810c52e99f9",
                "854100f60a634b657910", "854101f60a634b657910", "8540f60a6249560d");
  if (!e.empty()) return e;
  e = kd_vector("C.2.2", c22, "e57b5635815177cd679ab4bcec9d7dda", "321b26943253c7ffb6003b0b64d74041", "be35ae297d2dace910c52e99f9",
                "bf35ae297d2dace810c52e99f9", "bf35ae297d2dace910c52e99f9",
                "854101f60a634b657910", "854100f60a634b657910", "8540f60a6249560d");
  if (!e.empty()) return e;
  e = kd_vector("C.3.1", c31, "af2a1300a5e95788b356336eeecd2b92", "e39a0c7c77b43f03b4b39ab9a268699f", "2ca58fb85ff1b81c0b7181b85e",
                "2ca58fb85ff1b81c0b7181b85e", "2da58fb85ff1b81d0b7181b85e",
                "85404837cbf3210017a2d30a634b657910", "8541014837cbf3210017a2d30a634b657910", "85404837cbf3210017a2d30a6249560d");
  if (!e.empty()) return e;
  e = kd_vector("C.3.2", c32, "e39a0c7c77b43f03b4b39ab9a268699f", "af2a1300a5e95788b356336eeecd2b92", "2ca58fb85ff1b81c0b7181b85e",
                "2da58fb85ff1b81d0b7181b85e", "2ca58fb85ff1b81c0b7181b85e",
                "8541014837cbf3210017a2d30a634b657910", "85404837cbf3210017a2d30a634b657910", "85404837cbf3210017a2d30a6249560d");
  if (!e.empty()) return e;

  e = req_vector("C.4", c11, c12, "44015d1f00003974396c6f63616c686f737483747631", 20, false,
                 "8368456e63727970743040488501810a40411440", "4622d4dd6d944168eefb549868", "01b3747631", "0914",
                 "612f1092f1776f1c1668b3825e",
                 "44025d1f00003974396c6f63616c686f7374620914ff612f1092f1776f1c1668b3825e");
  if (!e.empty()) return e;
  e = req_vector("C.5", c21, c22, "440171c30000b932396c6f63616c686f737483747631", 20, false,
                 "8368456e63727970743040498501810a4100411440", "bf35ae297d2dace910c52e99ed", "01b3747631", "091400",
                 "4ed339a5a379b0b8bc731fffb0",
                 "440271c30000b932396c6f63616c686f737463091400ff4ed339a5a379b0b8bc731fffb0");
  if (!e.empty()) return e;
  e = req_vector("C.6", c31, c32, "44012f8eef9bbf7a396c6f63616c686f737483747631", 20, true,
                 "8368456e63727970743040488501810a40411440", "2ca58fb85ff1b81c0b7181b84a", "01b3747631", "19140837cbf3210017a2d3",
                 "72cd7273fd331ac45cffbe55c3",
                 "44022f8eef9bbf7a396c6f63616c686f73746b19140837cbf3210017a2d3ff72cd7273fd331ac45cffbe55c3");
  if (!e.empty()) return e;
  e = resp_vector("C.7", c12, c11, "64455d1f00003974ff48656c6c6f20576f726c6421", 0, false, Bytes(), unhex("14"),
                  "8368456e63727970743040488501810a40411440", "4622d4dd6d944168eefb549868", "45ff48656c6c6f20576f726c6421", "",
                  "dbaad1e9a7e7b2a813d3c31524378303cdafae119106",
                  "64445d1f0000397490ffdbaad1e9a7e7b2a813d3c31524378303cdafae119106");
  if (!e.empty()) return e;
  e = resp_vector("C.8", c12, c11, "64455d1f00003974ff48656c6c6f20576f726c6421", 0, true, Bytes(), unhex("14"),
                  "8368456e63727970743040488501810a40411440", "4722d4dd6d944169eefb54987c", "45ff48656c6c6f20576f726c6421", "0100",
                  "4d4c13669384b67354b2b6175ff4b8658c666a6cf88e",
                  "64445d1f00003974920100ff4d4c13669384b67354b2b6175ff4b8658c666a6cf88e");
  return e;
}

// -- property tests ---------------------------------------------------------------------------------------------------

struct GenOpt { uint32_t num; size_t lo, hi; bool repeat; bool req, resp; };
const GenOpt GEN[] = {
  {r1::O_IF_MATCH, 0, 8, true, true, false},      {r1::O_URI_HOST, 1, 20, false, true, false},   {r1::O_ETAG, 1, 8, true, true, true},
  {r1::O_IF_NONE_MATCH, 0, 0, false, true, false}, {r1::O_OBSERVE, 0, 3, false, true, true},      {r1::O_URI_PORT, 0, 2, false, true, false},
  {r1::O_LOCATION_PATH, 0, 12, true, false, true}, {r1::O_URI_PATH, 0, 20, true, true, false},    {r1::O_CONTENT_FORMAT, 0, 2, false, true, true},
  {r1::O_MAX_AGE, 0, 4, false, false, true},      {r1::O_URI_QUERY, 0, 20, true, true, false},   {r1::O_HOP_LIMIT, 1, 1, false, true, true},
  {r1::O_ACCEPT, 0, 2, false, true, false},       {r1::O_Q_BLOCK1, 0, 3, false, true, true},     {r1::O_LOCATION_QUERY, 0, 12, true, false, true},
  {r1::O_BLOCK2, 0, 3, false, true, true},        {r1::O_BLOCK1, 0, 3, false, true, true},       {r1::O_SIZE2, 0, 4, false, true, true},
  {r1::O_Q_BLOCK2, 0, 3, false, true, true},      {r1::O_PROXY_SCHEME, 1, 8, false, true, false}, {r1::O_SIZE1, 0, 4, false, true, true},
  {r1::O_ECHO, 1, 40, false, true, true},         {r1::O_NO_RESPONSE, 0, 1, false, true, false}, {r1::O_RTAG, 0, 8, true, true, false},
  {2048, 0, 16, true, true, true},                {2049, 0, 16, false, true, true},              {65000, 0, 300, false, true, true},
  {65003, 0, 5, false, true, true},
};

r1::Msg gen_msg(Rng &r, bool request) {
  static const int REQ[] = {1, 2, 3, 4, 5, 6, 7};
  static const int RSP[] = {0x41, 0x42, 0x43, 0x44, 0x45, 0x5f, 0x80, 0x81, 0x84, 0x85, 0x88, 0x8d, 0xa0, 0xa5};
  r1::Msg m;
  m.type = (int)r.below(request ? 2 : 3);
  m.code = request ? REQ[r.below(7)] : RSP[r.below(14)];
  m.mid = (int)r.below(65536);
  m.token = r.bytes(r.below(9));
  size_t nopt = r.below(9);
  for (size_t i = 0; i < nopt; i++) {
    const GenOpt &g = GEN[r.below(sizeof GEN / sizeof GEN[0])];
    if (!(request ? g.req : g.resp)) continue;
    if (!g.repeat && m.find(g.num)) continue;
    m.opts.push_back(r1::Opt{g.num, r.bytes((size_t)r.range((int64_t)g.lo, (int64_t)g.hi))});   // deliberately not sorted
  }
  size_t plen = r.chance(0.05) ? (size_t)r.range(200, 1024) : r.chance(0.3) ? 0 : (size_t)r.range(1, 40);
  m.payload = r.bytes(plen);
  return m;
}

std::vector<r1::Opt> sorted(std::vector<r1::Opt> o) { sort_opts(o); return o; }

std::string show_opts(const std::vector<r1::Opt> &o) {
  std::string s;
  for (auto &x : o) s += strfmt("[%u:%s]", x.num, hex(x.val).c_str());
  return s;
}

// What the outer message must look like, derived independently of protect_impl's loop.
std::string check_outer(const r1::Msg &plain, const r1::Msg &outer, bool request, const Bytes &exp_option) {
  bool obs = plain.find(r1::O_OBSERVE) != nullptr;
  int code = request ? (obs ? 5 : 2) : (obs ? 0x45 : 0x44);
  if (outer.code != code) return strfmt("outer code %s", r1::code_str(outer.code).c_str());
  if (outer.type != plain.type || outer.mid != plain.mid || outer.token != plain.token || outer.ver != plain.ver) return "outer header differs";
  std::vector<r1::Opt> exp;
  for (auto &o : plain.opts)
    switch (o.num) {
    case r1::O_URI_HOST: case r1::O_URI_PORT: case r1::O_PROXY_SCHEME: case r1::O_HOP_LIMIT: case r1::O_OBSERVE:
      exp.push_back(o);
    }
  exp.push_back(r1::Opt{r1::O_OSCORE, exp_option});
  sort_opts(exp);
  if (outer.opts != exp) return "outer options " + show_opts(outer.opts) + " expected " + show_opts(exp);
  return "";
}

// Size of the plaintext (code || inner options || 0xFF payload), computed from the class table rather than by protect_impl.
size_t inner_size(const r1::Msg &plain, bool request) {
  r1::Msg t;
  for (auto &o : plain.opts) {
    bool in, out;
    option_class(o.num, in, out);
    if (!in) continue;
    t.opts.push_back(o);
    if (o.num == r1::O_OBSERVE && !request) t.opts.back().val.clear();
  }
  t.payload = plain.payload;
  Bytes x;
  r1::encode_body(t, x);
  return 1 + x.size();
}

// Single-bit tampering of payload and OSCORE option; returns "" if nothing different was accepted.
std::string tamper(Rng &r, const Ctx &rc, const r1::Msg &outer, bool request, const Bytes &rkid, const Bytes &rpiv,
                   const r1::Msg &good, const Bytes &good_piv, uint64_t &benign) {
  r1::Msg t = outer, p;
  Bytes kid, piv, kc;
  size_t nb = outer.payload.size() * 8;
  bool all = outer.payload.size() <= 96;
  size_t trials = all ? nb : 256;
  for (size_t k = 0; k < trials; k++) {
    size_t bit = all ? k : (k < 64 ? k : k < 128 ? nb - 1 - (k - 64) : (size_t)r.below(nb));
    t.payload[bit / 8] ^= (uint8_t)(1u << (bit % 8));
    if (unprotect(rc, t, request, rkid, rpiv, p)) return strfmt("ciphertext bit %zu flipped and still accepted", bit);
    t.payload[bit / 8] ^= (uint8_t)(1u << (bit % 8));
  }
  // truncation / extension
  t.payload.pop_back();
  if (unprotect(rc, t, request, rkid, rpiv, p)) return "truncated ciphertext accepted";
  t.payload = outer.payload;
  t.payload.push_back(0);
  if (unprotect(rc, t, request, rkid, rpiv, p)) return "extended ciphertext accepted";
  t.payload = outer.payload;
  // OSCORE option bits. The option is not itself integrity protected; what is protected is its meaning (kid/piv go into
  // AAD and nonce). A flip is harmless only if the message still decrypts to the same plaintext under the same piv.
  size_t oi = 0;
  while (t.opts[oi].num != r1::O_OSCORE) oi++;
  for (size_t bit = 0; bit < t.opts[oi].val.size() * 8; bit++) {
    t.opts[oi].val[bit / 8] ^= (uint8_t)(1u << (bit % 8));
    if (unprotect(rc, t, request, rkid, rpiv, p, &kid, &piv, &kc)) {
      if (request) return strfmt("request accepted with OSCORE option bit %zu flipped", bit);
      if (!(p == good) || piv != good_piv || kid != rc.recipient_id) return strfmt("response with OSCORE option bit %zu flipped gave a different result", bit);
      benign++;   // k flag turned on in a response whose sender has the empty ID: "kid = h''" is what it was anyway
    }
    t.opts[oi].val[bit / 8] ^= (uint8_t)(1u << (bit % 8));
  }
  return "";
}

std::string properties() {
  Rng r(0x8613);
  uint64_t benign = 0;
  static const uint64_t EDGE[] = {0, 1, 0xff, 0x100, 0xffff, 0x10000, 0xffffff, 0x1000000, 0xffffffffull, 0x100000000ull, (1ull << 40) - 2};
  for (int it = 0; it < 96; it++) {
    Ctx a;
    a.master_secret = r.bytes((size_t)r.range(1, 32));
    if (r.chance(0.6)) a.master_salt = r.bytes((size_t)r.range(0, 16));
    if (r.chance(0.5)) { a.has_id_context = true; a.id_context = r.bytes((size_t)r.range(0, 10)); }
    a.sender_id = r.bytes(r.below(8));
    do a.recipient_id = r.bytes(r.below(8)); while (a.recipient_id == a.sender_id);
    Ctx b = a;
    std::swap(b.sender_id, b.recipient_id);
    derive(a);
    derive(b);
    if (a.sender_key != b.recipient_key || a.recipient_key != b.sender_key || a.common_iv != b.common_iv || a.sender_key == a.recipient_key)
      return strfmt("prop %d: mirrored contexts disagree", it);
    Ctx other_a = a;   // same IDs, different secret
    other_a.master_secret[0] ^= 1;
    derive(other_a);
    Ctx other_b = other_a;
    std::swap(other_b.sender_id, other_b.recipient_id);
    std::swap(other_b.sender_key, other_b.recipient_key);

    auto pick_seq = [&]() { return r.chance(0.4) ? EDGE[r.below(sizeof EDGE / sizeof EDGE[0])] : r.chance(0.5) ? r.below(70000) : r.below((1ull << 40) - 1); };
    std::string w, e;

    // ---- request a -> b
    r1::Msg q = gen_msg(r, true), oq, wq, q2;
    uint64_t seq = pick_seq();
    bool kc = a.has_id_context && r.chance(0.5);
    if (!protect(a, q, true, seq, kc, false, Bytes(), Bytes(), oq, &w)) return strfmt("prop %d: protect request: %s", it, w.c_str());
    Bytes qpiv = piv_bytes(seq);
    e = check_outer(q, oq, true, option_value(qpiv, kc, a.id_context, true, a.sender_id));
    if (!e.empty()) return strfmt("prop %d: request %s", it, e.c_str());
    if (oq.payload.size() != inner_size(q, true) + 8) return strfmt("prop %d: request ciphertext length %zu", it, oq.payload.size());
    if (r1::decode_udp(r1::encode_udp(oq), wq, &w) != r1::ACCEPT || !(wq == oq)) return strfmt("prop %d: protected request does not survive the wire: %s", it, w.c_str());
    Bytes kid, piv, kctx;
    if (!unprotect(b, wq, true, Bytes(), Bytes(), q2, &kid, &piv, &kctx, &w)) return strfmt("prop %d: unprotect request: %s (%s)", it, w.c_str(), q.str().c_str());
    if (kid != a.sender_id || piv != qpiv || kctx != (kc ? a.id_context : Bytes())) return strfmt("prop %d: request kid/piv/kid context", it);
    if (q2.code != q.code || q2.payload != q.payload || q2.type != q.type || q2.mid != q.mid || q2.token != q.token)
      return strfmt("prop %d: request round trip changed the message", it);
    if (q2.opts != sorted(q.opts)) return strfmt("prop %d: request options %s expected %s", it, show_opts(q2.opts).c_str(), show_opts(sorted(q.opts)).c_str());
    if (unprotect(other_b, wq, true, Bytes(), Bytes(), q2)) return strfmt("prop %d: request accepted under another master secret", it);
    if (unprotect(a, wq, true, Bytes(), Bytes(), q2)) return strfmt("prop %d: request accepted by its own sender", it);
    {
      r1::Msg good;
      unprotect(b, wq, true, Bytes(), Bytes(), good);
      e = tamper(r, b, wq, true, Bytes(), Bytes(), good, qpiv, benign);
      if (!e.empty()) return strfmt("prop %d: %s (%s)", it, e.c_str(), q.str().c_str());
    }

    // ---- response b -> a
    r1::Msg p = gen_msg(r, false), op, wp, p2;
    p.token = q.token;
    bool own = r.chance(0.5);
    uint64_t seq2 = pick_seq();
    if (!protect(b, p, false, seq2, false, own, kid, piv, op, &w)) return strfmt("prop %d: protect response: %s", it, w.c_str());
    Bytes ppiv = own ? piv_bytes(seq2) : Bytes();
    e = check_outer(p, op, false, option_value(ppiv, false, Bytes(), false, Bytes()));
    if (!e.empty()) return strfmt("prop %d: response %s", it, e.c_str());
    if (r1::decode_udp(r1::encode_udp(op), wp, &w) != r1::ACCEPT || !(wp == op)) return strfmt("prop %d: protected response does not survive the wire: %s", it, w.c_str());
    Bytes kid2, piv2, kctx2;
    if (!unprotect(a, wp, false, a.sender_id, qpiv, p2, &kid2, &piv2, &kctx2, &w)) return strfmt("prop %d: unprotect response: %s (%s)", it, w.c_str(), p.str().c_str());
    if (!kid2.empty() || piv2 != ppiv || !kctx2.empty()) return strfmt("prop %d: response kid/piv/kid context", it);
    if (p2.code != p.code || p2.payload != p.payload || p2.type != p.type || p2.mid != p.mid || p2.token != p.token)
      return strfmt("prop %d: response round trip changed the message", it);
    std::vector<r1::Opt> expo = sorted(p.opts);
    for (auto &o : expo) if (o.num == r1::O_OBSERVE) o.val = observe_from_piv(ppiv);   // documented Observe rule for notifications
    if (p2.opts != expo) return strfmt("prop %d: response options %s expected %s", it, show_opts(p2.opts).c_str(), show_opts(expo).c_str());
    if (op.payload.size() != inner_size(p, false) + 8) return strfmt("prop %d: response ciphertext length %zu", it, op.payload.size());
    if (unprotect(other_a, wp, false, a.sender_id, qpiv, p2)) return strfmt("prop %d: response accepted under another master secret", it);
    // binding to the request (AAD): another request piv / kid must not verify
    {
      Bytes wrong = piv_bytes(seq == (1ull << 40) - 2 ? seq - 1 : seq + 1);
      if (unprotect(a, wp, false, a.sender_id, wrong, p2)) return strfmt("prop %d: response accepted for another request piv", it);
      Bytes wk = a.sender_id;
      if (wk.size() < 7) wk.push_back(0); else wk[0] ^= 1;
      if (unprotect(a, wp, false, wk, qpiv, p2)) return strfmt("prop %d: response accepted for another request kid", it);
      if (qpiv.size() < 5) {   // same number, non-minimal encoding: same nonce but different AAD
        Bytes padded = qpiv;
        padded.insert(padded.begin(), 0);
        if (unprotect(a, wp, false, a.sender_id, padded, p2)) return strfmt("prop %d: response accepted for a zero-padded request piv", it);
      }
    }
    {
      r1::Msg good;
      unprotect(a, wp, false, a.sender_id, qpiv, good);
      e = tamper(r, a, wp, false, a.sender_id, qpiv, good, ppiv, benign);
      if (!e.empty()) return strfmt("prop %d: %s (%s)", it, e.c_str(), p.str().c_str());
    }
  }
  (void)benign;

  // refusals
  {
    Ctx c = mk(SECRET, SALT, nullptr, "", "01");
    r1::Msg m, o;
    m.code = 1;
    m.opts.push_back(r1::Opt{r1::O_PROXY_URI, Bytes{'c'}});
    if (protect(c, m, true, 0, false, false, Bytes(), Bytes(), o)) return "Proxy-Uri not refused";
    m.opts[0] = r1::Opt{r1::O_OSCORE, Bytes()};
    if (protect(c, m, true, 0, false, false, Bytes(), Bytes(), o)) return "nested OSCORE not refused";
    m.opts.clear();
    if (protect(c, m, true, 1ull << 40, false, false, Bytes(), Bytes(), o)) return "sequence number 2^40 not refused";
    if (protect(c, m, true, 0, true, false, Bytes(), Bytes(), o)) return "kid context without ID Context not refused";
    if (!protect(c, m, true, (1ull << 40) - 1, false, false, Bytes(), Bytes(), o)) return "sequence number 2^40-1 refused";
    Ctx raw;
    raw.master_secret = unhex(SECRET);
    if (protect(raw, m, true, 0, false, false, Bytes(), Bytes(), o)) return "underived context not refused";
    Bytes pv, kc, kd;
    bool hk, hc;
    for (const char *bad : {"00", "0e", "0f", "2914", "8914", "0114ff", "19", "1914", "191402aa", "02aa"})
      if (parse_option_value(unhex(bad), pv, hc, kc, hk, kd)) return strfmt("malformed OSCORE option %s parsed", bad);
    if (!parse_option_value(unhex("19140837cbf3210017a2d3aabb"), pv, hc, kc, hk, kd) || pv != unhex("14") || !hc || kc != unhex(IDC) || !hk || kd != unhex("aabb"))
      return "OSCORE option with all fields misparsed";
    if (!parse_option_value(Bytes(), pv, hc, kc, hk, kd) || !pv.empty() || hc || hk) return "empty OSCORE option misparsed";
    if (!parse_option_value(unhex("08"), pv, hc, kc, hk, kd) || !hk || !kd.empty() || !pv.empty()) return "OSCORE option 08 misparsed";
    if (piv_bytes(0) != unhex("00") || piv_bytes(255) != unhex("ff") || piv_bytes(256) != unhex("0100") || piv_bytes((1ull << 40) - 1) != unhex("ffffffffff") || !piv_bytes(1ull << 40).empty())
      return "piv_bytes";
  }
  return "";
}

}  // namespace

std::string selftest() {
  std::string e = vectors();
  if (!e.empty()) return "r9 vector " + e;
  e = properties();
  if (!e.empty()) return "r9 property " + e;
  return "";
}

}  // namespace r9
