// Standalone driver for r9::selftest():
//   clang++ -std=c++17 -Wall -Wextra -I/verif/src /verif/src/r9.cpp /verif/src/r1.cpp /verif/src/tests/r9_selftest_main.cpp -lnettle -o /tmp/r9test
#include "r9.h"
#include <chrono>

std::string strfmt(const char *fmt, ...) {
  char buf[4096];
  va_list ap;
  va_start(ap, fmt);
  int n = vsnprintf(buf, sizeof buf, fmt, ap);
  va_end(ap);
  if (n < 0) n = 0;
  if (n >= (int)sizeof buf) n = sizeof buf - 1;
  return std::string(buf, (size_t)n);
}

int main() {
  auto t0 = std::chrono::steady_clock::now();
  std::string e = r9::selftest();
  double ms = std::chrono::duration<double, std::milli>(std::chrono::steady_clock::now() - t0).count();
  if (!e.empty()) {
    printf("FAIL: %s\n", e.c_str());
    return 1;
  }
  printf("r9 selftest ok (%.1f ms)\n", ms);
  return 0;
}
