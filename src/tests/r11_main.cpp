// Standalone driver for the R11 (RFC 6690 link-format listing + filter) reference model self test.
// clang++ -std=c++17 -Wall -Wextra -fsanitize=address,undefined -I/verif/src /verif/src/r11.cpp /verif/src/tests/r11_main.cpp -o /tmp/r11t && /tmp/r11t
#include "r11.h"
#include <cstdio>

int main(int argc, char **argv) {
  std::string r = r11::selftest();
  if (!r.empty()) { fprintf(stderr, "FAIL %s\n", r.c_str()); return 1; }
  // optional: r11_main '<link-format text>' [query]  -> parse, filter, print
  if (argc >= 2) {
    std::vector<r11::Res> rs;
    std::string why;
    if (!r11::parse(argv[1], rs, &why)) { printf("parse failed: %s\n", why.c_str()); return 2; }
    printf("%zu link(s)\n%s\n", rs.size(), r11::listing(r11::filter(rs, argc >= 3 ? argv[2] : "")).c_str());
  }
  printf("r11 selftest ok\n");
  return 0;
}
