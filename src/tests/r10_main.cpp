// Standalone driver for the R10 (CoAP URI) reference model self test.
// clang++ -std=c++17 -Wall -Wextra -fsanitize=address,undefined -I/verif/src /verif/src/r10.cpp /verif/src/tests/r10_main.cpp -o /tmp/r10t && /tmp/r10t
#include "r10.h"
#include <cstdio>

int main(int argc, char **argv) {
  std::string r = r10::selftest();
  if (!r.empty()) { fprintf(stderr, "FAIL %s\n", r.c_str()); return 1; }
  // optional: parse URIs given on the command line and show the decomposition
  for (int i = 1; i < argc; i++) {
    std::string a = argv[i], why;
    r10::Uri u;
    bool frag = false;
    bool ok = r10::split_uri(Bytes(a.begin(), a.end()), u, &why, &frag, true);
    printf("%s\n  ok=%d frag=%d why=\"%s\" scheme=%s host=\"%.*s\"%s port=%d%s\n", a.c_str(), ok, frag, why.c_str(), r10::scheme_name(u.scheme),
           (int)u.host.size(), (const char *)u.host.data(), u.host_is_ip6_literal ? " (ip-literal)" : "", u.port, u.port_given ? " (given)" : "");
    if (!ok) continue;
    std::vector<Bytes> p, q;
    bool pok = r10::path_to_segments(u.path, p, &why), qok = r10::query_to_segments(u.query, q, &why);
    printf("  path ok=%d:", pok);
    for (auto &s : p) printf(" [%s]", hex(s).c_str());
    printf("\n  query ok=%d:", qok);
    for (auto &s : q) printf(" [%s]", hex(s).c_str());
    printf("\n  recomposed: /%s%s%s\n", r10::segments_to_path(p).c_str(), q.empty() ? "" : "?", r10::segments_to_query(q).c_str());
  }
  printf("r10 selftest ok\n");
  return 0;
}
