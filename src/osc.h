// Shared by the OSCORE worlds (C14, C15): security-context parameters of a plan, libcoap configuration text, R9 contexts.
#pragma once
#include "runner.h"
#include "world.h"
#include "coapx.h"
#include "r9.h"

namespace osc {

struct Params {
  Bytes secret, salt, cid, sid, idctx;   // cid = client's sender id (server's recipient id), sid = server's sender id
  bool has_idctx = false;
  bool b12 = false;
  int window = 32;
  int ssn_freq = 1;
};

inline void to_json(json &j, const Params &p) {
  j = json{{"secret", hex(p.secret)}, {"salt", hex(p.salt)}, {"cid", hex(p.cid)}, {"sid", hex(p.sid)}, {"idctx", hex(p.idctx)}, {"has_idctx", p.has_idctx}, {"b12", p.b12}, {"window", p.window}, {"ssn_freq", p.ssn_freq}};
}
inline void from_json(const json &j, Params &p) {
  p.secret = unhex(j.value("secret", std::string("0102030405060708090a0b0c0d0e0f10")));
  p.salt = unhex(j.value("salt", std::string()));
  p.cid = unhex(j.value("cid", std::string()));
  p.sid = unhex(j.value("sid", std::string("01")));
  p.idctx = unhex(j.value("idctx", std::string()));
  p.has_idctx = j.value("has_idctx", false) || !p.idctx.empty();
  p.b12 = j.value("b12", false);
  p.window = j.value("window", 32);
  p.ssn_freq = j.value("ssn_freq", 1);
  if (p.cid.size() > 7) p.cid.resize(7);
  if (p.sid.size() > 7) p.sid.resize(7);
  if (p.cid == p.sid) p.sid.push_back(0x5a), p.sid.resize(std::min<size_t>(p.sid.size(), 7));
  if (p.cid == p.sid) p.cid.clear();
}

inline Params gen_params(Rng &r) {
  Params p;
  p.secret.resize(16);
  for (auto &b : p.secret) b = (uint8_t)r.next();
  if (r.chance(0.6)) { p.salt.resize(r.chance(0.7) ? 8 : (size_t)r.range(1, 16)); for (auto &b : p.salt) b = (uint8_t)r.next(); }
  p.cid.resize((size_t)r.range(0, 7));
  for (auto &b : p.cid) b = (uint8_t)r.next();
  p.sid.resize((size_t)r.range(0, 7));
  for (auto &b : p.sid) b = (uint8_t)r.next();
  if (p.cid == p.sid) { if (p.sid.size() < 7) p.sid.push_back(0x5a); else p.sid[0] ^= 1; }
  if (r.chance(0.4)) { p.has_idctx = true; p.idctx.resize((size_t)r.range(1, 12)); for (auto &b : p.idctx) b = (uint8_t)r.next(); }
  p.b12 = r.chance(0.5);
  return p;
}

// libcoap configuration text for one side
inline std::string conf_text(const Params &p, bool client) {
  std::string s;
  s += "master_secret,hex,\"" + hex(p.secret) + "\"\n";
  if (!p.salt.empty()) s += "master_salt,hex,\"" + hex(p.salt) + "\"\n";
  s += "sender_id,hex,\"" + hex(client ? p.cid : p.sid) + "\"\n";
  s += "recipient_id,hex,\"" + hex(client ? p.sid : p.cid) + "\"\n";
  if (p.has_idctx) s += "id_context,hex,\"" + hex(p.idctx) + "\"\n";
  s += strfmt("replay_window,integer,%d\n", p.window);
  s += strfmt("ssn_freq,integer,%d\n", p.ssn_freq);
  s += std::string("rfc8613_b_1_2,bool,") + (p.b12 ? "true" : "false") + "\n";
  s += "rfc8613_b_2,bool,false\n";
  return s;
}

inline r9::Ctx r9_ctx(const Params &p, bool client) {
  r9::Ctx c;
  c.master_secret = p.secret;
  c.master_salt = p.salt;
  c.id_context = p.idctx;
  c.has_id_context = p.has_idctx;
  c.sender_id = client ? p.cid : p.sid;
  c.recipient_id = client ? p.sid : p.cid;
  r9::derive(c);
  c.has_id_context = p.has_idctx;
  return c;
}

inline uint64_t piv_value(const Bytes &piv) {
  uint64_t v = 0;
  for (auto b : piv) v = v << 8 | b;
  return v;
}

constexpr uint32_t O_OSCORE = 9;

}  // namespace osc
