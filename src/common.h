// Shared small utilities: PRNG, trace hash, hex, json alias.
#pragma once
#include <cstdint>
#include <cstdarg>
#include <cstdio>
#include <string>
#include <vector>
#include <map>
#include <nlohmann/json.hpp>

using json = nlohmann::ordered_json;
using Bytes = std::vector<uint8_t>;

inline uint64_t mix64(uint64_t z) {
  z += 0x9e3779b97f4a7c15ull;
  z = (z ^ (z >> 30)) * 0xbf58476d1ce4e5b9ull;
  z = (z ^ (z >> 27)) * 0x94d049bb133111ebull;
  return z ^ (z >> 31);
}
inline uint64_t mix3(uint64_t a, uint64_t b, uint64_t c) { return mix64(mix64(mix64(a) ^ b) ^ c); }

struct Rng {
  uint64_t s;
  explicit Rng(uint64_t seed = 1) : s(seed) {}
  uint64_t next() { return mix64(s += 0x9e3779b97f4a7c15ull); }
  // uniform in [0, n)
  uint64_t below(uint64_t n) { return n ? next() % n : 0; }
  // uniform in [lo, hi]
  int64_t range(int64_t lo, int64_t hi) { return hi <= lo ? lo : lo + (int64_t)below((uint64_t)(hi - lo + 1)); }
  bool chance(double p) { return (next() >> 11) * (1.0 / 9007199254740992.0) < p; }
  template <class T> const T &pick(const std::vector<T> &v) { return v[below(v.size())]; }
  Rng fork(uint64_t salt) { return Rng(mix3(s, salt, 0x51ed)); }
  Bytes bytes(size_t n) {
    Bytes b(n);
    for (auto &c : b) c = (uint8_t)next();
    return b;
  }
};

inline std::string hex(const uint8_t *p, size_t n) {
  static const char *d = "0123456789abcdef";
  std::string s;
  s.reserve(n * 2);
  for (size_t i = 0; i < n; i++) { s += d[p[i] >> 4]; s += d[p[i] & 15]; }
  return s;
}
inline std::string hex(const Bytes &b) { return hex(b.data(), b.size()); }
inline Bytes unhex(const std::string &s) {
  Bytes b;
  auto v = [](char c) { return c <= '9' ? c - '0' : (c | 32) - 'a' + 10; };
  for (size_t i = 0; i + 1 < s.size(); i += 2) b.push_back((uint8_t)(v(s[i]) << 4 | v(s[i + 1])));
  return b;
}

// Trace: running FNV-1a hash of everything observable, plus optional text log.
struct Trace {
  uint64_t h = 0xcbf29ce484222325ull;
  bool keep = false;          // keep text lines (replay / verbose)
  bool echo = false;          // print lines as they happen
  std::vector<std::string> lines;
  uint64_t n = 0;
  void reset(bool k, bool e) { h = 0xcbf29ce484222325ull; keep = k; echo = e; lines.clear(); n = 0; }
  void mixbytes(const void *p, size_t len) {
    const uint8_t *b = (const uint8_t *)p;
    for (size_t i = 0; i < len; i++) { h ^= b[i]; h *= 0x100000001b3ull; }
  }
  // text line only (never hashed): used for wire events whose canonical binary form is hashed separately
  void line(uint64_t t_us, const char *fmt, ...) __attribute__((format(printf, 3, 4))) {
    if (!keep && !echo) return;
    char buf[4096];
    va_list ap;
    va_start(ap, fmt);
    vsnprintf(buf, sizeof buf, fmt, ap);
    va_end(ap);
    char pre[48];
    snprintf(pre, sizeof pre, "[%10.3f ms] ", t_us / 1000.0);
    std::string l = std::string(pre) + buf;
    if (echo) { fputs(l.c_str(), stdout); fputc('\n', stdout); }
    if (keep) lines.push_back(l);
  }
  void ev(uint64_t t_us, const char *fmt, ...) __attribute__((format(printf, 3, 4))) {
    char buf[2048];
    va_list ap;
    va_start(ap, fmt);
    int len = vsnprintf(buf, sizeof buf, fmt, ap);
    va_end(ap);
    if (len < 0) len = 0;
    if (len >= (int)sizeof buf) len = sizeof buf - 1;
    mixbytes(&t_us, sizeof t_us);
    mixbytes(buf, (size_t)len);
    n++;
    if (keep || echo) {
      char pre[48];
      snprintf(pre, sizeof pre, "[%10.3f ms] ", t_us / 1000.0);
      std::string l = std::string(pre) + buf;
      if (echo) { fputs(l.c_str(), stdout); fputc('\n', stdout); }
      if (keep) lines.push_back(l);
    }
  }
};

struct Violation {
  std::string rule;    // monitor.rule identifier (the violation class used by minimisation)
  std::string sig;     // semantic discriminator (matched against known findings)
  std::string detail;  // human-readable
};
inline void to_json(json &j, const Violation &v) { j = json{{"rule", v.rule}, {"sig", v.sig}, {"detail", v.detail}}; }
inline void from_json(const json &j, Violation &v) {
  v.rule = j.value("rule", "");
  v.sig = j.value("sig", "");
  v.detail = j.value("detail", "");
}

using Counters = std::map<std::string, uint64_t>;

struct RunResult {
  std::vector<Violation> violations;
  uint64_t trace_hash = 0;
  uint64_t events = 0;
  uint64_t sim_us = 0;
  bool nontrivial = false;      // at least one fault fired AND the workload's progress probe fired
  Counters counters;            // "fault.<kind>", "probe.<name>", "cfg.<k>=<v>" ... merged over runs
  std::vector<std::string> log; // only when asked for
  void violate(const std::string &rule, const std::string &sig, const std::string &detail) {
    for (auto &v : violations) if (v.rule == rule && v.sig == sig) return;
    violations.push_back(Violation{rule, sig, detail});
  }
};

std::string strfmt(const char *fmt, ...) __attribute__((format(printf, 1, 2)));
