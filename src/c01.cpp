// C01 — wire codec round trip for every API-built message on every transport.
// A libcoap client (node 0) builds messages through the PDU API from a generated abstract message and sends them over
// UDP (to a raw datagram peer) and TCP (to a raw stream peer that completes the CSM exchange); the bytes captured on the
// simulated wire must be well-formed under R1 and decode to exactly the model, and libcoap's own parser must read them back
// to the same message.
#include "runner.h"
#include <gnutls/gnutls.h>
#include <gnutls/crypto.h>
#include "world.h"
#include "coapx.h"
#include <algorithm>

namespace {

bool non_repeatable(uint32_t n) {
  static const std::set<uint32_t> s = {3, 5, 6, 7, 9, 12, 14, 16, 17, 23, 27, 28, 35, 39, 60, 252, 258};
  return s.count(n) > 0;
}

struct C01 : Property {
  C01() {
    id = "C01";
    technique = "model-based message generation executed inside deterministic simulation runs: PDUs built through the API are sent by the real library over simulated UDP and TCP (CSM exchange with a raw stream peer, short writes/EAGAIN injected), captured bytes judged by the reference codec R1 and re-parsed by libcoap's parser";
    rule_text = "plan = 20..60 abstract messages (type x code x token length 0..8 on UDP / up to 300 on TCP with Extended-Token-Length negotiated, 0..12 options from all defined numbers plus unknown/boundary numbers with value lengths on both sides of 12/13 and 268/269 inside each option's limits, added in random order through coap_add_option, payload 0..1000 and a few 66 KB messages over TCP for the 32-bit length form, maximum PDU sizes that make the API refuse) x transport x stream write faults (short writes, EAGAIN). Each message is one oracle evaluation (probes.messages_judged); non-trivial run: at least one option was added out of order and one message used an extended length/delta form; distinct = distinct trace hash. The message space is plain generation; the simulation contributes the send-time framing, partial-write resumption and the real socket paths.";
    real_components = {"libcoap: coap_pdu.c (coap_add_token, coap_add_option/coap_insert_option, coap_add_data, coap_pdu_encode_header, coap_pdu_parse), coap_option.c, coap_encode.c, coap_net.c (coap_send_internal, coap_write_session partial writes), coap_session.c (CSM), coap_tcp.c, coap_io.c"};
    stub_components = {"simk UDP/TCP streams with write cuts", "raw peers", "R1 codec"};
    assumptions = {"WebSocket framing on the wire is exercised in C05; here WS-style (Len=0) encoding is checked through coap_pdu_parse only",
                   "what the protocol layer is specified to add is mirrored in the model: Hop-Limit(16) when Proxy-Uri/Proxy-Scheme is added to a request"};
    quick_budget_s = 30;
    thorough_budget_s = 500;
  }

  json gen_msg(Rng &r, bool tcp, bool big) {
    r1::Msg m;
    m.type = tcp ? 0 : (int)r.below(4);
    double x = (r.next() >> 11) * (1.0 / 9007199254740992.0);
    m.code = x < 0.5 ? (int)r.range(1, 7) : (int)((2 + r.below(4)) << 5 | r.below(16));
    if (m.code == 0xA8) m.code = 0xA0;   // 5.08 Hop Limit Reached: libcoap appends its own address and a Hop-Limit at send time (RFC 8768)
    m.mid = (int)r.below(65536);
    size_t tl = (size_t)r.range(0, 8);
    if (tcp && r.chance(0.3)) tl = (size_t)r.pick(std::vector<int>{9, 12, 13, 14, 20, 268, 269, 270, 300});
    m.token = r.bytes(tl);
    static const uint32_t known[] = {1, 3, 4, 5, 6, 7, 8, 9, 11, 12, 14, 15, 16, 17, 19, 20, 23, 27, 28, 31, 35, 39, 60, 252, 258, 292};
    int n = (int)r.range(0, 12);
    for (int i = 0; i < n; i++) {
      r1::Opt o;
      double y = (r.next() >> 11) * (1.0 / 9007199254740992.0);
      if (y < 0.65) o.num = known[r.below(26)];
      else if (y < 0.85) o.num = (uint32_t)r.pick(std::vector<int>{0, 2, 10, 13, 24, 25, 268, 269, 270, 281, 282, 540, 2048, 65000, 65534, 65535});
      else o.num = (uint32_t)r.below(65536);
      size_t lo = 0, hi = 0, len;
      if (r1::opt_len_limits(o.num, lo, hi)) {
        double z = (r.next() >> 11) * (1.0 / 9007199254740992.0);
        len = z < 0.3 ? lo : z < 0.6 ? hi : (size_t)r.range((int64_t)lo, (int64_t)hi);
      } else len = (size_t)r.pick(std::vector<int>{0, 1, 2, 11, 12, 13, 14, 20, 267, 268, 269, 270, 300});
      if (!tcp && len > 300) len = 255;
      o.val = r.bytes(len);
      m.opts.push_back(o);
    }
    if (big) m.payload = r.bytes((size_t)r.range(65700, 66200));
    else if (r.chance(0.6)) m.payload = r.bytes((size_t)(r.chance(0.8) ? r.range(1, 60) : r.range(60, tcp ? 3000 : 700)));
    json jo = json::array();
    for (auto &o : m.opts) jo.push_back(json::array({o.num, hex(o.val)}));
    return json{{"tcp", tcp}, {"type", m.type}, {"code", m.code}, {"mid", m.mid}, {"token", hex(m.token)}, {"opts", jo}, {"payload", hex(m.payload)},
                {"max_size", r.chance(0.15) ? r.range(8, 200) : 0}};
  }

  json generate(uint64_t base, uint64_t index, bool) override {
    Rng r(mix3(base, 0xC01, index));
    json p;
    p["property"] = "C01";
    p["seed"] = base;
    p["index"] = index;
    p["sched_salt"] = r.next() & 0xffffffff;
    json ops = json::array();
    int n = (int)r.range(20, 60);
    bool any_big = r.chance(0.03);
    for (int i = 0; i < n; i++) {
      bool tcp = r.chance(0.5);
      json m = gen_msg(r, tcp, tcp && any_big && i == n / 2);
      // a third of the stream messages go over a WebSocket session instead (RFC 8323 section 4: Len = 0, one message per binary
      // frame); their payloads are then sized so that the frame length lands around the 125/126 and 65535/65536 header forms
      if (tcp && m.value("payload", "").size() / 2 < 5000 && r.chance(0.35)) {
        m["ws"] = true;
        if (r.chance(0.6)) {
          size_t fixed = 3 + m.value("token", "").size() / 2 + (m.value("token", "").size() / 2 > 12 ? (m.value("token", "").size() / 2 > 268 ? 2 : 1) : 0);
          for (auto &o : m["opts"]) fixed += o[1].get<std::string>().size() / 2 + 3;
          int64_t target = r.chance(0.8) ? r.range(120, 132) : r.range(65530, 65542);
          if (target > (int64_t)fixed + 1) m["payload"] = hex(r.bytes((size_t)(target - (int64_t)fixed + r.range(-4, 4))));
        }
      }
      ops.push_back(m);
    }
    p["config"] = json::object();
    p["ops"] = ops;
    json faults = json::array();
    if (r.chance(0.5)) {
      json cuts = json::array();
      int k = (int)r.range(1, 30);
      for (int i = 0; i < k; i++) cuts.push_back(r.chance(0.3) ? 0 : r.range(1, 40));
      faults.push_back({{"write_cuts", cuts}});
    }
    p["faults"] = faults;
    return p;
  }

  void execute(const json &plan, RunResult &res, bool verbose) override {
    World w;
    w.begin(plan.value("sched_salt", 1ull), &res, verbose, false);
    w.trace_wire = verbose;
    w.add_node(nullptr);
    w.add_node(nullptr);
    coap_context_t *ctx = cx::new_context(w, 0);
    {
      World::AsNode as(0);
      coap_context_set_max_token_size(ctx, 1024);
      coap_context_set_csm_max_message_size(ctx, 200000);
    }
    int udp_peer = simk::raw_udp_socket(1, World::node_addr(1, 5683));
    int lfd = simk::raw_listen(1, World::node_addr(1, 5683));
    int sfd = -1;
    Bytes rx;        // everything the TCP peer received
    bool csm_sent = false;
    w.pollers.push_back([&]() {
      if (sfd < 0) sfd = simk::raw_accept(lfd);
      if (sfd >= 0) {
        if (!csm_sent) {
          // our CSM: Max-Message-Size 200000, Extended-Token-Length 1024 (RFC 8974), Block-Wise-Transfer
          r1::Msg csm;
          csm.code = 0xE1;
          csm.opts.push_back({2, r1::encode_uint(200000)});
          csm.opts.push_back({4, {}});
          csm.opts.push_back({6, r1::encode_uint(1024)});
          simk::raw_stream_write(sfd, r1::encode_tcp(csm));
          csm_sent = true;
        }
        simk::raw_stream_read(sfd, rx);
      }
    });
    std::vector<Bytes> udp_rx;
    w.pollers.push_back([&]() {
      simk::Datagram d;
      while (simk::raw_recv(udp_peer, d)) {
        if (d.data.size() >= 4 && ((d.data[0] >> 4) & 3) == 0) {     // acknowledge Confirmables at once: nothing is retransmitted or held
          Bytes ack = {0x60, 0, d.data[2], d.data[3]};
          simk::raw_sendto(udp_peer, d.src, ack);
        }
        udp_rx.push_back(d.data);
      }
    });
    // WebSocket peer: answers the HTTP upgrade (RFC 6455 4.2.2), sends its CSM, then collects the client's frames
    int wlfd = simk::raw_listen(1, World::node_addr(1, 8080));
    int wfd = -1;
    Bytes wrx;
    bool ws_up = false;
    w.pollers.push_back([&]() {
      if (wfd < 0) wfd = simk::raw_accept(wlfd);
      if (wfd < 0) return;
      simk::raw_stream_read(wfd, wrx);
      if (ws_up) return;
      std::string h(wrx.begin(), wrx.end());
      size_t end = h.find("\r\n\r\n");
      if (end == std::string::npos) return;
      std::string key;
      size_t kp = h.find("Sec-WebSocket-Key:");
      if (kp != std::string::npos) {
        kp += 18;
        while (kp < h.size() && h[kp] == ' ') kp++;
        size_t ke = h.find("\r\n", kp);
        key = h.substr(kp, ke - kp);
      }
      std::string cat = key + "258EAFA5-E914-47DA-95CA-C5AB0DC85B11";
      uint8_t dig[20];
      gnutls_hash_fast(GNUTLS_DIG_SHA1, cat.data(), cat.size(), dig);
      static const char *b64 = "ABCDEFGHIJKLMNOPQRSTUVWXYZabcdefghijklmnopqrstuvwxyz0123456789+/";
      std::string acc;
      for (int i = 0; i < 20; i += 3) {
        uint32_t v = (uint32_t)dig[i] << 16 | (i + 1 < 20 ? (uint32_t)dig[i + 1] << 8 : 0) | (i + 2 < 20 ? dig[i + 2] : 0);
        acc += b64[v >> 18 & 63];
        acc += b64[v >> 12 & 63];
        acc += i + 1 < 20 ? b64[v >> 6 & 63] : '=';
        acc += i + 2 < 20 ? b64[v & 63] : '=';
      }
      std::string rsp = "HTTP/1.1 101 Switching Protocols\r\nUpgrade: websocket\r\nConnection: Upgrade\r\nSec-WebSocket-Accept: " + acc + "\r\nSec-WebSocket-Protocol: coap\r\n\r\n";
      Bytes out(rsp.begin(), rsp.end());
      r1::Msg csm;
      csm.code = 0xE1;
      csm.opts.push_back({2, r1::encode_uint(200000)});
      csm.opts.push_back({4, {}});
      csm.opts.push_back({6, r1::encode_uint(1024)});
      Bytes fr = r1::ws_frame(r1::encode_ws_msg(csm), false, nullptr);
      out.insert(out.end(), fr.begin(), fr.end());
      simk::raw_stream_write(wfd, out);
      wrx.erase(wrx.begin(), wrx.begin() + (long)end + 4);
      ws_up = true;
    });
    coap_session_t *us = cx::new_client(w, 0, ctx, World::node_addr(1, 5683), COAP_PROTO_UDP);
    coap_session_t *ts = cx::new_client(w, 0, ctx, World::node_addr(1, 5683), COAP_PROTO_TCP);
    coap_session_t *wss = cx::new_client(w, 0, ctx, World::node_addr(1, 8080), COAP_PROTO_WS);
    if (wss) { World::AsNode as(0); coap_ws_set_host_request(wss, coap_make_str_const("10.0.0.2")); }
    for (auto &f : plan["faults"])
      if (f.contains("write_cuts")) {
        std::deque<size_t> q;
        for (auto &c : f["write_cuts"]) q.push_back(c.get<size_t>());
        w.write_cuts[{1, 0}] = q;    // first stream of the run, client side
      }
    w.run_for_ms(50);   // connection + CSM exchange
    size_t tcp_consumed = 0;
    // skip the client's own CSM on the stream
    auto take_tcp_msgs = [&](std::vector<r1::Msg> &out, std::vector<Bytes> &raw) {
      for (;;) {
        r1::Msg m;
        r1::Verdict v;
        std::string why;
        bool too_big = false;
        size_t n = r1::take_tcp(rx.data() + tcp_consumed, rx.size() - tcp_consumed, m, v, &why, 1u << 24, &too_big);
        if (!n) break;
        Bytes b(rx.begin() + (long)tcp_consumed, rx.begin() + (long)(tcp_consumed + n));
        tcp_consumed += n;
        if (v == r1::REJECT) { res.violate("R1.stream_malformed", "malformed", "malformed message on the TCP stream (" + why + "): " + hex(b).substr(0, 200)); continue; }
        if ((m.code >> 5) == 7) continue;     // signalling (CSM, Ping ...)
        out.push_back(m);
        raw.push_back(b);
      }
    };
    // WebSocket: strict RFC 6455 5.2 frame decoding (client frames are masked, final, binary, minimal length form), then the
    // CoAP-over-WebSockets message inside (Len nibble 0)
    size_t ws_consumed = 0;
    auto take_ws_msgs = [&](std::vector<r1::Msg> &out, std::vector<Bytes> &raw) {
      for (;;) {
        const uint8_t *q = wrx.data() + ws_consumed;
        size_t n = wrx.size() - ws_consumed;
        if (n < 2) break;
        size_t l7 = q[1] & 0x7f, hdr = 2;
        uint64_t len = l7;
        if (l7 == 126) { if (n < 4) break; len = (uint64_t)q[2] << 8 | q[3]; hdr = 4; }
        else if (l7 == 127) { if (n < 10) break; len = 0; for (int i = 0; i < 8; i++) len = len << 8 | q[2 + i]; hdr = 10; }
        bool masked = q[1] & 0x80;
        if (masked) hdr += 4;
        std::string bad;
        if (q[0] != 0x82) bad = strfmt("first byte 0x%02x (expected FIN + binary opcode 0x82)", q[0]);
        else if (!masked) bad = "client frame is not masked";
        else if (l7 == 126 && len < 126) bad = strfmt("16-bit length form used for %llu bytes", (unsigned long long)len);
        else if (l7 == 127 && len < 65536) bad = strfmt("64-bit length form used for %llu bytes", (unsigned long long)len);
        else if (len > (1u << 24)) bad = strfmt("frame declares %llu bytes", (unsigned long long)len);
        if (!bad.empty()) {
          res.violate("R1.ws_frame_malformed", "frame_header", "WebSocket frame written by libcoap is malformed: " + bad + "; bytes " + hex(q, std::min<size_t>(n, 24)));
          ws_consumed = wrx.size();
          break;
        }
        if (n < hdr + len) break;
        Bytes pl(q + hdr, q + hdr + len);
        for (size_t i = 0; i < pl.size(); i++) pl[i] ^= q[hdr - 4 + (i & 3)];
        ws_consumed += hdr + (size_t)len;
        if (len > 65535) w.count("probe.ws_64bit_length_form");
        else if (len > 125) w.count("probe.ws_16bit_length_form");
        if (len == 126) w.count("probe.ws_frame_of_126_bytes");
        r1::Msg m;
        std::string why;
        if (pl.size() < 2 || (pl[0] >> 4) != 0) { res.violate("R1.stream_malformed", "ws_len_nibble", "CoAP-over-WebSockets message with non-zero Len nibble or too short: " + hex(pl).substr(0, 100)); continue; }
        m.code = pl[1];
        r1::Verdict v = r1::decode_rest(pl.data() + 2, pl.size() - 2, pl[0] & 15, m, &why, true);
        if (v == r1::REJECT) { res.violate("R1.stream_malformed", "malformed_ws", "malformed message in a WebSocket frame (" + why + "): " + hex(pl).substr(0, 200)); continue; }
        if ((m.code >> 5) == 7) continue;
        out.push_back(m);
        raw.push_back(pl);
      }
    };
    bool out_of_order_seen = false, ext_seen = false;
    size_t idx = 0;
    for (auto &op : plan["ops"]) {
      bool tcp = op.value("tcp", false);
      bool wsm = tcp && op.value("ws", false) && wss != nullptr;
      r1::Msg want;
      want.type = op.value("type", 0);
      want.code = op.value("code", 1);
      want.mid = op.value("mid", 0);
      want.token = unhex(op.value("token", ""));
      std::vector<r1::Opt> order;
      for (auto &o : op["opts"]) order.push_back({o[0].get<uint32_t>(), unhex(o[1].get<std::string>())});
      Bytes payload = unhex(op.value("payload", ""));
      size_t max_size = op.value("max_size", (size_t)0);
      coap_session_t *s = wsm ? wss : tcp ? ts : us;
      r1::Msg model;        // what the API accepted
      model.type = tcp ? 0 : want.type;
      model.code = want.code;
      model.mid = want.mid;
      coap_pdu_t *pdu = nullptr;
      bool dump_ok = true;
      {
        World::AsNode as(0);
        pdu = max_size ? coap_pdu_init((coap_pdu_type_t)want.type, (coap_pdu_code_t)want.code, (coap_mid_t)want.mid, max_size)
                       : coap_new_pdu((coap_pdu_type_t)want.type, (coap_pdu_code_t)want.code, s);
        if (pdu) {
          coap_pdu_set_mid(pdu, (coap_mid_t)want.mid);
          if (coap_add_token(pdu, want.token.size(), want.token.data())) model.token = want.token;
          uint32_t maxnum = 0;
          bool is_request = want.code >= 1 && want.code < 32;
          for (auto &o : order) {
            // reference prediction of a refusal for illegal repetition (only detectable by the API for the currently highest number)
            bool repeat = false;
            for (auto &e : model.opts) repeat |= e.num == o.num;
            r1::Msg before = cx::msg_from_pdu(pdu);
            size_t r = coap_add_option(pdu, (coap_option_num_t)o.num, o.val.size(), o.val.data());
            if (o.num < maxnum) out_of_order_seen = true;
            if (r) {
              // (the automatic Hop-Limit is best effort: it is silently skipped when there is no room for it)
              if ((o.num == 35 || o.num == 39) && is_request && !model.find(16) && cx::msg_from_pdu(pdu).find(16)) {
                size_t i = 0;
                while (i < model.opts.size() && model.opts[i].num <= 16) i++;
                model.opts.insert(model.opts.begin() + (long)i, r1::Opt{16, Bytes{16}});
              }
              size_t i = 0;
              while (i < model.opts.size() && model.opts[i].num <= o.num) i++;
              model.opts.insert(model.opts.begin() + (long)i, o);
              maxnum = std::max(maxnum, o.num);
              if (repeat && non_repeatable(o.num) && o.num == maxnum) {}
              if (o.val.size() >= 13 || o.num >= 13) ext_seen = true;
            } else {
              w.count("probe.option_refused");
              // a refused option must not disturb token, options or payload already present
              r1::Msg after = cx::msg_from_pdu(pdu);
              bool hop_added = (o.num == 35 || o.num == 39) && is_request && after.opts.size() == before.opts.size() + 1 && after.find(16) && !before.find(16);
              if (hop_added) { size_t i = 0; while (i < model.opts.size() && model.opts[i].num <= 16) i++; model.opts.insert(model.opts.begin() + (long)i, r1::Opt{16, Bytes{16}}); }
              else if (!(after.opts == before.opts) || after.token != before.token)
                res.violate("R2.refused_option_disturbed_message", "refused_add", strfmt("message #%zu: refused option %u changed the message from %s to %s", idx, o.num, before.str().c_str(), after.str().c_str()));
            }
          }
          if (!payload.empty()) {
            if (coap_add_data(pdu, payload.size(), payload.data())) model.payload = payload;
            else w.count("probe.payload_refused");
          }
          r1::Msg d = cx::msg_from_pdu(pdu);
          if (d.token != model.token || !(d.opts == model.opts) || d.payload != model.payload) {
            dump_ok = false;
            res.violate("R2.built_message_differs", d.token != model.token ? "token" : !(d.opts == model.opts) ? "options" : "payload",
                        strfmt("message #%zu: accessors report %s but the accepted calls amount to %s", idx, d.str().c_str(), model.str().c_str()));
          }
        }
      }
      w.count("probe.messages_judged");
      size_t est = 8 + model.token.size() + model.payload.size();
      for (auto &o : model.opts) est += o.val.size() + 5;
      bool sendable = pdu && dump_ok && (tcp ? est < 190000 : (est < 1100 && model.token.size() <= 8));
      if (!sendable) {
        World::AsNode as(0);
        if (pdu) coap_delete_pdu(pdu);
        idx++;
        continue;
      }
      coap_mid_t mid;
      {
        World::AsNode as(0);
        mid = coap_send(s, pdu);
      }
      w.run_for_ms(30);
      {
        World::AsNode as(0);
        if (!tcp && model.type == 0) coap_session_set_nstart(us, 1);   // (keeps the default explicit)
      }
      std::vector<r1::Msg> got;
      std::vector<Bytes> raw;
      if (wsm) take_ws_msgs(got, raw);
      else if (tcp) take_tcp_msgs(got, raw);
      else {
        for (auto &dg : udp_rx) {
          r1::Msg m;
          std::string why;
          if (dg.size() >= 4 && (dg[2] << 8 | dg[3]) != (model.mid & 0xffff)) continue;   // not this message
          // libcoap's one-off probe for Extended Token Length support (RFC 8974, sent because max_token_size is raised) can carry
          // the very mid the plan chose for this message (1 in 65536): it is recognised by its extended TKL, which no UDP model has
          if (dg.size() >= 1 && (dg[0] & 0x0f) >= 13 && model.token.size() <= 8) continue;
          if (r1::decode_udp(dg, m, &why) == r1::REJECT && why.find("outside") == std::string::npos) {
            res.violate("R1.datagram_malformed", "malformed", strfmt("message #%zu serialised to a malformed datagram (%s): %s", idx, why.c_str(), hex(dg).substr(0, 200).c_str()));
            continue;
          }
          got.push_back(m);
          raw.push_back(dg);
        }
        udp_rx.clear();
      }
      std::string ctx = strfmt("message #%zu over %s", idx, wsm ? "WebSocket" : tcp ? "TCP" : "UDP");
      if (mid == COAP_INVALID_MID) {
        w.count("probe.send_refused");
        if (!got.empty()) res.violate("R1.sent_although_refused", "sent_although_refused", ctx + ": coap_send reported failure but bytes were transmitted");
      } else if (got.size() != 1) {
        res.violate("R1.not_one_message", got.empty() ? "nothing_on_wire" : "several", ctx + strfmt(": %zu messages appeared on the wire for one coap_send (%s)", got.size(), model.str().c_str()));
      } else {
        const r1::Msg &g = got[0];
        const char *field = nullptr;
        if (!tcp && g.type != model.type) field = "type";
        else if (g.code != model.code) field = "code";
        else if (!tcp && g.mid != model.mid) field = "mid";
        else if (g.token != model.token) field = "token";
        else if (!(g.opts == model.opts)) field = "options";
        else if (g.payload != model.payload) field = "payload";
        if (field) res.violate("R1.wire_differs_from_model", std::string(field) + (tcp ? "_tcp" : "_udp"), ctx + ": wire carries " + g.str() + " but the message built was " + model.str());
        // libcoap's own parser reads the same bytes back to the same message
        World::AsNode as(0);
        coap_pdu_t *back = coap_pdu_init(COAP_MESSAGE_CON, COAP_EMPTY_CODE, 0, raw[0].size() + 16);
        if (back) {
          if (!coap_pdu_parse(wsm ? COAP_PROTO_WS : tcp ? COAP_PROTO_TCP : COAP_PROTO_UDP, raw[0].data(), raw[0].size(), back)) {
            r1::Msg tmp;
            bool limits_only = !tcp && r1::decode_udp(raw[0], tmp) == r1::REJECT;
            if (!limits_only) res.violate("R1.own_bytes_not_parsable", tcp ? "tcp" : "udp", ctx + ": coap_pdu_parse rejects the bytes libcoap produced: " + hex(raw[0]).substr(0, 200));
          } else {
            r1::Msg b = cx::msg_from_pdu(back);
            if (b.token != model.token || !(b.opts == model.opts) || b.payload != model.payload || b.code != model.code)
              res.violate("R1.reparse_differs", tcp ? "tcp" : "udp", ctx + ": re-parsed as " + b.str() + " instead of " + model.str());
          }
          coap_delete_pdu(back);
        }
        if (wsm) w.count("probe.ws_messages_judged");
        else if (tcp && raw[0].size() > 65805) w.count("probe.tcp_32bit_length_form");
        else if (tcp && raw[0].size() > 270) w.count("probe.tcp_16bit_length_form");
        else if (tcp && raw[0].size() > 14) w.count("probe.tcp_8bit_length_form");
        if (model.token.size() > 8) w.count("probe.extended_token_on_wire");
      }
      w.tr.ev(w.now_us(), "msg %zu %s %s", idx, tcp ? "tcp" : "udp", got.empty() ? "-" : hex(raw[0]).substr(0, 64).c_str());
      idx++;
    }
    res.nontrivial = out_of_order_seen && ext_seen;
    {
      World::AsNode as(0);
      coap_session_release(us);
      coap_session_release(ts);
      if (wss) coap_session_release(wss);
      coap_free_context(ctx);
    }
    w.end();
  }
};

struct Reg { Reg() { register_property(new C01()); } } reg;

}  // namespace
