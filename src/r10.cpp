// R10 — independent reference model of CoAP URI handling. See r10.h for scope and interpretations.
#include "r10.h"
#include <cstring>

namespace r10 {
namespace {

// ---- RFC 3986 §2 character classes -------------------------------------------------------------------------------
inline bool is_alpha(uint8_t c) { return (c >= 'A' && c <= 'Z') || (c >= 'a' && c <= 'z'); }
inline bool is_digit(uint8_t c) { return c >= '0' && c <= '9'; }
inline bool is_hex(uint8_t c) { return is_digit(c) || (c >= 'A' && c <= 'F') || (c >= 'a' && c <= 'f'); }
inline int hexval(uint8_t c) { return is_digit(c) ? c - '0' : (c >= 'a' ? c - 'a' : c - 'A') + 10; }
inline bool is_unreserved(uint8_t c) { return is_alpha(c) || is_digit(c) || c == '-' || c == '.' || c == '_' || c == '~'; }
inline bool is_subdelim(uint8_t c) { return c && strchr("!$&'()*+,;=", c) != nullptr; }
inline bool is_regname_char(uint8_t c) { return is_unreserved(c) || is_subdelim(c); }
inline bool is_pchar(uint8_t c) { return is_unreserved(c) || is_subdelim(c) || c == ':' || c == '@'; }        // pct-encoded handled apart
inline bool is_path_char(uint8_t c) { return is_pchar(c) || c == '/'; }
inline bool is_query_char(uint8_t c) { return is_pchar(c) || c == '/' || c == '?'; }                          // also fragment
inline bool is_zone_char(uint8_t c) { return is_unreserved(c); }
inline bool is_scheme_char(uint8_t c) { return is_alpha(c) || is_digit(c) || c == '+' || c == '-' || c == '.'; }

std::string num(size_t v) { return std::to_string(v); }
std::string hex2(uint8_t c) {
  static const char *d = "0123456789ABCDEF";
  return std::string() + d[c >> 4] + d[c & 15];
}
bool failw(std::string *why, const std::string &s) {
  if (why) *why = s;
  return false;
}

// every byte must satisfy `ok`, or be the start of a well-formed pct-encoded triplet
bool check_chars(const uint8_t *p, size_t n, bool (*ok)(uint8_t), const char *comp, std::string *why) {
  for (size_t i = 0; i < n; i++) {
    if (p[i] == '%') {
      if (i + 2 >= n || !is_hex(p[i + 1]) || !is_hex(p[i + 2]))
        return failw(why, std::string(comp) + ": invalid percent-escape at offset " + num(i));
      i += 2;
    } else if (!ok(p[i])) {
      return failw(why, std::string(comp) + ": invalid byte 0x" + hex2(p[i]) + " at offset " + num(i));
    }
  }
  return true;
}

// ---- IP literals (RFC 3986 §3.2.2, RFC 6874) ---------------------------------------------------------------------
bool valid_ipv4(const std::string &t) {
  size_t i = 0, n = t.size();
  for (int part = 1;; part++) {
    size_t st = i;
    int v = 0;
    while (i < n && is_digit((uint8_t)t[i]) && i - st < 3) v = v * 10 + (t[i++] - '0');
    size_t len = i - st;
    if (len == 0 || (len > 1 && t[st] == '0') || v > 255) return false;   // dec-octet has no leading zeros
    if (part == 4) return i == n;
    if (i >= n || t[i] != '.') return false;
    i++;
  }
}

// colon separated h16 groups; the last one may be an IPv4address (= ls32, counts as two) when allowed
bool ip6_groups(const std::string &part, bool allow_v4_last, int &count) {
  count = 0;
  if (part.empty()) return true;
  size_t st = 0;
  for (;;) {
    size_t e = part.find(':', st);
    bool last = e == std::string::npos;
    std::string g = part.substr(st, last ? std::string::npos : e - st);
    if (last && allow_v4_last && g.find('.') != std::string::npos) {
      if (!valid_ipv4(g)) return false;
      count += 2;
    } else {
      if (g.empty() || g.size() > 4) return false;
      for (char c : g) if (!is_hex((uint8_t)c)) return false;
      count++;
    }
    if (last) return true;
    st = e + 1;
  }
}

bool valid_ipv6(const std::string &t) {
  size_t dc = t.find("::");
  int cl = 0, cr = 0;
  if (dc == std::string::npos) return ip6_groups(t, true, cl) && cl == 8;
  if (t.find("::", dc + 1) != std::string::npos) return false;            // second "::" (also catches ":::")
  if (!ip6_groups(t.substr(0, dc), false, cl) || !ip6_groups(t.substr(dc + 2), true, cr)) return false;
  return cl + cr <= 7;                                                    // "::" stands for at least one group
}

bool valid_ip_literal(const std::string &t, std::string *why) {
  if (t.empty()) return failw(why, "host: empty IP-literal");
  if (t[0] == 'v' || t[0] == 'V') {                                       // IPvFuture = "v" 1*HEXDIG "." 1*( unreserved / sub-delims / ":" )
    size_t i = 1;
    while (i < t.size() && is_hex((uint8_t)t[i])) i++;
    if (i == 1 || i >= t.size() || t[i] != '.') return failw(why, "host: invalid IPvFuture literal");
    i++;
    if (i >= t.size()) return failw(why, "host: invalid IPvFuture literal");
    for (; i < t.size(); i++) {
      uint8_t c = (uint8_t)t[i];
      if (!(is_unreserved(c) || is_subdelim(c) || c == ':')) return failw(why, "host: invalid IPvFuture literal");
    }
    return true;
  }
  std::string addr = t;
  size_t z = t.find('%');
  if (z != std::string::npos) {                                           // I4: IPv6addrz = IPv6address "%25" ZoneID
    if (t.compare(z, 3, "%25") != 0) return failw(why, "host: invalid percent-escape / zone in IP-literal (RFC 6874 wants \"%25\")");
    std::string zone = t.substr(z + 3);
    if (zone.empty()) return failw(why, "host: empty zone id");
    if (!check_chars((const uint8_t *)zone.data(), zone.size(), is_zone_char, "host", why)) return false;
    addr = t.substr(0, z);
  }
  if (!valid_ipv6(addr)) return failw(why, "host: invalid IPv6 address");
  return true;
}

struct SchemeInfo { const char *name; Scheme s; int port; bool proxy_only; };
const SchemeInfo kSchemes[] = {
  {"coap", COAP, 5683, false},        {"coaps", COAPS, 5684, false},          // RFC 7252 §6.1, §6.2
  {"coap+tcp", COAP_TCP, 5683, false}, {"coaps+tcp", COAPS_TCP, 5684, false}, // RFC 8323 §8.1, §8.2
  {"coap+ws", COAP_WS, 80, false},    {"coaps+ws", COAPS_WS, 443, false},     // RFC 8323 §8.3, §8.4
  {"http", HTTP, 80, true},           {"https", HTTPS, 443, true},
};

// a segment that is "." / ".." once "%2E" is read as "." (I3)
bool dot_segment(const std::string &seg, std::string &norm) {
  std::string t;
  for (size_t i = 0; i < seg.size(); i++) {
    if (seg[i] == '%' && i + 2 < seg.size() && seg[i + 1] == '2' && (seg[i + 2] == 'E' || seg[i + 2] == 'e')) {
      t += '.';
      i += 2;
    } else {
      t += seg[i];
    }
    if (t.size() > 2) return false;
  }
  if (t == "." || t == "..") { norm = t; return true; }
  return false;
}

std::string encode(const Bytes &seg, bool (*plain)(uint8_t)) {
  std::string s;
  for (uint8_t c : seg) {
    if (plain(c)) s += (char)c;
    else { s += '%'; s += hex2(c); }
  }
  return s;
}
bool plain_in_query_arg(uint8_t c) { return is_query_char(c) && c != '&'; }

}  // namespace

const char *scheme_name(Scheme s) {
  for (auto &k : kSchemes) if (k.s == s) return k.name;
  return "";
}
int default_port(Scheme s) {
  for (auto &k : kSchemes) if (k.s == s) return k.port;
  return 0;
}

bool pct_decode(const uint8_t *p, size_t n, Bytes &out) {
  out.clear();
  for (size_t i = 0; i < n; i++) {
    if (p[i] == '%') {
      if (i + 2 >= n || !is_hex(p[i + 1]) || !is_hex(p[i + 2])) return false;
      out.push_back((uint8_t)(hexval(p[i + 1]) << 4 | hexval(p[i + 2])));
      i += 2;
    } else {
      out.push_back(p[i]);
    }
  }
  return true;
}

bool split_uri(const Bytes &in, Uri &out, std::string *why, bool *fragment, bool allow_http) {
  out = Uri();
  if (fragment) *fragment = false;
  if (why) why->clear();
  const uint8_t *s = in.data();
  const size_t n = in.size();
  if (n == 0) return failw(why, "input: empty");
  size_t pos = 0;

  if (s[0] == '/') {
    // absolute-path reference: path-absolute [ "?" query ]
    if (allow_http) return failw(why, "input: a proxy URI must be an absolute-URI (RFC 7252 5.10.2)");           // I5
    if (n >= 2 && s[1] == '/') return failw(why, "authority: network-path reference without a scheme");           // I6
  } else {
    // scheme = ALPHA *( ALPHA / DIGIT / "+" / "-" / "." ) ":"   (RFC 3986 §3.1; case-insensitive)
    if (!is_alpha(s[0])) return failw(why, "scheme: input starts neither with a scheme nor with '/'");
    size_t i = 1;
    while (i < n && is_scheme_char(s[i])) i++;
    if (i >= n || s[i] != ':') return failw(why, "scheme: not terminated by ':'");
    std::string name;
    for (size_t k = 0; k < i; k++) name += (char)(is_alpha(s[k]) ? (s[k] | 0x20) : s[k]);
    const SchemeInfo *si = nullptr;
    for (auto &k : kSchemes) if (name == k.name) si = &k;
    if (!si) return failw(why, "scheme: unknown scheme \"" + name + "\"");
    if (si->proxy_only && !allow_http) return failw(why, "scheme: \"" + name + "\" is only acceptable in a proxy URI");
    out.scheme = si->s;
    out.port = si->port;
    pos = i + 1;
    // coap-URI = "coap:" "//" host [ ":" port ] path-abempty [ "?" query ]   (RFC 7252 §6.1; same shape for the others)
    if (!(pos + 1 < n && s[pos] == '/' && s[pos + 1] == '/')) return failw(why, "authority: scheme is not followed by \"//\"");
    pos += 2;
    const size_t a0 = pos;
    while (pos < n && s[pos] != '/' && s[pos] != '?' && s[pos] != '#') pos++;
    const size_t a1 = pos;
    if (a0 == a1) return failw(why, "host: empty");
    for (size_t k = a0; k < a1; k++)
      if (s[k] == '@') return failw(why, "authority: userinfo is not part of a CoAP URI");                       // I2
    size_t p;
    if (s[a0] == '[') {
      size_t rb = a0 + 1;
      while (rb < a1 && s[rb] != ']') rb++;
      if (rb >= a1) return failw(why, "host: IP-literal not terminated by ']'");
      std::string lit(s + a0 + 1, s + rb);
      if (!valid_ip_literal(lit, why)) return false;
      out.host.assign(s + a0 + 1, s + rb);
      out.host_is_ip6_literal = true;
      p = rb + 1;
      if (p < a1 && s[p] != ':') return failw(why, "authority: unexpected bytes after IP-literal");
    } else {
      p = a0;
      while (p < a1 && s[p] != ':') p++;
      if (p == a0) return failw(why, "host: empty");
      if (!check_chars(s + a0, p - a0, is_regname_char, "host", why)) return false;
      out.host.assign(s + a0, s + p);
    }
    if (p < a1) {            // s[p] == ':' ; port = *DIGIT, empty means default (RFC 3986 §3.2.3, §6.2.3)
      p++;
      if (p < a1) {
        long v = 0;
        for (size_t k = p; k < a1; k++) {
          if (!is_digit(s[k])) return failw(why, "port: non-digit 0x" + hex2(s[k]));
          if (v <= 65535) v = v * 10 + (s[k] - '0');
        }
        if (v > 65535) return failw(why, "port: larger than 65535");
        out.port = (int)v;
        out.port_given = true;
      }
    }
  }

  // path-abempty / path-absolute
  if (pos < n && s[pos] == '/') {
    size_t st = ++pos;
    while (pos < n && s[pos] != '?' && s[pos] != '#') pos++;
    if (!check_chars(s + st, pos - st, is_path_char, "path", why)) return false;
    out.path.assign(s + st, s + pos);
  }
  if (pos < n && s[pos] == '?') {
    size_t st = ++pos;
    while (pos < n && s[pos] != '#') pos++;
    if (!check_chars(s + st, pos - st, is_query_char, "query", why)) return false;
    out.query.assign(s + st, s + pos);
    out.has_query = true;
  }
  if (pos < n) {             // s[pos] == '#'
    size_t st = ++pos;
    if (!check_chars(s + st, n - st, is_query_char, "fragment", why)) return false;
    if (why) *why = "fragment: a CoAP URI has no fragment (RFC 7252 6.1, 6.4 step 4)";                            // I1
    if (!fragment) return false;
    *fragment = true;
  }
  return true;
}

bool host_to_option(const Bytes &host, Bytes &out, std::string *why) {
  if (!pct_decode(host.data(), host.size(), out)) return failw(why, "host: invalid percent-escape");
  for (auto &c : out) if (c >= 'A' && c <= 'Z') c |= 0x20;
  return true;
}

std::string remove_dot_segments(const std::string &path) {
  std::string in = path, out;
  auto starts = [&](const char *pfx) { return in.compare(0, strlen(pfx), pfx) == 0; };
  auto pop = [&]() {                         // remove the last segment and its preceding "/" (if any) from the output
    size_t k = out.rfind('/');
    if (k == std::string::npos) out.clear(); else out.erase(k);
  };
  while (!in.empty()) {
    if (starts("../")) in.erase(0, 3);                                  // 2A
    else if (starts("./")) in.erase(0, 2);
    else if (starts("/./")) in.erase(0, 2);                             // 2B
    else if (in == "/.") in = "/";
    else if (starts("/../")) { in.erase(0, 3); pop(); }                 // 2C
    else if (in == "/..") { in = "/"; pop(); }
    else if (in == "." || in == "..") in.clear();                       // 2D
    else {                                                              // 2E
      size_t e = in.find('/', in[0] == '/' ? 1 : 0);
      if (e == std::string::npos) e = in.size();
      out.append(in, 0, e);
      in.erase(0, e);
    }
  }
  return out;
}

bool path_to_segments(const Bytes &path, std::vector<Bytes> &segs, std::string *why) {
  segs.clear();
  if (why) why->clear();
  if (!check_chars(path.data(), path.size(), is_path_char, "path", why)) return false;
  // rebuild "/" path with %2E-spelled dot segments normalised (I3), then RFC 3986 §5.2.4 (RFC 7252 §6.4 step 2)
  std::string full, norm;
  size_t st = 0;
  for (;;) {
    size_t e = st;
    while (e < path.size() && path[e] != '/') e++;
    std::string seg(path.begin() + st, path.begin() + e);
    full += '/';
    full += dot_segment(seg, norm) ? norm : seg;
    if (e >= path.size()) break;
    st = e + 1;
  }
  full = remove_dot_segments(full);
  if (full.empty() || full == "/") return true;                          // §6.4 step 8: no Uri-Path option at all
  st = 1;
  for (;;) {
    size_t e = full.find('/', st);
    if (e == std::string::npos) e = full.size();
    Bytes v;
    if (!pct_decode((const uint8_t *)full.data() + st, e - st, v)) return failw(why, "path: invalid percent-escape");
    segs.push_back(v);
    if (e >= full.size()) break;
    st = e + 1;
  }
  return true;
}

bool query_to_segments(const Bytes &query, std::vector<Bytes> &segs, std::string *why) {
  segs.clear();
  if (why) why->clear();
  if (!check_chars(query.data(), query.size(), is_query_char, "query", why)) return false;
  if (query.empty()) return true;                                        // I8
  size_t st = 0;
  for (;;) {
    size_t e = st;
    while (e < query.size() && query[e] != '&') e++;
    Bytes v;
    if (!pct_decode(query.data() + st, e - st, v)) return failw(why, "query: invalid percent-escape");
    segs.push_back(v);
    if (e >= query.size()) break;
    st = e + 1;
  }
  return true;
}

std::string segments_to_path(const std::vector<Bytes> &segs) {
  if (segs.size() == 1 && segs[0].empty()) return "";
  std::string s;
  for (size_t i = 0; i < segs.size(); i++) {
    if (i) s += '/';
    s += encode(segs[i], is_pchar);
  }
  return s;
}

std::string segments_to_query(const std::vector<Bytes> &segs) {
  std::string s;
  for (size_t i = 0; i < segs.size(); i++) {
    if (i) s += '&';
    s += encode(segs[i], plain_in_query_arg);
  }
  return s;
}

// ---- self test ----------------------------------------------------------------------------------------------------
namespace {
Bytes B(const std::string &s) { return Bytes(s.begin(), s.end()); }
std::string S(const Bytes &b) { return std::string(b.begin(), b.end()); }
std::string show(const std::vector<Bytes> &v) {
  std::string s = "[";
  for (size_t i = 0; i < v.size(); i++) s += (i ? "," : "") + hex(v[i]);
  return s + "]";
}
std::vector<Bytes> V(std::initializer_list<const char *> l) {
  std::vector<Bytes> v;
  for (auto *c : l) v.push_back(B(c));
  return v;
}
}  // namespace

std::string selftest() {
#define CHECK(cond, msg) do { if (!(cond)) return std::string("r10 selftest: ") + (msg) + " [" #cond "]"; } while (0)
  std::string why;
  Uri u;
  std::vector<Bytes> segs, q;

  // --- RFC 7252 §6.3: the three equivalent URIs (plus the example.net spelling used in the harness corpus)
  {
    const char *eq[] = {"coap://example.com:5683/~sensors/temp.xml", "coap://EXAMPLE.com/%7Esensors/temp.xml",
                        "coap://EXAMPLE.com:/%7esensors/temp.xml", "coap://EXAMPLE.com:5683/%7Esensors/temp.xml"};
    const bool given[] = {true, false, false, true};
    for (int i = 0; i < 4; i++) {
      CHECK(split_uri(B(eq[i]), u, &why), std::string(eq[i]) + ": " + why);
      CHECK(u.scheme == COAP && u.port == 5683 && u.port_given == given[i] && !u.host_is_ip6_literal, eq[i]);
      CHECK(S(u.host) == (i == 0 ? "example.com" : "EXAMPLE.com"), "host must be exposed as written");
      Bytes h;
      CHECK(host_to_option(u.host, h) && S(h) == "example.com", "Uri-Host normalisation");
      CHECK(path_to_segments(u.path, segs, &why) && segs == V({"~sensors", "temp.xml"}), std::string(eq[i]) + " path " + show(segs));
      CHECK(query_to_segments(u.query, q) && q.empty() && !u.has_query, "no query");
      CHECK(segments_to_path(segs) == "~sensors/temp.xml", "6.5 composition of 6.3 example");
    }
    CHECK(split_uri(B("coap://example.net:5683/~sensors/temp.xml"), u, &why) && S(u.host) == "example.net" && u.port_given, why);
    CHECK(path_to_segments(u.path, segs) && segs == V({"~sensors", "temp.xml"}), "example.net path");
  }
  // --- RFC 7252 §6.5 examples, read in the §6.4 direction
  CHECK(split_uri(B("coap://[2001:db8::2:1]/"), u, &why), why);
  CHECK(u.host_is_ip6_literal && S(u.host) == "2001:db8::2:1" && u.port == 5683 && !u.port_given && u.path.empty(), "ip6 literal");
  CHECK(path_to_segments(u.path, segs) && segs.empty(), "\"/\" gives no Uri-Path");
  CHECK(split_uri(B("coap://example.net"), u, &why) && u.path.empty() && path_to_segments(u.path, segs) && segs.empty(), "empty path");
  CHECK(split_uri(B("coap://example.net/.well-known/core"), u, &why), why);
  CHECK(path_to_segments(u.path, segs) && segs == V({".well-known", "core"}), ".well-known/core");
  {
    const char *k = "coap://xn--18j4d.example/%E3%81%93%E3%82%93%E3%81%AB%E3%81%A1%E3%81%AF";
    CHECK(split_uri(B(k), u, &why), why);
    CHECK(path_to_segments(u.path, segs) && segs.size() == 1 && segs[0].size() == 15 && hex(segs[0]) == "e38193e38293e381abe381a1e381af", "konnichiwa");
    CHECK(segments_to_path(segs) == "%E3%81%93%E3%82%93%E3%81%AB%E3%81%A1%E3%81%AF", "konnichiwa composition (upper case hex)");
  }
  {
    // RFC text shows the query as "?%2F%2F&?%26"; the §6.5 step 7 algorithm itself leaves '/' alone. Both decode alike.
    CHECK(split_uri(B("coap://198.51.100.1:61616//%2F//?%2F%2F&?%26"), u, &why), why);
    CHECK(S(u.host) == "198.51.100.1" && u.port == 61616 && u.port_given && S(u.path) == "/%2F//" && S(u.query) == "%2F%2F&?%26" && u.has_query, "6.5 last example split");
    CHECK(path_to_segments(u.path, segs, &why) && segs == V({"", "/", "", ""}), "6.5 last example path " + show(segs));
    CHECK(query_to_segments(u.query, q, &why) && q == V({"//", "?&"}), "6.5 last example query " + show(q));
    CHECK(segments_to_path(segs) == "/%2F//", "6.5 last example path composition");
    CHECK(segments_to_query(q) == "//&?%26", "6.5 last example query composition");
    std::vector<Bytes> q2;
    CHECK(query_to_segments(B(segments_to_query(q)), q2) && q2 == q, "query round trip");
  }
  // --- schemes, default ports (RFC 7252 §6.1/6.2, RFC 8323 §8)
  {
    struct { const char *uri; Scheme s; int port; } t[] = {
      {"coap://h", COAP, 5683}, {"coaps://h", COAPS, 5684}, {"coap+tcp://h", COAP_TCP, 5683}, {"coaps+tcp://h", COAPS_TCP, 5684},
      {"coap+ws://h", COAP_WS, 80}, {"coaps+ws://h", COAPS_WS, 443}, {"CoAP://h", COAP, 5683}, {"COAPS+TCP://h", COAPS_TCP, 5684},
    };
    for (auto &e : t) {
      CHECK(split_uri(B(e.uri), u, &why), std::string(e.uri) + ": " + why);
      CHECK(u.scheme == e.s && u.port == e.port && !u.port_given && default_port(e.s) == e.port, e.uri);
    }
    CHECK(!split_uri(B("http://h/x"), u, &why) && why.rfind("scheme:", 0) == 0, "http needs allow_http");
    CHECK(split_uri(B("http://h/x"), u, &why, nullptr, true) && u.scheme == HTTP && u.port == 80, "http proxy uri");
    CHECK(split_uri(B("HTTPS://h:8443/x?y"), u, &why, nullptr, true) && u.scheme == HTTPS && u.port == 8443 && S(u.query) == "y", "https proxy uri");
    CHECK(!split_uri(B("/x"), u, &why, nullptr, true), "proxy uri must be absolute");
    CHECK(std::string(scheme_name(COAPS_WS)) == "coaps+ws" && std::string(scheme_name(NONE)).empty(), "scheme_name");
  }
  // --- ports
  CHECK(split_uri(B("coap://h:/"), u) && u.port == 5683 && !u.port_given, "empty port = default");
  CHECK(split_uri(B("coaps://h:"), u) && u.port == 5684 && !u.port_given, "empty port = default, no path");
  CHECK(split_uri(B("coap://h:65535/"), u) && u.port == 65535 && u.port_given, "max port");
  CHECK(split_uri(B("coap://h:005683"), u) && u.port == 5683 && u.port_given, "leading zeros");
  CHECK(split_uri(B("coap://h:0/"), u) && u.port == 0 && u.port_given, "port 0 is syntactically valid");
  CHECK(split_uri(B("coap://[::1]:61616/a"), u) && u.port == 61616 && S(u.host) == "::1" && S(u.path) == "a", "ip6 with port");
  CHECK(split_uri(B("coap://h?a=b"), u, &why) && u.path.empty() && S(u.query) == "a=b", "query directly after host: " + why);
  CHECK(split_uri(B("coap://[::1]?a=b"), u, &why) && S(u.query) == "a=b", "query directly after ip literal");
  CHECK(split_uri(B("coap://h/?"), u) && u.has_query && u.query.empty() && query_to_segments(u.query, q) && q.empty(), "empty query");
  CHECK(split_uri(B("coap://%41b.example/"), u) && S(u.host) == "%41b.example", "pct-encoded reg-name kept raw");
  { Bytes h; CHECK(host_to_option(u.host, h) && S(h) == "ab.example", "pct-encoded reg-name decoded + lower-cased"); }
  CHECK(split_uri(B("coap://h/a:b@c;d=e,f!$&'()*+"), u, &why), "all pchar accepted: " + why);
  // --- relative (absolute-path) form
  CHECK(split_uri(B("/a/b?x=1&y"), u, &why) && u.scheme == NONE && u.port == 0 && u.host.empty() && S(u.path) == "a/b" && S(u.query) == "x=1&y", "abs-path: " + why);
  CHECK(split_uri(B("/"), u) && u.path.empty() && !u.has_query, "abs-path root");
  CHECK(!split_uri(B("//h/x"), u, &why), "network-path reference");
  // --- malformed
  {
    struct { const char *uri; const char *comp; } bad[] = {
      {"", "input"}, {"coap:/x", "authority"}, {"coap:x", "authority"}, {"coap:", "authority"}, {"coap", "scheme"}, {"coap://", "host"},
      {"coap:///x", "host"}, {"coap://:5683/x", "host"}, {"coap://h:65536/", "port"}, {"coap://h:99999999999999999999999/", "port"},
      {"coap://h:12a/", "port"}, {"coap://h:-1/", "port"}, {"coap://h: 1/", "port"}, {"coap://h:1:2/", "port"}, {"coap://a:b:1/", "port"},
      {"coap://h/%zz", "path"}, {"coap://h/%4", "path"}, {"coap://h/%", "path"}, {"coap://h/%G1", "path"}, {"coap://h/a%4/b", "path"},
      {"coap://h/a b", "path"}, {"coap://h/a\"b", "path"}, {"coap://h/<a>", "path"}, {"coap://h/a\\b", "path"}, {"coap://h/\xc3\xa4", "path"},
      {"coap://h/a[1]", "path"}, {"coap://h/?a=%4", "query"}, {"coap://h/?a b", "query"}, {"coap://h/?a=%zz", "query"}, {"coap://h/?[", "query"},
      {"coap://[::1/x", "host"}, {"coap://[::1", "host"}, {"coap://[]/x", "host"}, {"coap://[zz]/x", "host"}, {"coap://[::1]x/", "authority"},
      {"coap://[1:2:3:4:5:6:7]/", "host"}, {"coap://[1::2::3]/", "host"}, {"coap://[fe80::1%eth0]/", "host"}, {"coap://::1/", "host"}, {"coap://1::2/", "port"},
      {"coap://user@h/x", "authority"}, {"coap://u:p@h/x", "authority"}, {"coap://h h/", "host"}, {"coap://h%zz/", "host"}, {"coap://h%4", "host"},
      {"foo://h/x", "scheme"}, {"coapx://h/x", "scheme"}, {"coap+udp://h/x", "scheme"}, {"://h/x", "scheme"}, {"1coap://h", "scheme"},
      {"co ap://h", "scheme"}, {"h/x", "scheme"}, {"?x", "scheme"}, {"x", "scheme"}, {" coap://h", "scheme"}, {"coap://h/a#b#c", "fragment"},
      {"coap://h/a#%4", "fragment"},
    };
    for (auto &e : bad) {
      bool frag = false;
      bool ok = split_uri(B(e.uri), u, &why, &frag);
      CHECK(!ok, std::string("must be rejected: \"") + e.uri + "\"");
      CHECK(why.rfind(std::string(e.comp) + ":", 0) == 0, std::string("\"") + e.uri + "\" wrong component in why: " + why);
    }
    CHECK(!split_uri(Bytes{'c', 'o', 'a', 'p', ':', '/', '/', 'h', '/', 0}, u, &why), "NUL in path");
    CHECK(!split_uri(Bytes{'c', 'o', 'a', 'p', ':', '/', '/', 'h', 0, '/'}, u, &why), "NUL in host");
  }
  // --- fragment (I1)
  {
    bool frag = false;
    CHECK(!split_uri(B("coap://h/a?b#c"), u, &why) && why.rfind("fragment:", 0) == 0, "fragment is invalid without the flag");
    CHECK(split_uri(B("coap://h/a?b#c"), u, &why, &frag) && frag && S(u.path) == "a" && S(u.query) == "b" && why.rfind("fragment:", 0) == 0, "fragment flag");
    CHECK(split_uri(B("coap://h#"), u, &why, &frag) && frag && u.path.empty(), "empty fragment after host");
    CHECK(split_uri(B("coap://h/a"), u, &why, &frag) && !frag && why.empty(), "no fragment");
  }
  // --- IP literals
  {
    const char *good[] = {"::", "::1", "1::", "1:2:3:4:5:6:7:8", "1:2:3:4:5:6:1.2.3.4", "::ffff:1.2.3.4", "::1.2.3.4", "1::1.2.3.4", "1:2:3:4:5:6:7::",
                          "::2:3:4:5:6:7:8", "1::3:4:5:6:7:8", "1:2:3:4:5::1.2.3.4", "2001:DB8::a", "fe80::1%25eth0", "fe80::1%25a%2Fb", "v1.x", "vF.a:b!", "V7.~"};
    const char *badl[] = {":::", "1:2:3:4:5:6:7", "1:2:3:4:5:6:7:8:9", "1::2::3", "12345::", "g::", "::1.2.3", "::1.2.3.256", "::01.2.3.4", "1:2:3:4:5:6:7::8",
                          "1:2:3:4:5:6:7:1.2.3.4", "1.2.3.4::", "1.2.3.4", ":1::2", "1::2:", "1:", ":", "fe80::1%eth0", "fe80::1%25", "fe80::1%25a/b", "v.x", "v1.", "v1", "vg.x",
                          "v1.a/b", "::1 ", "1:2:3:4:5:6:7:8::"};
    for (auto *g : good) CHECK(split_uri(B(std::string("coap://[") + g + "]/"), u, &why) && u.host_is_ip6_literal && S(u.host) == g, std::string("ip literal should be valid: ") + g + ": " + why);
    for (auto *b : badl) CHECK(!split_uri(B(std::string("coap://[") + b + "]/"), u, &why), std::string("ip literal should be invalid: ") + b);
  }
  // --- RFC 3986 §5.2.4 examples and §5.4 (merged with base path "/b/c/d;p", i.e. prefix "/b/c/")
  {
    struct { const char *in, *out; } t[] = {
      {"/a/b/c/./../../g", "/a/g"}, {"mid/content=5/../6", "mid/6"},
      // 5.4.1 normal
      {"/b/c/g", "/b/c/g"}, {"/b/c/./g", "/b/c/g"}, {"/b/c/g/", "/b/c/g/"}, {"/g", "/g"}, {"/b/c/", "/b/c/"}, {"/b/c/.", "/b/c/"}, {"/b/c/./", "/b/c/"},
      {"/b/c/..", "/b/"}, {"/b/c/../", "/b/"}, {"/b/c/../g", "/b/g"}, {"/b/c/../..", "/"}, {"/b/c/../../", "/"}, {"/b/c/../../g", "/g"},
      // 5.4.2 abnormal
      {"/b/c/../../../g", "/g"}, {"/b/c/../../../../g", "/g"}, {"/./g", "/g"}, {"/../g", "/g"}, {"/b/c/g.", "/b/c/g."}, {"/b/c/.g", "/b/c/.g"},
      {"/b/c/g..", "/b/c/g.."}, {"/b/c/..g", "/b/c/..g"}, {"/b/c/./../g", "/b/g"}, {"/b/c/./g/.", "/b/c/g/"}, {"/b/c/g/./h", "/b/c/g/h"},
      {"/b/c/g/../h", "/b/c/h"}, {"/b/c/g;x=1/./y", "/b/c/g;x=1/y"}, {"/b/c/g;x=1/../y", "/b/c/y"},
      // odds and ends
      {"", ""}, {"/", "/"}, {".", ""}, {"..", ""}, {"../a", "a"}, {"./a", "a"}, {"/.", "/"}, {"/..", "/"}, {"/...", "/..."}, {"/a//../b", "/a/b"}, {"//", "//"},
    };
    for (auto &e : t) CHECK(remove_dot_segments(e.in) == e.out, std::string("remove_dot_segments(") + e.in + ") = " + remove_dot_segments(e.in) + " want " + e.out);
  }
  // --- path decomposition
  {
    struct { const char *path; std::vector<Bytes> want; } t[] = {
      {"a/b/c/./../../g", V({"a", "g"})}, {"", {}}, {"a", V({"a"})}, {"a/", V({"a", ""})}, {"a//b", V({"a", "", "b"})}, {"/", V({"", ""})},
      {"a/b/..", V({"a", ""})}, {"a/.", V({"a", ""})}, {"a/..", {}}, {"a/../", {}}, {"..", {}}, {".", {}}, {"../../a", V({"a"})}, {"./a", V({"a"})},
      {"a/%2E%2E/b", V({"b"})}, {"a/%2e/b", V({"a", "b"})}, {"a/.%2E/b", V({"b"})}, {"a/%2e./b", V({"b"})}, {"...", V({"..."})}, {"%2E%2E%2E", V({"..."})},
      {"a/%2E%2Ex/b", V({"a", "..x", "b"})}, {"a%2Fb/c", V({"a/b", "c"})}, {"%25", V({"%"})}, {"%2525", V({"%25"})}, {"a/.b/c.", V({"a", ".b", "c."})},
      {"a/b/../../../c/", V({"c", ""})}, {"%41%7a%7E", V({"Az~"})}, {"x;y=1/z", V({"x;y=1", "z"})},
    };
    for (auto &e : t) {
      CHECK(path_to_segments(B(e.path), segs, &why), std::string("path \"") + e.path + "\": " + why);
      CHECK(segs == e.want, std::string("path \"") + e.path + "\" gives " + show(segs) + " want " + show(e.want));
      for (auto &s : segs) CHECK(S(s) != "." && S(s) != "..", "dot segment emitted");
    }
    CHECK(path_to_segments(B("%00/a"), segs) && segs.size() == 2 && segs[0] == Bytes{0}, "%00 decodes to a NUL byte");
    const char *badp[] = {"%zz", "%4", "%", "%G1", "a/%1", "a/b%", "a b", "a?b", "a#b", "\x80", "a/%2", "%2E%2"};
    for (auto *b : badp) CHECK(!path_to_segments(B(b), segs, &why) && why.rfind("path:", 0) == 0, std::string("path must fail: ") + b);
    CHECK(split_uri(B("coap://h/a/b/c/./../../g"), u) && path_to_segments(u.path, segs) && segs == V({"a", "g"}), "/a/b/c/./../../g via split_uri");
  }
  // --- query decomposition
  {
    struct { const char *query; std::vector<Bytes> want; } t[] = {
      {"", {}}, {"a", V({"a"})}, {"a&&b", V({"a", "", "b"})}, {"&", V({"", ""})}, {"a=1&b=%26", V({"a=1", "b=&"})}, {"a;b", V({"a;b"})},
      {"a/b?c", V({"a/b?c"})}, {"%3D=%3d", V({"==="})}, {"x=%25%32%35", V({"x=%25"})}, {"a&", V({"a", ""})}, {"../.", V({"../."})},
    };
    for (auto &e : t) {
      CHECK(query_to_segments(B(e.query), q, &why), std::string("query \"") + e.query + "\": " + why);
      CHECK(q == e.want, std::string("query \"") + e.query + "\" gives " + show(q) + " want " + show(e.want));
    }
    const char *badq[] = {"%zz", "a=%4", "%", "a b", "a#b", "a=\xff", "a=%G1&b"};
    for (auto *b : badq) CHECK(!query_to_segments(B(b), q, &why) && why.rfind("query:", 0) == 0, std::string("query must fail: ") + b);
  }
  // --- composition (RFC 7252 §6.5 steps 6, 7)
  {
    CHECK(segments_to_path({}) == "" && segments_to_path(V({""})) == "", "no segment / single empty segment");
    CHECK(segments_to_path(V({"", ""})) == "/" && segments_to_path(V({"a", ""})) == "a/" && segments_to_path(V({"", "a"})) == "/a", "empty segments");
    CHECK(segments_to_path(V({"a/b", "c?d", "e#f", "g%h", "i j"})) == "a%2Fb/c%3Fd/e%23f/g%25h/i%20j", "path escapes");
    CHECK(segments_to_path(V({"-._~!$&'()*+,;=:@", "AZaz09"})) == "-._~!$&'()*+,;=:@/AZaz09", "pchar stays");
    CHECK(segments_to_path({Bytes{0x00, 0x7f, 0x80, 0xff, '"', '<', '>', '[', ']', '\\', '^', '`', '{', '|', '}'}}) == "%00%7F%80%FF%22%3C%3E%5B%5D%5C%5E%60%7B%7C%7D", "non-pchar escaped, upper case hex");
    CHECK(segments_to_query({}) == "" && segments_to_query(V({""})) == "" && segments_to_query(V({"", ""})) == "&", "empty query args");
    CHECK(segments_to_query(V({"a=b&c", "d/e?f", "g#h", "i%j", "k l"})) == "a=b%26c&d/e?f&g%23h&i%25j&k%20l", "query escapes");
    CHECK(segments_to_query(V({"-._~!$'()*+,;=:@/?"})) == "-._~!$'()*+,;=:@/?", "query plain set");
  }
  // --- round trip: options -> text -> options, for arbitrary bytes
  {
    Rng rng(0x7252);
    for (int it = 0; it < 2000; it++) {
      std::vector<Bytes> a;
      size_t n = (size_t)rng.range(0, 5);
      for (size_t i = 0; i < n; i++) {
        Bytes s;
        size_t len = (size_t)rng.range(0, 6);
        for (size_t k = 0; k < len; k++) s.push_back(rng.chance(0.5) ? (uint8_t)"./%&?#=a~ "[rng.below(10)] : (uint8_t)rng.below(256));
        a.push_back(s);
      }
      std::vector<Bytes> back;
      std::string t = segments_to_query(a);
      CHECK(query_to_segments(B(t), back, &why), "query round trip parse: " + t + ": " + why);
      CHECK(back == a || (a.size() == 1 && a[0].empty() && back.empty()), "query round trip: " + t + " " + show(a) + " -> " + show(back));
      bool dots = false;
      for (auto &s : a) dots |= S(s) == "." || S(s) == "..";
      if (dots) continue;                      // illegal option values (RFC 7252 §5.10.1)
      t = segments_to_path(a);
      CHECK(path_to_segments(B(t), back, &why), "path round trip parse: " + t + ": " + why);
      CHECK(back == a || (a.size() == 1 && a[0].empty() && back.empty()), "path round trip: " + t + " " + show(a) + " -> " + show(back));
      // and as part of a full URI
      Uri w;
      CHECK(split_uri(B("coap://h/" + t + "?" + segments_to_query(a)), w, &why), "full uri round trip: " + why);
      CHECK(S(w.path) == t && S(w.query) == segments_to_query(a), "full uri round trip components");
    }
  }
#undef CHECK
  return "";
}

}  // namespace r10
