/* Size and address of libcoap's process-wide lock (coap_lock_t global_lock), or 0 when the build has no locking.
 * The simulator runs several nodes (= processes) in one address space; each node gets its own image of this object
 * (World::AsNode swaps it), otherwise a node that blocks inside libcoap would hold "the" lock of every other process. */
#include "coap3/coap_libcoap_build.h"
#include <stddef.h>
#if COAP_THREAD_SAFE
size_t verif_lock_size(void) { return sizeof(global_lock); }
void *verif_lock_addr(void) { return &global_lock; }
#else
size_t verif_lock_size(void) { return 0; }
void *verif_lock_addr(void) { return NULL; }
#endif
