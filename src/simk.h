// simk — the simulated kernel libcoap runs on (see DESIGN.md §2).
// All libc entry points that touch time, network, readiness, allocator, files and
// randomness are redirected here at link time (-Wl,--wrap=sym, or by strong symbol
// definition for clock_gettime/time/getrandom which GnuTLS imports through the PLT).
#pragma once
#include <cstdint>
#include <cstddef>
#include <string>
#include <vector>
#include <deque>
#include <map>
#include <functional>
#include <netinet/in.h>
#include <sys/epoll.h>

namespace simk {

using Bytes = std::vector<uint8_t>;

struct Addr {            // IPv4 only inside the simulation (host byte order)
  uint32_t ip = 0;
  uint16_t port = 0;
  bool operator==(const Addr &o) const { return ip == o.ip && port == o.port; }
  bool operator!=(const Addr &o) const { return !(*this == o); }
  bool operator<(const Addr &o) const { return ip != o.ip ? ip < o.ip : port < o.port; }
  std::string str() const;
};

inline uint32_t ip4(int a, int b, int c, int d) {
  return ((uint32_t)a << 24) | ((uint32_t)b << 16) | ((uint32_t)c << 8) | (uint32_t)d;
}
inline bool is_mcast(uint32_t ip) { return (ip >> 28) == 0xE; }

enum FdKind { FD_FREE = 0, FD_DGRAM, FD_STREAM, FD_LISTEN, FD_EPOLL, FD_TIMER };

struct Datagram {
  Addr src, dst;
  Bytes data;
  uint64_t id = 0;   // global sequence number of the send call that produced it
};

struct Stream;  // one direction-pair connection

struct Fd {
  FdKind kind = FD_FREE;
  int node = -1;           // owning node (the node that was current at creation)
  bool nonblock = false;
  // sockets
  bool bound = false, connected = false;
  Addr local, peer;
  bool pktinfo = false;
  std::vector<uint32_t> groups;      // multicast memberships
  std::deque<Datagram> rxq;          // datagram receive queue
  int pending_err = 0;               // e.g. ECONNREFUSED (ICMP) reported on next recv
  // stream
  Stream *st = nullptr;
  int side = 0;                      // 0 = connecting side, 1 = accepted side
  int so_error = 0;
  bool connecting = false;           // connect() issued, not completed
  bool conn_done = false;            // completion (success/failure) ready to report
  // listen
  std::deque<Stream *> acceptq;
  // epoll
  struct Interest { uint32_t events; uint64_t data; };
  std::map<int, Interest> interest;
  // timerfd
  uint64_t expiry_ns = 0;            // 0 = disarmed
};

struct Stream {
  uint64_t id = 0;
  Addr a[2];                 // a[0] = client address, a[1] = server address
  int fd[2] = {-1, -1};      // fd per side (-1 once closed)
  int node[2] = {-1, -1};
  std::deque<uint8_t> rx[2]; // bytes readable at side i
  bool fin[2] = {false, false};   // side i has received FIN (peer closed)
  bool rst[2] = {false, false};   // side i sees connection reset
  bool established = false;
  uint64_t sent[2] = {0, 0};      // bytes side i has written so far
  uint64_t inflight[2] = {0, 0};  // bytes on their way to side i
  int refs = 0;
};

// How the simulated network treats traffic is decided by the world through these hooks.
struct NetHooks {
  // A datagram was handed to send(); deliver copies via simk::deliver_datagram().
  std::function<void(const Datagram &, int from_node)> on_datagram;
  // Stream bytes were written by side `side`; hand them over with simk::deliver_stream().
  std::function<void(Stream *, int side, const Bytes &)> on_stream_data;
  // Stream connect issued: complete with simk::complete_connect().
  std::function<void(int fd, Addr dst)> on_connect;
  // Side closed: propagate FIN with simk::deliver_fin().
  std::function<void(Stream *, int side)> on_stream_close;
  // Max bytes the next recv() on this stream side may return (0 = no limit).
  std::function<size_t(Stream *, int side, size_t want, size_t avail)> read_cut;
  // Max bytes the next send() on this stream side may accept; return 0 for EAGAIN, SIZE_MAX no limit.
  std::function<size_t(Stream *, int side, size_t len)> write_cut;
  // True while side `side` of the stream cannot take more bytes (peer's window closed): not writable, send() gives EAGAIN.
  std::function<bool(Stream *, int side)> write_blocked;
  // A would-block wait: run the rest of the world until pred() or timeout. Returns when done.
  std::function<void(int node, std::function<bool()> ready, int64_t timeout_ms)> block;
  // called for each allocation; return true to fail it.
  std::function<bool(int type, size_t size)> fail_alloc;
  // a blocking epoll_wait that has waited: true = a signal handler ran meanwhile, the call returns -1/EINTR
  std::function<bool()> epoll_eintr;
  // schedule preemption point (C13)
  std::function<void(const char *what)> yield;
  // exit() reached
  std::function<void(int code)> on_exit;
};

struct AllocStats {
  uint64_t calls = 0, failed = 0;
  int64_t live = 0;          // live objects allocated through coap_malloc_type
  int64_t live_by_type[32] = {0};
};

struct Kernel {
  uint64_t now_ns = 0;
  int cur_node = 0;
  std::vector<Fd> fds;           // indexed by fd - FD_BASE
  uint64_t dgram_seq = 0, stream_seq = 0;
  std::map<int, uint16_t> next_port;   // per node ephemeral port counter
  std::map<int, uint32_t> node_ip;
  std::vector<Stream *> streams;
  NetHooks hooks;
  AllocStats alloc;
  bool alloc_track = true;
  uint64_t syscalls = 0;
  int pending_send_errno = 0;    // set by the world while it handles a datagram: the send call that produced it fails with this errno
  bool icmp_recv_only = false;   // a pending ICMP error is reported by recv()/recvmsg() only, never by send() (worlds whose oracle counts wire transmissions)
  int exit_called = 0;
  int exit_code = 0;
  uint64_t sysrng_state = 0x1234567, sysrng_word = 0, sysrng_pos = 0;   // getrandom() stream
};

constexpr int FD_BASE = 600;
constexpr int FD_MAX = 1023;
constexpr uint64_t EPOCH_NS = 1700000000ull * 1000000000ull;

Kernel &K();
void reset();                            // wipe every table; clock back to EPOCH
Fd *get(int fd);                         // nullptr if not a simulated fd
void set_node_ip(int node, uint32_t ip);
inline uint64_t now_ns() { return K().now_ns; }
inline uint64_t now_ms() { return (K().now_ns - EPOCH_NS) / 1000000ull; }

// delivery primitives used by the world
int  deliver_datagram(const Datagram &d);           // returns number of sockets it reached
void deliver_icmp_unreach(const Datagram &d);       // report ECONNREFUSED to the sender's connected socket
void complete_connect(int fd, bool ok);             // finish a non-blocking connect
void deliver_stream(Stream *s, int to_side, const Bytes &b);
void deliver_fin(Stream *s, int to_side, bool rst);

// readiness
bool fd_readable(int fd);
bool fd_writable(int fd);
bool node_ready(int node);               // some epoll interest of this node is ready (incl. expired timerfd)
uint64_t node_next_timer_ns(int node);   // earliest armed timerfd expiry of the node (0 = none)
int  epoll_collect(int epfd, struct epoll_event *ev, int maxev);
int  open_fds(int node);                 // number of simulated fds still open for a node (-1: all)

// raw-peer access (harness code acting as a peer uses the same kernel)
int  raw_udp_socket(int node, Addr local);
void raw_sendto(int fd, Addr dst, const Bytes &b);
void raw_send_from(int node, Addr src, Addr dst, const Bytes &b);   // spoofed / socket-less injection
bool raw_recv(int fd, Datagram &out);

// raw stream peers (harness code speaking TCP through the same simulated kernel)
int  raw_listen(int node, Addr local);                 // listening socket, -1 on error
int  raw_accept(int lfd);                              // accepted fd or -1 if nothing pending
int  raw_connect(int node, Addr dst);                  // non-blocking connect; usable once fd_writable()
bool raw_stream_read(int fd, Bytes &out, bool *eof = nullptr);   // appends whatever is readable; false if nothing
void raw_stream_write(int fd, const Bytes &b);
void raw_close(int fd);

// real time for the harness (clock_gettime is simulated)
uint64_t real_ns();

// allocator accounting
void alloc_reset();

}  // namespace simk
