// C13 — advertised thread safety: concurrent API use is serialised and never deadlocks.
// World: one libcoap context with a UDP endpoint (node 0); one real thread sits in coap_io_process(), 2..6 real worker
// threads issue generated API calls on the same context (client sessions to the context's own endpoint, requests, notify,
// resource add/delete, session reference/release); every callback type is registered and re-enters the API. The threads
// run under the baton scheduler (tsched): the plan's PRNG decides at every intercepted point who runs next.
#include "runner.h"
#include "world.h"
#include "coapx.h"
#include "tsched.h"
#include "isolate.h"

namespace {

struct C13World {
  World w;
  RunResult *res = nullptr;
  coap_context_t *ctx = nullptr;
  coap_resource_t *obs_res = nullptr;
  bool supported = false;
  bool stop = false;
  int workers_left = 0;
  std::map<int, int> got, want_chain;            // worker -> responses received / requests still to chain from the handler
  std::map<int, coap_session_t *> chain_session;
  int handler_runs = 0, events_seen = 0, nacks = 0;
  bool nested_callbacks = false;
};
C13World *g = nullptr;
thread_local int tl_cb_depth = 0;

struct Cb { Cb() { tl_cb_depth++; } ~Cb() { tl_cb_depth--; } };

// a harness-issued call of a locking public API function
struct Api {
  const char *name;
  uint64_t before;
  explicit Api(const char *n) : name(n), before(tsched::lock_ops_of(tsched::self())) {}
  ~Api() {
    if (!g || !g->supported || tl_cb_depth > 0 || tsched::self() < 0) return;
    if (tsched::lock_ops_of(tsched::self()) == before)
      g->res->violate("T.api_without_lock", name, strfmt("coap_threadsafe_is_supported() is 1, but %s() returned without a single mutex operation: library state is not protected against the other threads", name));
  }
};

void send_get(coap_session_t *s, int worker, int i, bool con) {
  coap_pdu_t *p;
  { Api a("coap_new_pdu"); p = coap_new_pdu(con ? COAP_MESSAGE_CON : COAP_MESSAGE_NON, COAP_REQUEST_CODE_GET, s); }
  if (!p) return;
  uint8_t tk[4] = {0xC1, 0x30, (uint8_t)worker, (uint8_t)i};
  coap_add_token(p, 4, tk);
  coap_add_option(p, COAP_OPTION_URI_PATH, 1, (const uint8_t *)"r");
  Api a("coap_send");
  coap_send(s, p);
}

void hnd_get(coap_resource_t *, coap_session_t *session, const coap_pdu_t *, const coap_string_t *, coap_pdu_t *response) {
  Cb cb;
  g->handler_runs++;
  // re-enter the API from the request handler
  (void)coap_session_get_addr_remote(session);
  coap_session_reference(session);
  coap_session_release(session);
  if (g->obs_res && (g->handler_runs % 3) == 0) coap_resource_notify_observers(g->obs_res, nullptr);
  coap_pdu_set_code(response, COAP_RESPONSE_CODE_CONTENT);
  coap_add_data(response, 2, (const uint8_t *)"ok");
}

void hnd_async(coap_resource_t *, coap_session_t *session, const coap_pdu_t *request, const coap_string_t *query, coap_pdu_t *response) {
  Cb cb;
  coap_async_t *async = coap_find_async(session, coap_pdu_get_token(request));
  if (!async) {
    unsigned long d = query && query->length ? (unsigned long)(query->s[0] - '0') : 1;
    if (d < 1 || d > 9) d = 1;
    if (!coap_register_async(session, request, COAP_TICKS_PER_SECOND * d)) coap_pdu_set_code(response, COAP_RESPONSE_CODE_SERVICE_UNAVAILABLE);
    return;
  }
  coap_pdu_set_code(response, COAP_RESPONSE_CODE_CONTENT);
  coap_add_data(response, 4, (const uint8_t *)"done");
}

coap_response_t resp_cb(coap_session_t *session, const coap_pdu_t *, const coap_pdu_t *rcv, const coap_mid_t) {
  Cb cb;
  Bytes tok = cx::tok_of(rcv);
  if (tok.size() == 4 && tok[0] == 0xC1 && tok[1] == 0x30) {
    int wk = tok[2];
    g->got[wk]++;
    // chain the next request from inside the response handler
    if (g->want_chain[wk] > 0 && g->chain_session[wk] == session) {
      g->want_chain[wk]--;
      send_get(session, wk, 100 + g->want_chain[wk], true);
    }
  }
  return COAP_RESPONSE_OK;
}

void nested_callback_work(coap_session_t *session, int n);
void nack_cb(coap_session_t *session, const coap_pdu_t *, const coap_nack_reason_t, const coap_mid_t) {
  Cb cb;
  g->nacks++;
  (void)coap_session_get_state(session);
  if (g->nested_callbacks) nested_callback_work(session, 1000 + g->nacks);
}

void cache_data_free_cb(void *data) {
  Cb cb;
  g->w.count("probe.nested_callback");
  free(data);
}
// A callback that libcoap makes with its lock held re-enters the API, and one of those calls makes libcoap run a second
// lock-held callback (the release callback of a cache entry's application data); further API calls follow after that one returned.
void nested_callback_work(coap_session_t *session, int n) {
  coap_pdu_t *p = coap_new_pdu(COAP_MESSAGE_NON, COAP_REQUEST_CODE_GET, session);
  if (!p) return;
  std::string nm = "ev" + std::to_string(n);
  coap_add_option(p, COAP_OPTION_URI_PATH, nm.size(), (const uint8_t *)nm.data());
  coap_cache_entry_t *ce = coap_new_cache_entry(session, p, COAP_CACHE_NOT_RECORD_PDU, COAP_CACHE_IS_SESSION_BASED, 0);
  if (ce) {
    coap_cache_set_app_data(ce, malloc(8), cache_data_free_cb);
    coap_delete_cache_entry(g->ctx, ce);
  }
  coap_delete_pdu(p);
  (void)coap_new_message_id(session);
  coap_session_reference(session);
  coap_session_release(session);
}

// ping / pong handlers: libcoap's own keep-alive ping on an idle datagram session is answered with a Reset by the peer (here: the
// context's own endpoint), which libcoap reports through the pong handler; both handlers re-enter the locking API
void pong_cb(coap_session_t *session, const coap_pdu_t *, const coap_mid_t) {
  Cb cb;
  g->w.count("probe.pong_handler");
  (void)coap_session_max_pdu_size(session);
  (void)coap_new_message_id(session);
  coap_session_reference(session);
  coap_session_release(session);
}
void ping_cb(coap_session_t *session, const coap_pdu_t *, const coap_mid_t) {
  Cb cb;
  g->w.count("probe.ping_handler");
  (void)coap_session_max_pdu_size(session);
  (void)coap_new_message_id(session);
}

int event_cb(coap_session_t *session, const coap_event_t ev) {
  Cb cb;
  g->events_seen++;
  if (ev == COAP_EVENT_SERVER_SESSION_NEW) { coap_session_reference(session); coap_session_release(session); }
  if (g->nested_callbacks && (ev == COAP_EVENT_SERVER_SESSION_NEW || ev == COAP_EVENT_SERVER_SESSION_DEL) && (g->events_seen % 2) == 0) nested_callback_work(session, g->events_seen);
  return 0;
}

struct C13 : Property {
  C13() {
    id = "C13";
    technique = "deterministic simulation of thread interleavings: real pthreads under a baton scheduler (only one runs; at every intercepted point - libcoap's pthread_mutex_lock/trylock/unlock through link-time wraps, blocking epoll_wait, every wrapped allocation and socket call, harness yields - the plan's PRNG picks who runs next; mutex ownership is modelled, simulated time advances only when no thread is runnable); oracle = lock discipline of every API call, no socket I/O outside a lock, deadlock detection, every request answered, all locks free at the end, sanitizers";
    rule_text = "plan = 2..6 worker threads x 1..6 ops each (client session to the context's own endpoint with 1-5 requests CON/NON, optionally chained from inside the response handler; bursts of 9-14 sessions answered at once (more than one epoll batch); observe registration; coap_resource_notify_observers; resource add+delete; cache entry create/lookup/delete; async (delayed) request; session reference/release) + one thread in coap_io_process(ctx, 100 ms) x pre-emption probability 0.1..0.9 x schedule seed; request, response, NACK and event handlers are registered and re-enter the API (reference/release, notify, send). Build configuration: the flavour ./check builds (CMake defaults of /repo's working tree). Non-trivial: at least 20 context switches and one contended lock; distinct = distinct schedule hash.";
    real_components = {"libcoap built by the repository's CMake defaults: coap_threadsafe.c global lock, every COAP_API wrapper (lock/unlock), callback release/re-entry logic (coap_lock_callback*), coap_io_process, session/resource/observe code under the lock; real pthreads and stacks"};
    stub_components = {"baton scheduler (choice of the running thread, modelled mutex ownership)", "simk clock/UDP/epoll"};
    assumptions = {"interleavings are explored at the granularity of the intercepted points, not of single instructions",
                   "only the CMake configuration is exercised (the autotools build needs autoreconf, not available offline)"};
    quick_budget_s = 35;
    thorough_budget_s = 600;
    run_timeout_s = 60;
  }

  json generate(uint64_t base, uint64_t index, bool) override {
    Rng r(mix3(base, 0xC13, index));
    json p;
    p["property"] = "C13";
    p["seed"] = base;
    p["index"] = index;
    p["sched_salt"] = r.next() & 0xffffffff;
    p["sched_seed"] = r.next() & 0xffffffff;
    static const double pp[] = {0.1, 0.3, 0.5, 0.9};
    p["preempt"] = pp[r.below(4)];
    p["nested_callbacks"] = r.chance(0.5);
    p["keepalive"] = r.chance(0.35);
    p["eintr"] = r.chance(0.5) ? 0.0 : r.chance(0.5) ? 0.05 : 0.3;      // probability that a blocking epoll_wait is interrupted by a signal (EINTR)
    int nw = (int)r.range(2, 6);
    json workers = json::array();
    for (int i = 0; i < nw; i++) {
      json ops = json::array();
      int n = (int)r.range(1, 6);
      for (int k = 0; k < n; k++) {
        double x = (r.next() >> 11) * (1.0 / 9007199254740992.0);
        if (x < 0.34) ops.push_back({{"op", "client"}, {"n", (int)r.range(1, 5)}, {"con", r.chance(0.6)}, {"chain", r.chance(0.3) ? (int)r.range(1, 3) : 0}});
        else if (x < 0.40) ops.push_back({{"op", "cache"}});
        else if (x < 0.44) ops.push_back({{"op", "async"}, {"delay_s", (int)r.range(1, 3)}});
        else if (x < 0.50) ops.push_back({{"op", "burst"}, {"n", (int)r.range(9, 14)}});     // many sockets readable in one epoll_wait (more than one batch of 10)
        else if (x < 0.57) ops.push_back({{"op", "observe"}});
        else if (x < 0.75) ops.push_back({{"op", "notify"}, {"times", (int)r.range(1, 4)}});
        else if (x < 0.9) ops.push_back({{"op", "resource"}, {"null_ctx", r.chance(0.5)}});   // coap_delete_resource(NULL, r) as in libcoap's own examples (the argument is documented as ignored)
        else ops.push_back({{"op", "yield"}, {"times", (int)r.range(1, 5)}});
      }
      workers.push_back(ops);
    }
    p["workers"] = workers;
    return p;
  }

  void execute(const json &plan, RunResult &res, bool verbose) override {
    run_isolated([&](RunResult &r) { execute_here(plan, r, verbose); }, res);
  }

  void execute_here(const json &plan, RunResult &res, bool verbose) {
    C13World cw;
    g = &cw;
    cw.res = &res;
    World &w = cw.w;
    w.begin(plan.value("sched_salt", 1ull), &res, verbose, false);
    cw.supported = coap_threadsafe_is_supported() != 0;
    cw.nested_callbacks = plan.value("nested_callbacks", false);
    w.count(cw.supported ? "probe.threadsafe_supported" : "probe.threadsafe_not_supported");
    w.add_node(nullptr);
    cw.ctx = cx::new_context(w, 0);
    {
      World::AsNode as(0);
      coap_register_response_handler(cw.ctx, resp_cb);
      coap_register_nack_handler(cw.ctx, nack_cb);
      coap_register_event_handler(cw.ctx, event_cb);
      coap_register_pong_handler(cw.ctx, pong_cb);
      coap_register_ping_handler(cw.ctx, ping_cb);
      if (plan.value("keepalive", false)) coap_context_set_keepalive(cw.ctx, 1);     // idle client sessions are pinged after 1 s
      coap_resource_t *r = coap_resource_init(coap_make_str_const("r"), 0);
      coap_register_request_handler(r, COAP_REQUEST_GET, hnd_get);
      coap_add_resource(cw.ctx, r);
      coap_resource_t *ra = coap_resource_init(coap_make_str_const("a"), 0);
      coap_register_request_handler(ra, COAP_REQUEST_GET, hnd_async);
      coap_add_resource(cw.ctx, ra);
      coap_resource_t *o = coap_resource_init(coap_make_str_const("obs"), COAP_RESOURCE_FLAGS_NOTIFY_NON);
      coap_register_request_handler(o, COAP_REQUEST_GET, hnd_get);
      coap_resource_set_get_observable(o, 1);
      coap_add_resource(cw.ctx, o);
      cw.obs_res = o;
    }
    cx::new_endpoint(w, 0, cw.ctx, 5683, COAP_PROTO_UDP);
    if (!cw.supported) {
      // the property is vacuous for a build that does not advertise thread safety
      w.count("probe.vacuous_build");
      World::AsNode as(0);
      coap_free_context(cw.ctx);
      w.end();
      g = nullptr;
      return;
    }
    simk::K().cur_node = 0;
    tsched::start(plan.value("sched_seed", 1ull), plan.value("preempt", 0.3),
                  [&]() { return w.now(); },
                  [&]() { return simk::node_next_timer_ns(0); },
                  [&](uint64_t limit) {
                    bool r = w.advance_one(limit);
                    while (w.next_event_ns() <= w.now()) w.advance_one(w.now());     // everything due in this instant has happened before a thread looks
                    return r;
                  });
    simk::K().hooks.block = [](int, std::function<bool()> ready, int64_t to_ms) { tsched::wait(std::move(ready), to_ms); };
    Rng sig_rng(mix3(plan.value("sched_seed", 1ull), 0x516, 7));
    double p_eintr = plan.value("eintr", 0.0);
    simk::K().hooks.epoll_eintr = [&]() {
      if (tsched::self() < 0 || p_eintr <= 0 || !sig_rng.chance(p_eintr)) return false;
      w.count("fault.epoll_wait_eintr");
      return true;
    };
    simk::K().hooks.yield = [&](const char *what) {
      int me = tsched::self();
      if (me >= 0 && (!strcmp(what, "send") || !strcmp(what, "recv")) && tsched::locks_held_by(me) == 0)
        res.violate("T.io_without_lock", what, strfmt("a thread performs socket %s inside libcoap while it holds no lock", what));
      tsched::yield(what);
    };
    // a scripted UDP peer (node 1) that answers bursts all at once, so that more than one epoll batch of sockets is readable
    w.add_node(nullptr);
    int peer_fd = simk::raw_udp_socket(1, World::node_addr(1, 6000));
    tsched::spawn("peer", [&, peer_fd]() {
      std::vector<simk::Datagram> batch;
      uint64_t first_ns = 0;
      while (!cw.stop) {
        tsched::wait([peer_fd]() { return simk::fd_readable(peer_fd); }, 20);
        simk::Datagram d;
        while (simk::raw_recv(peer_fd, d)) { if (batch.empty()) first_ns = w.now(); batch.push_back(d); }
        if (batch.empty() || (batch.size() < 9 && w.now() - first_ns < 50000000ull)) continue;
        for (auto &q : batch) {
          r1::Msg m, a;
          if (r1::decode_udp(q.data, m) != r1::ACCEPT || m.code == 0) continue;
          a.type = m.type == 0 ? 2 : 1;
          a.code = 69;
          a.mid = m.mid;
          a.token = m.token;
          a.payload = {'o', 'k'};
          simk::raw_sendto(peer_fd, q.src, r1::encode_udp(a));
        }
        batch.clear();
      }
    });
    int nw = (int)plan["workers"].size();
    cw.workers_left = nw;
    int unanswered = 0;
    std::vector<coap_session_t *> keep;      // sessions with observations, released at the end by their worker
    tsched::spawn("io", [&]() {
      while (!cw.stop) {
        Api a("coap_io_process");
        coap_io_process(cw.ctx, 100);
      }
    });
    for (int wi = 0; wi < nw; wi++) {
      json ops = plan["workers"][(size_t)wi];
      tsched::spawn("worker" + std::to_string(wi), [&, wi, ops]() {
        coap_address_t dst;
        World::to_coap_addr(World::node_addr(0, 5683), &dst);
        int seq = 0;
        std::vector<coap_session_t *> mine;
        for (auto &o : ops) {
          std::string op = o.value("op", "yield");
          if (op == "client" || op == "observe") {
            coap_session_t *s;
            { Api a("coap_new_client_session"); s = coap_new_client_session(cw.ctx, nullptr, &dst, COAP_PROTO_UDP); }
            if (!s) continue;
            if (op == "observe") {
              coap_pdu_t *p;
              { Api a("coap_new_pdu"); p = coap_new_pdu(COAP_MESSAGE_CON, COAP_REQUEST_CODE_GET, s); }
              if (p) {
                uint8_t tk[4] = {0xC1, 0x31, (uint8_t)wi, (uint8_t)seq++};
                coap_add_token(p, 4, tk);
                coap_add_option(p, COAP_OPTION_OBSERVE, 0, nullptr);
                coap_add_option(p, COAP_OPTION_URI_PATH, 3, (const uint8_t *)"obs");
                Api a("coap_send");
                coap_send(s, p);
              }
              mine.push_back(s);
              continue;
            }
            int n = o.value("n", 1), chain = o.value("chain", 0);
            int before = cw.got[wi];
            cw.want_chain[wi] = chain;
            cw.chain_session[wi] = s;
            for (int i = 0; i < n; i++) send_get(s, wi, seq++, o.value("con", true));
            int want = before + n + chain;
            tsched::wait([&cw, wi, want]() { return cw.got[wi] >= want; }, 120000);
            if (cw.got[wi] < want) { unanswered += want - cw.got[wi]; res.violate("T.request_unanswered", o.value("con", true) ? "con" : "non", strfmt("worker %d: %d of %d requests on a loss-free loopback got no response within 120 s of simulated time", wi, want - cw.got[wi], n + chain)); }
            cw.chain_session[wi] = nullptr;
            { Api a("coap_session_reference"); coap_session_reference(s); }
            { Api a("coap_session_release"); coap_session_release(s); }
            { Api a("coap_session_release"); coap_session_release(s); }
          } else if (op == "cache" || op == "async") {
            coap_session_t *s;
            { Api a("coap_new_client_session"); s = coap_new_client_session(cw.ctx, nullptr, &dst, COAP_PROTO_UDP); }
            if (!s) continue;
            coap_pdu_t *p;
            { Api a("coap_new_pdu"); p = coap_new_pdu(COAP_MESSAGE_CON, COAP_REQUEST_CODE_GET, s); }
            if (p) {
              uint8_t tk[4] = {0xC1, 0x30, (uint8_t)wi, (uint8_t)(seq++)};
              coap_add_token(p, 4, tk);
              if (op == "cache") {
                std::string nm = "c" + std::to_string(wi) + "_" + std::to_string(seq);
                coap_add_option(p, COAP_OPTION_URI_PATH, nm.size(), (const uint8_t *)nm.data());
                coap_cache_entry_t *ce;
                { Api a("coap_new_cache_entry"); ce = coap_new_cache_entry(s, p, COAP_CACHE_NOT_RECORD_PDU, COAP_CACHE_IS_SESSION_BASED, 0); }
                tsched::yield("app");
                coap_cache_entry_t *found;
                { Api a("coap_cache_get_by_pdu"); found = coap_cache_get_by_pdu(s, p, COAP_CACHE_IS_SESSION_BASED); }
                if (ce && found != ce) res.violate("T.cache_lookup", "entry_not_found", strfmt("worker %d: the cache entry it has just created for its own request is %s", wi, found ? "another one" : "not found"));
                if (ce) { Api a("coap_delete_cache_entry"); coap_delete_cache_entry(cw.ctx, ce); }
                coap_delete_pdu(p);
              } else {
                coap_add_option(p, COAP_OPTION_URI_PATH, 1, (const uint8_t *)"a");
                std::string q = std::to_string(o.value("delay_s", 1));
                coap_add_option(p, COAP_OPTION_URI_QUERY, q.size(), (const uint8_t *)q.data());
                int want = cw.got[wi] + 1;
                { Api a("coap_send"); coap_send(s, p); }
                tsched::wait([&cw, wi, want]() { return cw.got[wi] >= want; }, 120000);
                if (cw.got[wi] < want) { unanswered++; res.violate("T.request_unanswered", "async", strfmt("worker %d: the delayed (async) response did not arrive within 120 s of simulated time", wi)); }
              }
            }
            { Api a("coap_session_release"); coap_session_release(s); }
          } else if (op == "burst") {
            int n = o.value("n", 12);
            std::vector<coap_session_t *> ss;
            int before = cw.got[wi];
            coap_address_t pdst;
            World::to_coap_addr(World::node_addr(1, 6000), &pdst);
            for (int i = 0; i < n; i++) {
              coap_session_t *s;
              { Api a("coap_new_client_session"); s = coap_new_client_session(cw.ctx, nullptr, &pdst, COAP_PROTO_UDP); }
              if (s) ss.push_back(s);
            }
            for (auto *s : ss) send_get(s, wi, seq++, false);
            int want = before + (int)ss.size();
            tsched::wait([&cw, wi, want]() { return cw.got[wi] >= want; }, 120000);
            if (cw.got[wi] < want) { unanswered += want - cw.got[wi]; res.violate("T.request_unanswered", "burst", strfmt("worker %d: %d of %zu requests of a burst on a loss-free loopback got no response within 120 s of simulated time", wi, want - cw.got[wi], ss.size())); }
            for (auto *s : ss) { Api a("coap_session_release"); coap_session_release(s); }
          } else if (op == "notify") {
            for (int k = 0; k < o.value("times", 1); k++) { Api a("coap_resource_notify_observers"); coap_resource_notify_observers(cw.obs_res, nullptr); }
          } else if (op == "resource") {
            std::string nm = "t" + std::to_string(wi) + "_" + std::to_string(seq++);
            coap_resource_t *r = coap_resource_init(coap_new_str_const((const uint8_t *)nm.data(), nm.size()), COAP_RESOURCE_FLAGS_RELEASE_URI);
            if (!r) continue;
            coap_register_request_handler(r, COAP_REQUEST_GET, hnd_get);
            { Api a("coap_add_resource"); coap_add_resource(cw.ctx, r); }
            tsched::yield("app");
            { Api a("coap_delete_resource"); coap_delete_resource(o.value("null_ctx", false) ? nullptr : cw.ctx, r); }
          } else {
            for (int k = 0; k < o.value("times", 1); k++) tsched::wait([]() { return false; }, 10);
          }
        }
        tsched::wait([]() { return false; }, plan.value("keepalive", false) && !mine.empty() ? 2600 : 500);     // with keep-alive: long enough for the kept sessions to be pinged
        for (auto *s : mine) { Api a("coap_session_release"); coap_session_release(s); }
        if (--cw.workers_left == 0) cw.stop = true;
      });
    }
    std::string why;
    bool ok = tsched::run(&why);
    tsched::Stats st = tsched::stats();
    res.counters["probe.context_switches"] += st.switches;
    res.counters["probe.lock_operations"] += st.lock_ops;
    res.counters["probe.contended_locks"] += st.contended;
    res.counters["probe.time_advances"] += st.time_advances;
    res.counters["probe.handler_runs"] += (uint64_t)cw.handler_runs;
    res.nontrivial = st.switches >= 20 && st.contended >= 1;
    if (!ok) {
      res.violate("T.deadlock", "no_thread_can_run", "deadlock: " + why);
      // the stuck threads cannot be unwound: report and let the process end
      res.trace_hash = mix3(w.tr.h, st.schedule_hash, 1);
      res.events = w.events;
      return;
    }
    if (st.unlock_not_owner) res.violate("T.unlock_not_owner", "unlock_not_owner", strfmt("pthread_mutex_unlock() was called %llu time(s) by a thread that did not hold the mutex: that thread had been running library code without the lock", (unsigned long long)st.unlock_not_owner));
    if (tsched::locks_held_total() != 0) res.violate("T.lock_left_held", "at_end", strfmt("%d mutex(es) still held after every thread has finished", tsched::locks_held_total()));
    tsched::stop();
    simk::K().hooks.yield = nullptr;
    {
      World::AsNode as(0);
      coap_free_context(cw.ctx);
    }
    w.end();
    res.trace_hash = mix3(res.trace_hash, st.schedule_hash, (uint64_t)unanswered);
    g = nullptr;
  }
};

struct Reg { Reg() { register_property(new C13()); } } reg;

}  // namespace
