#include "r1.h"
#include <algorithm>

namespace r1 {

std::string Msg::str() const {
  static const char *tn[] = {"CON", "NON", "ACK", "RST"};
  std::string s = strfmt("%s %s mid=%04x tok=%s", tn[type & 3], code_str(code).c_str(), mid, hex(token).c_str());
  for (auto &o : opts) s += strfmt(" [%u:%s]", o.num, hex(o.val).c_str());
  if (!payload.empty()) s += strfmt(" pl(%zu)=%s", payload.size(), hex(payload.data(), std::min<size_t>(payload.size(), 24)).c_str());
  return s;
}

uint32_t Msg::uint_opt(uint32_t num, uint32_t dflt) const {
  const Opt *o = find(num);
  return o ? decode_uint(o->val) : dflt;
}

Bytes encode_uint(uint32_t v) {
  Bytes b;
  while (v) { b.insert(b.begin(), (uint8_t)(v & 255)); v >>= 8; }
  return b;
}
uint32_t decode_uint(const Bytes &b) {
  uint32_t v = 0;
  for (uint8_t c : b) v = (v << 8) | c;
  return v;
}

static void put_nibble_ext(uint32_t v, int &nib, Bytes &ext) {
  if (v < 13) nib = (int)v;
  else if (v < 269) { nib = 13; ext.push_back((uint8_t)(v - 13)); }
  else { nib = 14; ext.push_back((uint8_t)((v - 269) >> 8)); ext.push_back((uint8_t)((v - 269) & 255)); }
}

static void put_token(const Bytes &tok, int &tkl, Bytes &field) {
  size_t n = tok.size();
  if (n < 13) tkl = (int)n;
  else if (n < 269) { tkl = 13; field.push_back((uint8_t)(n - 13)); }
  else { tkl = 14; field.push_back((uint8_t)((n - 269) >> 8)); field.push_back((uint8_t)((n - 269) & 255)); }
  field.insert(field.end(), tok.begin(), tok.end());
}

void encode_body(const Msg &m, Bytes &out) {
  std::vector<Opt> o = m.opts;
  std::stable_sort(o.begin(), o.end(), [](const Opt &a, const Opt &b) { return a.num < b.num; });
  uint32_t prev = 0;
  for (auto &x : o) {
    int dn, ln;
    Bytes de, le;
    put_nibble_ext(x.num - prev, dn, de);
    put_nibble_ext((uint32_t)x.val.size(), ln, le);
    out.push_back((uint8_t)(dn << 4 | ln));
    out.insert(out.end(), de.begin(), de.end());
    out.insert(out.end(), le.begin(), le.end());
    out.insert(out.end(), x.val.begin(), x.val.end());
    prev = x.num;
  }
  if (!m.payload.empty()) {
    out.push_back(0xFF);
    out.insert(out.end(), m.payload.begin(), m.payload.end());
  }
}

Bytes encode_udp(const Msg &m) {
  Bytes out;
  int tkl;
  Bytes tf;
  put_token(m.token, tkl, tf);
  out.push_back((uint8_t)((m.ver & 3) << 6 | (m.type & 3) << 4 | tkl));
  out.push_back((uint8_t)m.code);
  out.push_back((uint8_t)(m.mid >> 8));
  out.push_back((uint8_t)(m.mid & 255));
  out.insert(out.end(), tf.begin(), tf.end());
  encode_body(m, out);
  return out;
}

Bytes encode_tcp(const Msg &m) {
  Bytes body;
  encode_body(m, body);
  int tkl;
  Bytes tf;
  put_token(m.token, tkl, tf);
  Bytes out;
  size_t L = body.size();
  if (L < 13) out.push_back((uint8_t)(L << 4 | tkl));
  else if (L < 269) { out.push_back((uint8_t)(13 << 4 | tkl)); out.push_back((uint8_t)(L - 13)); }
  else if (L < 65805) { out.push_back((uint8_t)(14 << 4 | tkl)); out.push_back((uint8_t)((L - 269) >> 8)); out.push_back((uint8_t)((L - 269) & 255)); }
  else {
    uint32_t v = (uint32_t)(L - 65805);
    out.push_back((uint8_t)(15 << 4 | tkl));
    out.push_back((uint8_t)(v >> 24)); out.push_back((uint8_t)(v >> 16)); out.push_back((uint8_t)(v >> 8)); out.push_back((uint8_t)v);
  }
  out.push_back((uint8_t)m.code);
  out.insert(out.end(), tf.begin(), tf.end());
  out.insert(out.end(), body.begin(), body.end());
  return out;
}

Bytes encode_ws_msg(const Msg &m) {
  Bytes out;
  int tkl;
  Bytes tf;
  put_token(m.token, tkl, tf);
  out.push_back((uint8_t)tkl);   // Len = 0
  out.push_back((uint8_t)m.code);
  out.insert(out.end(), tf.begin(), tf.end());
  encode_body(m, out);
  return out;
}

Bytes ws_frame(const Bytes &payload, bool masked, const uint8_t mask[4], int opcode, int force_len_form) {
  Bytes f;
  f.push_back((uint8_t)(0x80 | (opcode & 15)));
  size_t n = payload.size();
  int form = n < 126 ? 7 : n < 65536 ? 16 : 64;
  if (force_len_form == 16 && form == 7) form = 16;
  if (force_len_form == 64) form = 64;
  uint8_t mb = masked ? 0x80 : 0;
  if (form == 7) f.push_back((uint8_t)(mb | n));
  else if (form == 16) { f.push_back((uint8_t)(mb | 126)); f.push_back((uint8_t)(n >> 8)); f.push_back((uint8_t)n); }
  else {
    f.push_back((uint8_t)(mb | 127));
    for (int i = 7; i >= 0; i--) f.push_back((uint8_t)((uint64_t)n >> (8 * i)));
  }
  if (masked) f.insert(f.end(), mask, mask + 4);
  for (size_t i = 0; i < n; i++) f.push_back(masked ? (uint8_t)(payload[i] ^ mask[i & 3]) : payload[i]);
  return f;
}

bool opt_len_limits(uint32_t num, size_t &lo, size_t &hi) {
  switch (num) {
  case O_IF_MATCH: lo = 0; hi = 8; return true;
  case O_URI_HOST: lo = 1; hi = 255; return true;
  case O_ETAG: lo = 1; hi = 8; return true;
  case O_IF_NONE_MATCH: lo = 0; hi = 0; return true;
  case O_OBSERVE: lo = 0; hi = 3; return true;
  case O_URI_PORT: lo = 0; hi = 2; return true;
  case O_LOCATION_PATH: lo = 0; hi = 255; return true;
  case O_OSCORE: lo = 0; hi = 255; return true;
  case O_URI_PATH: lo = 0; hi = 255; return true;
  case O_CONTENT_FORMAT: lo = 0; hi = 2; return true;
  case O_MAX_AGE: lo = 0; hi = 4; return true;
  case O_URI_QUERY: lo = 0; hi = 255; return true;
  case O_HOP_LIMIT: lo = 1; hi = 1; return true;
  case O_ACCEPT: lo = 0; hi = 2; return true;
  case O_Q_BLOCK1: lo = 0; hi = 3; return true;
  case O_LOCATION_QUERY: lo = 0; hi = 255; return true;
  case O_BLOCK2: lo = 0; hi = 3; return true;
  case O_BLOCK1: lo = 0; hi = 3; return true;
  case O_SIZE2: lo = 0; hi = 4; return true;
  case O_Q_BLOCK2: lo = 0; hi = 3; return true;
  case O_PROXY_URI: lo = 1; hi = 1034; return true;
  case O_PROXY_SCHEME: lo = 1; hi = 255; return true;
  case O_SIZE1: lo = 0; hi = 4; return true;
  case O_ECHO: lo = 1; hi = 40; return true;
  case O_NO_RESPONSE: lo = 0; hi = 1; return true;
  case O_RTAG: lo = 0; hi = 8; return true;
  }
  return false;
}

bool sig_opt_len_limits(int code, uint32_t num, size_t &lo, size_t &hi) {
  switch (code) {
  case 0xE1:  // 7.01 CSM
    if (num == 2) { lo = 0; hi = 4; return true; }
    if (num == 4) { lo = 0; hi = 0; return true; }
    if (num == 6) { lo = 0; hi = 3; return true; }
    break;
  case 0xE2: case 0xE3:  // Ping / Pong
    if (num == 2) { lo = 0; hi = 0; return true; }
    break;
  case 0xE4:  // Release
    if (num == 2) { lo = 1; hi = 255; return true; }
    if (num == 4) { lo = 0; hi = 3; return true; }
    break;
  case 0xE5:  // Abort
    if (num == 2) { lo = 0; hi = 2; return true; }
    break;
  }
  return false;
}

bool is_critical(uint32_t num) { return num & 1; }
bool is_unsafe(uint32_t num) { return num & 2; }
bool is_repeatable(uint32_t num) {
  switch (num) {
  case O_IF_MATCH: case O_ETAG: case O_LOCATION_PATH: case O_URI_PATH: case O_URI_QUERY: case O_LOCATION_QUERY:
    return true;
  }
  return false;
}

static bool get_ext(const uint8_t *&p, const uint8_t *end, int nib, uint32_t &v) {
  if (nib < 13) { v = (uint32_t)nib; return true; }
  if (nib == 13) { if (end - p < 1) return false; v = 13u + p[0]; p += 1; return true; }
  if (nib == 14) { if (end - p < 2) return false; v = 269u + ((uint32_t)p[0] << 8 | p[1]); p += 2; return true; }
  return false;
}

Verdict decode_rest(const uint8_t *p, size_t n, int tkl, Msg &out, std::string *why, bool reliable) {
  auto rej = [&](const char *w) { if (why) *why = w; return REJECT; };
  const uint8_t *end = p + n;
  out.token.clear();
  out.opts.clear();
  out.payload.clear();
  size_t tlen;
  if (tkl < 13) tlen = (size_t)tkl;
  else if (tkl == 13) { if (end - p < 1) return rej("ext token length byte missing"); tlen = 13u + p[0]; p += 1; }
  else if (tkl == 14) { if (end - p < 2) return rej("ext token length bytes missing"); tlen = 269u + ((size_t)p[0] << 8 | p[1]); p += 2; }
  else return rej("TKL 15 reserved");
  if ((size_t)(end - p) < tlen) return rej("token runs past end");
  out.token.assign(p, p + tlen);
  p += tlen;
  if (out.code == 0) {
    if (tlen != 0 || p != end) return rej("Empty message with token/options/payload");
    return ACCEPT;
  }
  uint32_t num = 0;
  bool len_violation = false;
  std::string lv;
  while (p < end) {
    uint8_t b = *p++;
    if (b == 0xFF) {
      if (p == end) return rej("payload marker without payload");
      out.payload.assign(p, end);
      p = end;
      break;
    }
    int dn = b >> 4, ln = b & 15;
    if (dn == 15 || ln == 15) return rej("reserved nibble 15");
    uint32_t d, l;
    if (!get_ext(p, end, dn, d)) return rej("option delta extension truncated");
    if (!get_ext(p, end, ln, l)) return rej("option length extension truncated");
    if ((uint64_t)num + d > 65535) return rej("option number above 65535");
    num += d;
    if ((size_t)(end - p) < l) return rej("option value truncated");
    Opt o;
    o.num = num;
    o.val.assign(p, p + l);
    p += l;
    size_t lo, hi;
    bool have = (reliable && code_class(out.code) == 7) ? sig_opt_len_limits(out.code, num, lo, hi) : opt_len_limits(num, lo, hi);
    if (have && (l < lo || l > hi)) { len_violation = true; lv = strfmt("option %u length %u outside %zu..%zu", num, l, lo, hi); }
    out.opts.push_back(std::move(o));
  }
  int cls = code_class(out.code);
  bool defined_space = reliable ? (cls != 1 && cls != 6) : (cls != 1 && cls != 6 && cls != 7);
  if (!defined_space) { if (why) *why = "code class without defined option space on this transport"; return UNSPEC; }
  if (len_violation) { if (why) *why = lv; return REJECT; }
  return ACCEPT;
}

Verdict decode_udp(const uint8_t *p, size_t n, Msg &out, std::string *why) {
  auto rej = [&](const char *w) { if (why) *why = w; return REJECT; };
  if (n < 4) return rej("shorter than 4 bytes");
  out.ver = p[0] >> 6;
  if (out.ver != 1) return rej("version != 1");
  out.type = (p[0] >> 4) & 3;
  int tkl = p[0] & 15;
  out.code = p[1];
  out.mid = p[2] << 8 | p[3];
  return decode_rest(p + 4, n - 4, tkl, out, why, false);
}

size_t take_tcp(const uint8_t *p, size_t n, Msg &out, Verdict &v, std::string *why, size_t max_body, bool *too_big) {
  if (too_big) *too_big = false;
  if (n < 1) return 0;
  int ln = p[0] >> 4, tkl = p[0] & 15;
  size_t ext = ln < 13 ? 0 : ln == 13 ? 1 : ln == 14 ? 2 : 4;
  if (n < 1 + ext) return 0;
  uint64_t L;
  if (ln < 13) L = (uint64_t)ln;
  else if (ln == 13) L = 13u + p[1];
  else if (ln == 14) L = 269u + ((uint64_t)p[1] << 8 | p[2]);
  else L = 65805ull + ((uint64_t)p[1] << 24 | (uint64_t)p[2] << 16 | (uint64_t)p[3] << 8 | p[4]);
  if (L > max_body) { if (too_big) *too_big = true; v = REJECT; if (why) *why = "declared length above maximum"; return 1 + ext; }
  // code + token field
  size_t pos = 1 + ext;
  if (n < pos + 1) return 0;
  size_t tfield;
  if (tkl < 13) tfield = (size_t)tkl;
  else if (tkl == 13) { if (n < pos + 2) return 0; tfield = 1 + 13u + p[pos + 1]; }
  else if (tkl == 14) { if (n < pos + 3) return 0; tfield = 2 + 269u + ((size_t)p[pos + 1] << 8 | p[pos + 2]); }
  else tfield = 0;   // TKL 15: reject below once the body is complete
  size_t total = pos + 1 + tfield + (size_t)L;
  if (n < total) return 0;
  out.ver = 1;
  out.type = 0;
  out.mid = 0;
  out.code = p[pos];
  v = decode_rest(p + pos + 1, tfield + (size_t)L, tkl, out, why, true);
  return total;
}

}  // namespace r1
