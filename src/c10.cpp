// C10 — server answers each request datagram once, with the protocol-prescribed code.
// World: raw peer (node 1) -> libcoap server (node 0) with a generated resource table; reference decision table R6.
#include "runner.h"
#include "world.h"
#include "coapx.h"
#include "r10.h"
#include <arpa/inet.h>

namespace {

const int H_CODES[] = {0x45, 0x44, 0x41, 0x42, 0x43, 0x80, 0x83, 0xA0, 0x00};   // 2.05 2.04 2.01 2.02 2.03 4.00 4.03 5.00 none
const int N_H_CODES = 9;

struct Res {
  std::vector<Bytes> segs;
  int methods = 0;        // bit (m-1) set: handler registered for method m (1..7)
  std::string text;       // registered path text
  coap_resource_t *r = nullptr;
};

struct HCall {
  int res_id;             // index in table, -1 unknown handler, -2 proxy handler
  int method;
  r1::Msg seen;
  bool has_query;
  std::string query;
};

struct Reply {
  uint64_t t;
  r1::Msg m;
  simk::Addr src;
};

struct C10World {
  World w;
  RunResult *res = nullptr;
  coap_context_t *ctx = nullptr;
  std::vector<Res> table;
  int unknown_methods = 0, proxy_methods = 0;
  std::map<Bytes, std::vector<HCall>> calls;      // by request token
};
C10World *g = nullptr;

std::string esc_path_seg(const Bytes &s) {
  static const char *hexd = "0123456789ABCDEF";
  std::string o;
  for (uint8_t c : s) {
    bool un = (c >= 'A' && c <= 'Z') || (c >= 'a' && c <= 'z') || (c >= '0' && c <= '9') || strchr("-._~!$&'()*+,;=:@", c) != nullptr;
    if (c == 0) un = false;
    if (un) o += (char)c;
    else { o += '%'; o += hexd[c >> 4]; o += hexd[c & 15]; }
  }
  return o;
}
std::string path_text(const std::vector<Bytes> &segs) {
  std::string o;
  for (size_t i = 0; i < segs.size(); i++) { if (i) o += '/'; o += esc_path_seg(segs[i]); }
  return o;
}
// a single empty segment counts as no segment
std::vector<Bytes> norm_segs(std::vector<Bytes> s) {
  if (s.size() == 1 && s[0].empty()) s.clear();
  return s;
}

void hnd_deferred(coap_resource_t *, coap_session_t *session, const coap_pdu_t *request, const coap_string_t *, coap_pdu_t *response) {
  coap_bin_const_t t = coap_pdu_get_token(request);
  if (!coap_find_async(session, t)) {
    if (coap_register_async(session, request, 2 * COAP_TICKS_PER_SECOND)) { g->w.count("probe.async_registered"); return; }
    coap_pdu_set_code(response, COAP_RESPONSE_CODE_SERVICE_UNAVAILABLE);
    return;
  }
  coap_pdu_set_code(response, COAP_RESPONSE_CODE_CONTENT);
  coap_add_data(response, 4, (const uint8_t *)"late");
}

void hnd(coap_resource_t *resource, coap_session_t *, const coap_pdu_t *request, const coap_string_t *query, coap_pdu_t *response) {
  HCall c;
  c.res_id = (int)(intptr_t)coap_resource_get_userdata(resource);
  c.method = (int)coap_pdu_get_code(request);
  c.seen = cx::msg_from_pdu(request);
  c.has_query = query != nullptr;
  if (query) c.query.assign((const char *)query->s, query->length);
  Bytes tok = c.seen.token;
  g->calls[tok].push_back(c);
  g->w.log("HANDLER res=%d method=%d tok=%s", c.res_id, c.method, hex(tok).c_str());
  int code = H_CODES[(tok.empty() ? 0 : tok[0]) % N_H_CODES];
  if (code) coap_pdu_set_code(response, (coap_pdu_code_t)code);
  if (code && tok.size() > 1 && (tok[1] & 1)) { uint8_t z = 0; coap_add_option(response, COAP_OPTION_CONTENT_FORMAT, 0, &z); }
  if (code && tok.size() > 1 && (tok[1] & 2)) {
    uint8_t body[4] = {'H', (uint8_t)('a' + (c.res_id + 2) % 26), (uint8_t)('0' + c.method % 10), '!'};
    coap_add_data(response, 4, body);
  }
}

struct Expect {
  std::set<int> lib_codes;       // error codes libcoap itself may answer with (empty => handler path)
  bool rst_for_non = false;      // NON request: Reset instead of an error response (critical option rule)
  bool silent = false;           // nothing at all (ACK/RST carrying a request code)
  bool invalid_class = false;    // CON => RST or nothing; NON => nothing
  bool not_judged = false;
  bool wellknown = false;        // built-in /.well-known/core listing (2.05, Content-Format 40)
  bool no_response_strict = true;// false for the dispatch-level 4.02, which libcoap sends without consulting No-Response
  int handler_res = -100;        // which handler must run (-1 unknown, -2 proxy, >=0 table index)
  std::vector<std::string> why;
};

Expect decide(const r1::Msg &m, bool mcast) {
  Expect e;
  int cls = m.code >> 5;
  if (m.code == 0) { e.not_judged = true; e.why.push_back("Empty message (ping): not judged"); return e; }
  if (cls >= 2 && cls <= 5) { e.not_judged = true; e.why.push_back("response sent to a server: not judged"); return e; }
  if (cls == 1 || cls == 6 || cls == 7) { e.invalid_class = true; e.why.push_back("invalid code class"); return e; }
  if (m.type == 2 || m.type == 3) { e.silent = true; e.why.push_back("ACK/RST carrying a request code"); return e; }
  if (mcast && m.type == 0) { e.silent = true; e.why.push_back("Confirmable request to a multicast address (RFC 7252 8.1)"); return e; }
  // --- option checks (RFC 7252 5.4.1, 5.4.5)
  static const std::set<uint32_t> known_crit = {1, 3, 5, 7, 11, 15, 17, 23, 27, 35, 39};
  static const std::set<uint32_t> non_repeatable = {3, 5, 6, 7, 9, 12, 14, 16, 17, 23, 27, 28, 35, 39, 60, 252, 258};
  bool bad_opt = false;
  uint32_t prev = 0xffffffff;
  for (auto &o : m.opts) {
    if ((o.num & 1) && !known_crit.count(o.num)) { bad_opt = true; e.why.push_back(strfmt("unknown critical option %u", o.num)); }
    if (o.num == prev && non_repeatable.count(o.num)) { bad_opt = true; e.why.push_back(strfmt("option %u repeated", o.num)); }
    prev = o.num;
  }
  if (bad_opt) {
    e.lib_codes.insert(0x82);
    e.rst_for_non = true;
    e.no_response_strict = false;
  }
  bool p_uri = m.find(r1::O_PROXY_URI) != nullptr, p_scheme = m.find(r1::O_PROXY_SCHEME) != nullptr;
  if (p_scheme && !m.find(r1::O_URI_HOST)) { e.lib_codes.insert(0x82); e.why.push_back("Proxy-Scheme without Uri-Host"); }
  int mbit = (m.code >= 1 && m.code <= 7) ? 1 << (m.code - 1) : 0;
  const bool proxied = false;
  if (p_uri || p_scheme) {
    if (!g->proxy_methods || !(g->proxy_methods & mbit)) {
      e.lib_codes.insert(0xA5);
      e.why.push_back("proxy option without proxy support for the method");
      if (g->proxy_methods && m.code > 7) e.lib_codes.insert(0x85);   // unknown method at a proxy-capable server: no handler
    }
    else {
      // A proxy-capable server forwards: early Empty ACK + separate response, request de-duplication, safe-to-forward
      // critical options passed on ... none of which the statement describes. Only memory safety is judged.
      e = Expect();
      e.not_judged = true;
      e.why.push_back("proxied request at a proxy-capable server: forwarding behaviour is outside the statement");
      return e;
    }
  }
  if (const r1::Opt *h = m.find(r1::O_HOP_LIMIT)) {
    uint32_t v = r1::decode_uint(h->val);
    if (v == 1) { e.lib_codes.insert(0xA8); e.why.push_back("Hop-Limit 1"); }
    else if (v == 0 || v > 255) { e.lib_codes.insert(0x80); e.why.push_back("Hop-Limit 0"); }
  }
  // --- resource lookup on segment lists
  std::vector<Bytes> segs;
  for (auto &o : m.opts) if (o.num == r1::O_URI_PATH) segs.push_back(o.val);
  segs = norm_segs(segs);
  int found = -100;
  if (proxied) found = -2;
  else {
    for (size_t i = 0; i < g->table.size(); i++)
      if (norm_segs(g->table[i].segs) == segs) { found = (int)i; break; }
    if (found == -100) {
      bool wk = segs.size() == 2 && segs[0] == Bytes{'.', 'w', 'e', 'l', 'l', '-', 'k', 'n', 'o', 'w', 'n'} && segs[1] == Bytes{'c', 'o', 'r', 'e'};
      if (wk) {
        // the built-in discovery resource exists and has a GET handler only
        if (m.find(r1::O_IF_NONE_MATCH)) { e.lib_codes.insert(0x8C); e.why.push_back("If-None-Match on the built-in .well-known/core"); }
        if (m.code == 1) { e.wellknown = true; e.why.push_back("built-in .well-known/core"); }
        else { e.lib_codes.insert(0x85); e.why.push_back(".well-known/core supports GET only"); }
        found = -3;
      } else if (g->unknown_methods & mbit) found = -1;
      else if (!(p_uri || p_scheme)) {
        e.lib_codes.insert(m.code == 4 ? 0x42 : 0x84);
        e.why.push_back("no matching resource");
      }
    }
  }
  if (found >= 0) {
    if (m.find(r1::O_IF_NONE_MATCH)) { e.lib_codes.insert(0x8C); e.why.push_back("If-None-Match on an existing resource"); }
    if (!(g->table[(size_t)found].methods & mbit)) { e.lib_codes.insert(0x85); e.why.push_back("no handler for the method"); }
  }
  if (m.code == 5 && !m.find(r1::O_CONTENT_FORMAT) && found != -100 && found != -3) { e.lib_codes.insert(0x8F); e.why.push_back("FETCH without Content-Format"); }
  if (!e.lib_codes.empty()) e.wellknown = false;
  if (e.lib_codes.empty() && !e.wellknown) e.handler_res = found;
  return e;
}

// does the No-Response option of the request suppress a response of this code?
bool suppressed(const r1::Msg &req, int code) {
  const r1::Opt *o = req.find(r1::O_NO_RESPONSE);
  if (!o || (code >> 5) == 0) return false;
  uint32_t v = r1::decode_uint(o->val);
  return ((1u << ((code >> 5) - 1)) & v) != 0;
}

struct C10 : Property {
  C10() {
    id = "C10";
    technique = "deterministic simulation: raw peer drives a real libcoap server on the simulated UDP network (unicast and multicast) with generated resource tables and requests; replies and handler calls judged against reference decision table R6";
    rule_text = "plan = resource table (0..8 resources, paths with escapes/empty segments, per-method handlers, optional unknown-resource and proxy handlers) x 10..60 request datagrams built with the reference codec (every code incl. invalid classes, CON/NON/ACK/RST, known/unknown critical/elective options with legal/illegal repetition, If-None-Match, FETCH +/- Content-Format, proxy options, Hop-Limit, No-Response, unicast/multicast, optional network duplicate). Non-trivial: a request that exercises a non-default row of the decision table; distinct = distinct event-trace hash. Each request datagram is one evaluation of the oracle (counted in probes.requests_judged).";
    real_components = {"libcoap server: coap_net.c (coap_dispatch, coap_option_check_critical, handle_request, no_response, error responses, multicast leisure), coap_resource.c (lookup), coap_uri.c (coap_get_uri_path/coap_get_query), coap_pdu.c, coap_io.c"};
    stub_components = {"simk clock/UDP (unicast + multicast delivery)/epoll", "raw peer and R1 codec (harness)", "R6 decision table (harness)"};
    assumptions = {"replies to Empty CON (ping) and to responses sent at a server are not judged (statement silent)",
                   "the dispatch-level 4.02 for critical/repeated options is accepted with or without No-Response suppression",
                   "mcast_per_resource flags are not generated; Observe and Block options are left to C11/C09"};
    quick_budget_s = 30;
    thorough_budget_s = 600;
  }

  json gen_request(Rng &r, const std::vector<std::vector<Bytes>> &paths, int i, bool allow_mcast) {
    r1::Msg m;
    double x = (r.next() >> 11) * (1.0 / 9007199254740992.0);
    m.type = x < 0.55 ? 0 : x < 0.92 ? 1 : x < 0.96 ? 2 : 3;
    x = (r.next() >> 11) * (1.0 / 9007199254740992.0);
    if (x < 0.80) m.code = (int)r.range(1, 7);
    else if (x < 0.88) m.code = (int)r.range(8, 31);
    else if (x < 0.93) m.code = (1 << 5) | (int)r.range(0, 31);
    else if (x < 0.97) m.code = (6 << 5) | (int)r.range(0, 31);
    else m.code = (7 << 5) | (int)r.range(0, 31);
    m.mid = (0x1000 + i * 7) & 0xffff;
    m.token = {(uint8_t)r.below(256), (uint8_t)r.below(256), (uint8_t)(i >> 8), (uint8_t)i};
    if (r.chance(0.1)) m.token.resize((size_t)r.range(0, 3));   // short tokens; uniqueness then relies on mid
    if (m.token.size() < 4) { m.token = {(uint8_t)r.below(256), (uint8_t)r.below(256), (uint8_t)(i >> 8), (uint8_t)i, 0x77}; }
    // path
    std::vector<Bytes> segs;
    x = (r.next() >> 11) * (1.0 / 9007199254740992.0);
    if (!paths.empty() && x < 0.62) segs = paths[r.below(paths.size())];
    else if (x < 0.70) segs = {Bytes{'.', 'w', 'e', 'l', 'l', '-', 'k', 'n', 'o', 'w', 'n'}, Bytes{'c', 'o', 'r', 'e'}};
    else if (x < 0.78) segs = {};
    else if (x < 0.82) segs = {Bytes{}};
    else if (!paths.empty() && x < 0.90) {
      // near miss of a registered path: join two segments with a literal slash, split one, append empty segment ...
      segs = paths[r.below(paths.size())];
      int k = (int)r.below(4);
      if (k == 0 && segs.size() >= 2) { Bytes j = segs[0]; j.push_back('/'); j.insert(j.end(), segs[1].begin(), segs[1].end()); segs.erase(segs.begin()); segs[0] = j; }
      else if (k == 1) segs.push_back(Bytes{});
      else if (k == 2 && !segs.empty() && !segs[0].empty()) segs[0][0] ^= 0x20;
      else segs.insert(segs.begin(), Bytes{});
    } else {
      int n = (int)r.range(1, 3);
      for (int k = 0; k < n; k++) { Bytes s; int l = (int)r.range(0, 4); for (int q = 0; q < l; q++) s.push_back((uint8_t)("abcxyz/%? 09"[r.below(12)])); segs.push_back(s); }
    }
    for (auto &s : segs) m.opts.push_back({r1::O_URI_PATH, s});
    if (r.chance(0.06)) m.opts.push_back({r1::O_URI_QUERY, Bytes{}});                  // "?&a=1": an empty first argument
    if (r.chance(0.25)) m.opts.push_back({r1::O_URI_QUERY, Bytes{'a', '=', '1'}});
    if (r.chance(0.06)) m.opts.push_back({r1::O_URI_QUERY, Bytes{}});                  // "a=1&&b": an empty argument in the middle / at the end
    if (r.chance(0.08)) m.opts.push_back({r1::O_URI_QUERY, Bytes{'b', '&', '/'}});
    if (r.chance(0.10)) m.opts.push_back({r1::O_IF_NONE_MATCH, {}});
    if (m.code == 5 ? r.chance(0.6) : r.chance(0.1)) m.opts.push_back({r1::O_CONTENT_FORMAT, r.chance(0.5) ? Bytes{} : Bytes{50}});
    if (r.chance(0.08)) m.opts.push_back({r1::O_ACCEPT, Bytes{}});
    if (r.chance(0.04)) { m.opts.push_back({r1::O_ACCEPT, Bytes{40}}); m.opts.push_back({r1::O_ACCEPT, Bytes{41}}); }
    if (r.chance(0.03)) { m.opts.push_back({r1::O_CONTENT_FORMAT, Bytes{1}}); m.opts.push_back({r1::O_CONTENT_FORMAT, Bytes{2}}); }
    if (r.chance(0.03)) { m.opts.push_back({r1::O_URI_HOST, Bytes{'h'}}); m.opts.push_back({r1::O_URI_HOST, Bytes{'g'}}); }
    if (r.chance(0.06)) m.opts.push_back({(uint32_t)(r.chance(0.5) ? 65001 : r.chance(0.5) ? 13 : 2051), r.bytes((size_t)r.range(0, 3))});   // unknown critical
    if (r.chance(0.08)) m.opts.push_back({(uint32_t)(r.chance(0.5) ? 65000 : 2048), r.bytes((size_t)r.range(0, 3))});                      // unknown elective
    if (r.chance(0.03)) { m.opts.push_back({2050, Bytes{1}}); m.opts.push_back({2050, Bytes{2}}); }                                         // unknown elective repeated: accepted
    if (r.chance(0.02)) m.opts.push_back({r1::O_OSCORE, Bytes{}});                                                                           // OSCORE at a server without OSCORE
    if (r.chance(0.05)) { m.opts.push_back({r1::O_ETAG, Bytes{1}}); m.opts.push_back({r1::O_ETAG, Bytes{2}}); }                               // legal repetition
    if (r.chance(0.07)) {
      if (r.chance(0.5)) m.opts.push_back({r1::O_PROXY_URI, Bytes{'c', 'o', 'a', 'p', ':', '/', '/', 'e', 'x', '.', 'n', 'e', 't', '/', 'p'}});
      else { m.opts.push_back({r1::O_PROXY_SCHEME, Bytes{'c', 'o', 'a', 'p'}}); if (r.chance(0.7)) m.opts.push_back({r1::O_URI_HOST, Bytes{'e', 'x', '.', 'n', 'e', 't'}}); }
    }
    if (r.chance(0.08)) { static const uint8_t hv[] = {0, 1, 2, 255}; m.opts.push_back({r1::O_HOP_LIMIT, Bytes{hv[r.below(4)]}}); }
    if (r.chance(0.15)) { static const uint8_t nv[] = {0, 2, 8, 16, 26, 24, 10}; uint8_t v = nv[r.below(7)]; m.opts.push_back({r1::O_NO_RESPONSE, v ? Bytes{v} : Bytes{}}); }
    if ((m.code == 2 || m.code == 3 || m.code == 5 || m.code == 6 || m.code == 7) ? r.chance(0.7) : r.chance(0.1)) m.payload = r.bytes((size_t)r.range(1, 12));
    // the generator keeps unknown critical options away from proxied requests (libcoap forwards safe-to-forward ones)
    bool has_proxy = m.find(r1::O_PROXY_URI) || m.find(r1::O_PROXY_SCHEME);
    if (has_proxy) {
      std::vector<r1::Opt> keep;
      for (auto &o : m.opts) if (!(o.num == 65001 || o.num == 13 || o.num == 2051 || o.num == r1::O_OSCORE)) keep.push_back(o);
      m.opts = keep;
    }
    std::stable_sort(m.opts.begin(), m.opts.end(), [](const r1::Opt &a, const r1::Opt &b) { return a.num < b.num; });
    json jo = json::array();
    for (auto &o : m.opts) jo.push_back(json::array({o.num, hex(o.val)}));
    bool mc = allow_mcast && m.type != 2 && m.type != 3 && r.chance(0.12);
    return json{{"type", m.type}, {"code", m.code}, {"mid", m.mid}, {"token", hex(m.token)}, {"opts", jo}, {"payload", hex(m.payload)},
                {"peer", r.below(3)}, {"dup", r.chance(0.1) ? 1 : 0}, {"mcast", mc}};
  }

  json generate(uint64_t base, uint64_t index, bool) override {
    Rng r(mix3(base, 0xC10, index));
    json p;
    p["property"] = "C10";
    p["seed"] = base;
    p["index"] = index;
    p["sched_salt"] = r.next() & 0xffffffff;
    json table = json::array();
    std::vector<std::vector<Bytes>> paths;
    int nres = (int)r.range(0, 8);
    std::set<std::string> used;
    for (int i = 0; i < nres; i++) {
      std::vector<Bytes> segs;
      int n = (int)r.range(1, 3);
      for (int k = 0; k < n; k++) {
        Bytes s;
        int l = (int)r.range(1, 4);
        for (int q = 0; q < l; q++) s.push_back((uint8_t)("abcdxyz019"[r.below(10)]));
        if (r.chance(0.15)) s.push_back((uint8_t)("/% ?&\xc3"[r.below(6)]));
        if (r.chance(0.05)) s.clear();
        segs.push_back(s);
      }
      if (r.chance(0.05)) segs.clear();    // root resource ""
      std::string t = path_text(norm_segs(segs));
      if (used.count(t) || t == ".well-known/core") continue;
      used.insert(t);
      json js = json::array();
      for (auto &s : segs) js.push_back(hex(s));
      int methods = 0;
      for (int m = 0; m < 7; m++) if (r.chance(m == 0 ? 0.85 : 0.45)) methods |= 1 << m;
      table.push_back({{"segs", js}, {"methods", methods}});
      paths.push_back(segs);
    }
    int unknown = r.chance(0.35) ? (int)r.range(1, 127) : 0;
    int proxy = r.chance(0.3) ? (int)r.range(1, 127) : 0;
    bool mcast = r.chance(0.4);
    p["config"] = {{"unknown_methods", unknown}, {"proxy_methods", proxy}, {"join_mcast", mcast}, {"debug_log", r.chance(0.1)}};
    p["table"] = table;
    json ops = json::array();
    int n = (int)r.range(10, 60);
    for (int i = 0; i < n; i++) {
      json rq = gen_request(r, paths, i, mcast);
      if (r.chance(0.06)) {
        // a request to a resource whose handler defers its answer (coap_register_async): only the message-type rules are judged
        // (Empty ACK for a Confirmable, never an ACK for a Non-confirmable - also not for a copy that arrives while the answer is pending)
        Bytes tok = {0xA5, 0x5A, (uint8_t)(i >> 8), (uint8_t)i};
        rq = json{{"type", r.chance(0.5) ? 0 : 1}, {"code", 1}, {"mid", (0x1000 + i * 7) & 0xffff}, {"token", hex(tok)}, {"opts", json::array({json::array({11, hex(Bytes{'z', 'z', '-', 'a', 's', 'y', 'n', 'c'})})})},
                  {"payload", ""}, {"peer", r.below(3)}, {"dup", r.chance(0.5) ? 1 : 0}, {"mcast", false}, {"async", true}};
      }
      ops.push_back(rq);
    }
    p["ops"] = ops;
    p["faults"] = json::array();
    return p;
  }
  std::vector<std::string> shrink_keys() override { return {"ops", "table"}; }

  void execute(const json &plan, RunResult &res, bool verbose) override {
    C10World cw;
    g = &cw;
    cw.res = &res;
    World &w = cw.w;
    w.begin(plan.value("sched_salt", 1ull), &res, verbose, false);
    const json &cfg = plan["config"];
    w.add_node(nullptr);   // 0 server
    w.add_node(nullptr);   // 1 raw peers
    cw.ctx = cx::new_context(w, 0);
    if (cfg.value("debug_log", false)) coap_set_log_level(COAP_LOG_DEBUG);
    coap_endpoint_t *ep = cx::new_endpoint(w, 0, cw.ctx, 5683, COAP_PROTO_UDP);
    (void)ep;
    bool joined = false;
    {
      World::AsNode as(0);
      for (auto &jr : plan["table"]) {
        Res rs;
        for (auto &s : jr["segs"]) rs.segs.push_back(unhex(s.get<std::string>()));
        rs.methods = jr.value("methods", 0);
        rs.text = path_text(norm_segs(rs.segs));
        coap_str_const_t *name = coap_new_str_const((const uint8_t *)rs.text.data(), rs.text.size());
        rs.r = coap_resource_init(name, COAP_RESOURCE_FLAGS_RELEASE_URI);
        if (!rs.r) continue;
        coap_resource_set_userdata(rs.r, (void *)(intptr_t)cw.table.size());
        for (int m = 1; m <= 7; m++) if (rs.methods & (1 << (m - 1))) coap_register_request_handler(rs.r, (coap_request_t)m, hnd);
        coap_add_resource(cw.ctx, rs.r);
        cw.table.push_back(rs);
      }
      {
        coap_resource_t *ra = coap_resource_init(coap_make_str_const("zz-async"), 0);
        coap_register_request_handler(ra, COAP_REQUEST_GET, hnd_deferred);
        coap_add_resource(cw.ctx, ra);
      }
      cw.unknown_methods = cfg.value("unknown_methods", 0);
      if (cw.unknown_methods) {
        coap_resource_t *u = coap_resource_unknown_init2(nullptr, 0);
        coap_resource_set_userdata(u, (void *)(intptr_t)-1);
        for (int m = 1; m <= 7; m++) if (cw.unknown_methods & (1 << (m - 1))) coap_register_request_handler(u, (coap_request_t)m, hnd);
        coap_add_resource(cw.ctx, u);
      }
      cw.proxy_methods = cfg.value("proxy_methods", 0);
      if (cw.proxy_methods) {
        static const char *names[] = {"proxy.example"};   // never the authority of a generated request: everything is forwarded
        coap_resource_t *u = coap_resource_proxy_uri_init2(nullptr, 1, names, 0);
        coap_resource_set_userdata(u, (void *)(intptr_t)-2);
        for (int m = 1; m <= 7; m++) coap_register_request_handler(u, (coap_request_t)m, (cw.proxy_methods & (1 << (m - 1))) ? hnd : nullptr);
        coap_add_resource(cw.ctx, u);
      }
      if (cfg.value("join_mcast", false)) joined = coap_join_mcast_group_intf(cw.ctx, "224.0.1.187", nullptr) == 0;
    }
    if (joined) w.count("probe.mcast_joined");
    int peer_fd[3];
    for (int i = 0; i < 3; i++) peer_fd[i] = simk::raw_udp_socket(1, World::node_addr(1, (uint16_t)(6000 + i)));
    std::vector<Reply> replies;
    w.pollers.push_back([&]() {
      for (int i = 0; i < 3; i++) {
        simk::Datagram d;
        while (simk::raw_recv(peer_fd[i], d)) {
          Reply rp;
          rp.t = w.now();
          rp.src = d.src;
          std::string why;
          if (r1::decode_udp(d.data, rp.m, &why) == r1::REJECT) { res.violate("M-wire.malformed_reply", "malformed_reply", "server sent a malformed datagram: " + hex(d.data) + " (" + why + ")"); continue; }
          if (rp.m.type == 0) {   // a well-behaved peer acknowledges Confirmable messages
            Bytes ack = {0x60, 0, (uint8_t)(rp.m.mid >> 8), (uint8_t)rp.m.mid};
            simk::raw_sendto(peer_fd[i], d.src, ack);
          }
          replies.push_back(rp);
        }
      }
    });
    struct Sent { r1::Msg m; bool mcast; int copies; uint64_t t; bool async = false; };
    std::vector<Sent> sent;
    uint64_t t = w.now();
    for (auto &op : plan["ops"]) {
      Sent s;
      s.m.type = op.value("type", 0);
      s.m.code = op.value("code", 1);
      s.m.mid = op.value("mid", 0);
      s.m.token = unhex(op.value("token", ""));
      for (auto &o : op["opts"]) s.m.opts.push_back({o[0].get<uint32_t>(), unhex(o[1].get<std::string>())});
      s.m.payload = unhex(op.value("payload", ""));
      s.mcast = op.value("mcast", false) && joined;
      s.copies = 1 + op.value("dup", 0);
      s.async = op.value("async", false);
      t += 8000ull * 1000000ull;     // requests 8 s apart: every reply (incl. multicast leisure) is attributable
      s.t = t;
      int fd = peer_fd[op.value("peer", 0) % 3];
      Bytes wire = r1::encode_udp(s.m);
      simk::Addr dst = s.mcast ? simk::Addr{simk::ip4(224, 0, 1, 187), 5683} : World::node_addr(0, 5683);
      int copies = s.copies;
      w.at_ns(t, [fd, dst, wire, copies, &w]() {
        for (int c = 0; c < copies; c++) w.after_us(c * 50000, [fd, dst, wire]() { simk::raw_sendto(fd, dst, wire); });
      });
      sent.push_back(s);
    }
    w.max_sim_ns = (uint64_t)(sent.size() + 50) * 8000ull * 1000000ull;
    w.run();
    if (w.aborted) res.violate("M-live.abort", w.abort_why, "run did not quiesce: " + w.abort_why);
    // ---- judge every request datagram against R6
    bool nontrivial = false;
    for (size_t i = 0; i < sent.size() && !w.aborted; i++) {
      const Sent &s = sent[i];
      if (s.async) {
        // deferred answer: message-type rules only
        w.count("probe.async_requests_judged", (uint64_t)s.copies);
        std::string actx = strfmt("request #%zu %s x%d [deferred answer]", i, s.m.str().c_str(), s.copies);
        int acks = 0, separate = 0;
        for (auto &rp : replies) {
          const r1::Msg &a = rp.m;
          if (a.code == 0 && a.mid == s.m.mid && (a.type == 2 || a.type == 3)) {
            if (s.m.type == 1) res.violate("R6.ack_for_non", a.type == 2 ? "ack_for_non,deferred_answer" : "rst_for_non,deferred_answer", actx + ": the server answered a Non-confirmable request with " + a.str());
            else if (a.type == 2) acks++;
            else res.violate("R6.con_not_acknowledged", "rst_for_con,deferred_answer", actx + ": Reset for a well-formed Confirmable request");
          } else if (a.code != 0 && a.token == s.m.token) {
            separate++;
            if (a.type == 2) res.violate("R6.wrong_reply", "piggybacked_after_deferral", actx + ": " + a.str());
            if (a.code != 0x45) res.violate("R6.wrong_reply", "deferred_answer_code", actx + ": the deferred answer is " + a.str());
          }
        }
        if (s.m.type == 0 && acks < 1) res.violate("R6.con_not_acknowledged", "con_not_acknowledged,deferred_answer", actx + ": no Empty ACK for the Confirmable request");
        if (acks > s.copies) res.violate("R6.more_than_one_reply", "more_than_one_ack,deferred_answer", actx + strfmt(": %d Empty ACKs for %d datagram(s)", acks, s.copies));
        if (separate < 1) res.violate("R6.no_reply", "deferred_answer_missing", actx + ": the deferred answer never came");
        continue;
      }
      Expect e = decide(s.m, s.mcast);
      w.count("probe.requests_judged", (uint64_t)s.copies);
      if (e.not_judged) { w.count("probe.not_judged"); continue; }
      // replies attributable to this request: arrived in [t, t + 8 s)
      std::vector<const Reply *> rs;
      // (tokens and message ids are unique per request by construction)
      for (auto &rp : replies) {
        bool by_token = rp.m.code != 0 && rp.m.token == s.m.token;
        bool by_mid = rp.m.code == 0 && rp.m.mid == s.m.mid && (rp.m.type == 2 || rp.m.type == 3);
        if (by_token || by_mid) rs.push_back(&rp);
      }
      std::vector<HCall> hc = cw.calls.count(s.m.token) ? cw.calls[s.m.token] : std::vector<HCall>();
      std::string ctx = strfmt("request #%zu %s%s x%d [%s]", i, s.m.str().c_str(), s.mcast ? " (multicast)" : "", s.copies, e.why.empty() ? "handler path" : e.why[0].c_str());
      auto bad = [&](const std::string &rule, const std::string &sig, const std::string &d) { res.violate("R6." + rule, sig, ctx + ": " + d); };
      if (!e.lib_codes.empty() || e.silent || e.invalid_class || e.wellknown) nontrivial = true;
      if ((int)rs.size() > s.copies) bad("more_than_one_reply", "more_than_one_reply", strfmt("%zu datagrams came back for %d request datagram(s)", rs.size(), s.copies));
      // handler expectations
      size_t want_calls = e.handler_res != -100 ? (size_t)s.copies : 0;
      if (hc.size() != want_calls) {
        bad(hc.size() > want_calls ? "handler_ran_unexpectedly" : "handler_did_not_run", strfmt("%s", e.why.empty() ? "handler_path" : e.why[0].substr(0, 40).c_str()),
            strfmt("application handler ran %zu time(s), expected %zu", hc.size(), want_calls));
      }
      for (auto &c : hc) {
        if (e.handler_res != -100 && c.res_id != e.handler_res) bad("wrong_handler", "wrong_handler", strfmt("handler of resource %d ran, expected %d", c.res_id, e.handler_res));
        if (c.method != s.m.code) bad("wrong_method", "wrong_method", strfmt("handler saw method %d", c.method));
        // the handler sees the request's options (Hop-Limit decremented) and payload
        r1::Msg want = s.m;
        for (auto &o : want.opts) if (o.num == r1::O_HOP_LIMIT && o.val.size() == 1) o.val[0]--;
        if (!(c.seen.opts == want.opts)) bad("handler_saw_other_options", "options", "handler saw " + c.seen.str());
        if (c.seen.payload != want.payload) bad("handler_saw_other_payload", "payload", "handler saw " + c.seen.str());
        if (c.seen.token != want.token) bad("handler_saw_other_token", "token", "handler saw " + c.seen.str());
        if (c.has_query != (want.count(r1::O_URI_QUERY) > 0 && !(want.count(r1::O_URI_QUERY) == 1 && want.find(r1::O_URI_QUERY)->val.empty())))
          bad("handler_query", "query", strfmt("query argument %s", c.has_query ? "present" : "absent"));
        else if (c.has_query) {
          // the query string the handler gets is the reference composition of the Uri-Query options (RFC 7252 6.5)
          std::vector<Bytes> qs;
          for (auto &o : want.opts) if (o.num == r1::O_URI_QUERY) qs.push_back(o.val);
          std::string wq = r10::segments_to_query(qs);
          if (c.query != wq) bad("handler_query", "query_text", "handler got query '" + c.query + "', the options compose to '" + wq + "'");
        }
      }
      // expected reply
      for (const Reply *rp : rs) {
        const r1::Msg &a = rp->m;
        if (a.code != 0 && a.token != s.m.token) bad("token_not_echoed", "token_not_echoed", "reply " + a.str());
        if (s.m.type == 0) {
          if (!(a.type == 2 || a.type == 3) || a.mid != s.m.mid) bad("con_not_acknowledged", "con_not_acknowledged", "reply " + a.str());
        } else if (a.type == 2) bad("ack_for_non", "ack_for_non", "reply " + a.str());
        if (s.mcast && a.type == 3 && !e.invalid_class) bad("mcast_rst", "mcast_rst", "Reset in answer to a multicast request");
        // RFC 7967 2.1: a No-Response option that does not exclude the class asks for the response, also via multicast
        if (s.mcast && (a.code >> 5) >= 4 && !(s.m.find(r1::O_NO_RESPONSE) && !suppressed(s.m, a.code))) bad("mcast_error_reply", "mcast_error_reply", "error response to a multicast request: " + a.str());
        if (s.mcast && rp->src.ip != simk::ip4(10, 0, 0, 1)) bad("mcast_reply_source", "mcast_reply_source", "reply to a multicast request sent from " + rp->src.str());
      }
      // which replies are permitted?
      auto acceptable = [&](const r1::Msg &a) -> bool {
        if (e.silent) return false;
        if (e.invalid_class) return a.type == 3 && a.code == 0;      // "Reset or ignored"
        if (a.type == 3) return s.m.type == 1 ? (e.rst_for_non && !s.mcast) : false;
        if (e.wellknown) {
          if (suppressed(s.m, 0x45)) return a.code == 0;
          return a.code == 0x45 && a.uint_opt(r1::O_CONTENT_FORMAT, 9999) == 40;
        }
        if (!e.lib_codes.empty()) {
          for (int c : e.lib_codes) {
            bool sup = suppressed(s.m, c);
            if (c == 0x82 && e.rst_for_non && s.m.type == 1 && a.code == 0x82) continue;   // NON + critical: Reset, not 4.02
            if (a.code == c && (!sup || !e.no_response_strict)) return true;
            if (sup && a.code == 0 && s.m.type == 0) return true;
          }
          return false;
        }
        // handler path
        int hcode = H_CODES[(s.m.token.empty() ? 0 : s.m.token[0]) % N_H_CODES];
        if (hcode == 0) return s.m.type == 0 && a.code == 0 && a.type == 2;
        if (suppressed(s.m, hcode)) return s.m.type == 0 && a.code == 0;
        if (a.code != hcode) return false;
        bool want_cf = s.m.token.size() > 1 && (s.m.token[1] & 1), want_pl = s.m.token.size() > 1 && (s.m.token[1] & 2);
        if ((a.find(r1::O_CONTENT_FORMAT) != nullptr) != want_cf) return false;
        if (want_pl != !a.payload.empty()) return false;
        if (want_pl && (a.payload.size() != 4 || a.payload[0] != 'H')) return false;
        return true;
      };
      // may the server stay silent?
      bool may_be_silent = e.silent || (e.invalid_class) || s.m.type == 1 ? true : false;
      if (s.m.type == 1) {
        // NON: silence is right only when the reply is suppressed / handler set nothing / multicast error
        may_be_silent = e.silent || e.invalid_class;
        if (!e.lib_codes.empty()) {
          for (int c : e.lib_codes) if (suppressed(s.m, c) || s.mcast) may_be_silent = true;
          if (e.rst_for_non && s.mcast) may_be_silent = true;
        } else if (e.wellknown) may_be_silent = suppressed(s.m, 0x45);
        else if (e.handler_res != -100) {
          int hcode = H_CODES[(s.m.token.empty() ? 0 : s.m.token[0]) % N_H_CODES];
          may_be_silent = hcode == 0 || suppressed(s.m, hcode) || (s.mcast && (hcode >> 5) >= 4);
        }
      } else may_be_silent = e.silent || e.invalid_class;
      for (const Reply *rp : rs)
        if (!acceptable(rp->m)) {
          std::string codes;
          for (int c : e.lib_codes) codes += r1::code_str(c) + " ";
          bad("wrong_reply", strfmt("%s->%s", e.why.empty() ? "handler_path" : e.why[0].substr(0, 48).c_str(), (rp->m.type == 3 ? std::string("RST") : r1::code_str(rp->m.code)).c_str()),
              "got " + rp->m.str() + (codes.empty() ? "" : " permitted: " + codes));
        }
      if (rs.empty() && !may_be_silent) bad("no_reply", strfmt("%s", e.why.empty() ? "handler_path" : e.why[0].substr(0, 48).c_str()), "no reply at all");
      if ((int)rs.size() < s.copies && !rs.empty() && !may_be_silent) bad("duplicate_not_answered", "duplicate_not_answered", strfmt("%zu replies for %d request datagrams", rs.size(), s.copies));
    }
    res.nontrivial = nontrivial;
    {
      World::AsNode as(0);
      coap_free_context(cw.ctx);
    }
    w.end();
    g = nullptr;
  }
};

struct Reg { Reg() { register_property(new C10()); } } reg;

}  // namespace
