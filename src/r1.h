// R1 — independent reference CoAP wire codec (RFC 7252 §3, RFC 8323 §3, RFC 8974, RFC 6455 framing).
// Written from the RFCs; shares no code with libcoap.
#pragma once
#include "common.h"

namespace r1 {

struct Opt {
  uint32_t num;
  Bytes val;
  bool operator==(const Opt &o) const { return num == o.num && val == o.val; }
};

struct Msg {
  int ver = 1;
  int type = 0;      // 0 CON 1 NON 2 ACK 3 RST (datagram only)
  int code = 0;
  int mid = 0;       // datagram only
  Bytes token;
  std::vector<Opt> opts;   // kept in the order given; encode() sorts stably by number
  Bytes payload;
  bool same_content(const Msg &o) const { return code == o.code && token == o.token && opts == o.opts && payload == o.payload; }
  bool operator==(const Msg &o) const { return type == o.type && mid == o.mid && same_content(o); }
  std::string str() const;
  const Opt *find(uint32_t num) const { for (auto &o : opts) if (o.num == num) return &o; return nullptr; }
  int count(uint32_t num) const { int n = 0; for (auto &o : opts) n += o.num == num; return n; }
  uint32_t uint_opt(uint32_t num, uint32_t dflt = 0) const;
};

inline int code_class(int code) { return code >> 5; }
inline std::string code_str(int code) { char b[16]; snprintf(b, sizeof b, "%d.%02d", code >> 5, code & 31); return b; }

enum Verdict { ACCEPT, REJECT, UNSPEC };

// option numbers
enum {
  O_IF_MATCH = 1, O_URI_HOST = 3, O_ETAG = 4, O_IF_NONE_MATCH = 5, O_OBSERVE = 6, O_URI_PORT = 7,
  O_LOCATION_PATH = 8, O_OSCORE = 9, O_URI_PATH = 11, O_CONTENT_FORMAT = 12, O_MAX_AGE = 14,
  O_URI_QUERY = 15, O_HOP_LIMIT = 16, O_ACCEPT = 17, O_Q_BLOCK1 = 19, O_LOCATION_QUERY = 20,
  O_BLOCK2 = 23, O_BLOCK1 = 27, O_SIZE2 = 28, O_Q_BLOCK2 = 31, O_PROXY_URI = 35, O_PROXY_SCHEME = 39,
  O_SIZE1 = 60, O_ECHO = 252, O_NO_RESPONSE = 258, O_RTAG = 292
};

// body of a message after the token: options + payload
void encode_body(const Msg &m, Bytes &out);
Bytes encode_udp(const Msg &m);
Bytes encode_tcp(const Msg &m);                        // RFC 8323 §3.2 (Len|TKL, ext len, code, token, ...)
Bytes encode_uint(uint32_t v);                         // minimal-length big-endian
uint32_t decode_uint(const Bytes &b);

// Length limits per option (RFC 7252 §5.10, 7641, 7959, 8613, 8768, 9175, 9177, 7967). Returns false when unlimited/unknown.
bool opt_len_limits(uint32_t num, size_t &lo, size_t &hi);
bool sig_opt_len_limits(int code, uint32_t num, size_t &lo, size_t &hi);

// Strict decoders. `why` receives the reason of a REJECT/UNSPEC verdict.
Verdict decode_udp(const uint8_t *p, size_t n, Msg &out, std::string *why = nullptr);
inline Verdict decode_udp(const Bytes &b, Msg &out, std::string *why = nullptr) { return decode_udp(b.data(), b.size(), out, why); }
// token + options + payload part (shared by datagram, TCP and WS decoders). tkl is the 4-bit field.
Verdict decode_rest(const uint8_t *p, size_t n, int tkl, Msg &out, std::string *why, bool reliable);

// TCP stream: try to take one message from the front of buf.
//   returns 0 = need more bytes; >0 = bytes consumed (verdict/out valid); max_body = largest accepted (options+payload) size
size_t take_tcp(const uint8_t *p, size_t n, Msg &out, Verdict &v, std::string *why, size_t max_body, bool *too_big);

// WebSocket (RFC 6455) binary frame around one CoAP-over-WS message (RFC 8323 §4: Len=0 TCP-style header)
Bytes encode_ws_msg(const Msg &m);                                        // CoAP part only
Bytes ws_frame(const Bytes &payload, bool masked, const uint8_t mask[4], int opcode = 2, int force_len_form = 0);

bool is_critical(uint32_t num);
bool is_unsafe(uint32_t num);
bool is_repeatable(uint32_t num);      // options defined as repeatable for requests/responses

}  // namespace r1
