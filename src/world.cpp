#include <cerrno>
#include "world.h"
#include <cstring>
#include <cstdarg>
#include <arpa/inet.h>

std::string strfmt(const char *fmt, ...) {
  char buf[4096];
  va_list ap;
  va_start(ap, fmt);
  vsnprintf(buf, sizeof buf, fmt, ap);
  va_end(ap);
  return buf;
}

static const char *act_name(Fault::Act a) {
  switch (a) {
  case Fault::DROP: return "drop";
  case Fault::DUP: return "dup";
  case Fault::DELAY: return "delay";
  case Fault::CORRUPT: return "corrupt";
  case Fault::SENDERR: return "senderr";
  }
  return "?";
}
void to_json(json &j, const Fault &f) {
  j = json{{"link", strfmt("%d>%d", f.from, f.to)}, {"idx", f.idx}, {"act", act_name(f.act)}};
  if (f.act == Fault::DUP) j["n"] = f.n;
  if (!f.delay_us.empty()) j["delay_us"] = f.delay_us;
  if (f.act == Fault::CORRUPT) { j["byte"] = f.byte; j["mask"] = f.mask; }
}
void from_json(const json &j, Fault &f) {
  std::string l = j.value("link", "0>1");
  sscanf(l.c_str(), "%d>%d", &f.from, &f.to);
  f.idx = j.value("idx", 0);
  std::string a = j.value("act", "drop");
  f.act = a == "dup" ? Fault::DUP : a == "delay" ? Fault::DELAY : a == "corrupt" ? Fault::CORRUPT : a == "senderr" ? Fault::SENDERR : Fault::DROP;
  f.n = j.value("n", 1);
  if (j.contains("delay_us")) f.delay_us = j["delay_us"].get<std::vector<int64_t>>();
  f.byte = j.value("byte", 0);
  f.mask = j.value("mask", 0);
  f.fired = false;
}

static World *g_world = nullptr;

extern "C" {
size_t verif_lock_size(void);
void *verif_lock_addr(void);
}
static std::map<int, Bytes> g_lock_img;     // node -> its image of libcoap's global_lock
static Bytes g_lock_pristine;
void World::lock_switch(int from, int to) {
  size_t n = verif_lock_size();
  if (!n || from == to || g_lock_pristine.empty()) return;
  uint8_t *p = (uint8_t *)verif_lock_addr();
  g_lock_img[from].assign(p, p + n);
  auto it = g_lock_img.find(to);
  memcpy(p, it == g_lock_img.end() ? g_lock_pristine.data() : it->second.data(), n);
}

static int world_prng(void *buf, size_t len) {
  uint8_t *o = (uint8_t *)buf;
  for (size_t i = 0; i < len; i++) o[i] = (uint8_t)g_world->lib_rng.next();
  return 1;
}
static void log_handler(coap_log_t level, const char *msg) {
  if (g_world && g_world->tr.echo) {
    size_t n = strlen(msg);
    printf("        libcoap<%d> %.*s\n", (int)level, (int)(n && msg[n - 1] == '\n' ? n - 1 : n), msg);
  }
}

void World::begin(uint64_t sched_salt, RunResult *r, bool keep_log, bool echo) {
  simk::reset();
  rng = Rng(mix3(sched_salt, 0xA1, 1));
  lib_rng = Rng(mix3(sched_salt, 0xB2, 2));
  simk::K().sysrng_state = mix3(sched_salt, 0xC3, 3);
  tr.reset(keep_log, echo || getenv("VERIF_ECHO") != nullptr);   // VERIF_ECHO=1: print trace lines as they happen (useful when a replay crashes)
  res = r;
  while (!q.empty()) q.pop();
  seq = 0;
  nodes.clear();
  deferred.clear();
  pollers.clear();
  taps.clear();
  stream_taps.clear();
  faults.clear();
  link_count.clear();
  partitioned.clear();
  rewrite = nullptr;
  read_cuts.clear();
  write_cuts.clear();
  write_stalls.clear();
  deliver_chunks.clear();
  read_cut_source = nullptr;
  default_read_cut = 0;
  icmp_on_nosock = false;
  base_latency_us = 1000;
  events = 0;
  depth = 0;
  aborted = false;
  abort_why.clear();
  max_events = 200000;
  max_spin = 20000;
  max_sim_ns = 4000ull * 1000000000ull;
  start_ns = simk::K().now_ns;
  g_world = this;
  auto &h = simk::K().hooks;
  h.on_datagram = [this](const simk::Datagram &d, int from) { on_datagram(d, from); };
  h.block = [this](int node, std::function<bool()> ready, int64_t to) { block(node, std::move(ready), to); };
  h.on_connect = [this](int fd, simk::Addr) {
    after_us(base_latency_us, [fd]() { simk::complete_connect(fd, true); });
  };
  h.on_stream_data = [this](simk::Stream *s, int side, const Bytes &b) {
    count("probe.stream_bytes", b.size());
    for (auto &t : stream_taps) t(s->id, side, b);
    auto it = deliver_chunks.find({s->id, side});
    size_t off = 0;
    int64_t delay = base_latency_us;
    while (off < b.size()) {
      size_t n = b.size() - off;
      if (it != deliver_chunks.end() && !it->second.empty()) {
        size_t c = it->second.front();
        it->second.pop_front();
        if (c == 0) c = 1;
        if (c < n) { n = c; count("fault.segmented_delivery"); }
      }
      Bytes copy(b.begin() + (long)off, b.begin() + (long)(off + n));
      after_us(delay, [s, side, copy]() { simk::deliver_stream(s, 1 - side, copy); });
      off += n;
      delay += 1000;
    }
  };
  h.on_stream_close = [this](simk::Stream *s, int side) {
    after_us(base_latency_us, [s, side]() { simk::deliver_fin(s, 1 - side, false); });
  };
  h.read_cut = [this](simk::Stream *s, int side, size_t, size_t) -> size_t {
    auto key = std::make_pair(s->id, side);
    auto it = read_cuts.find(key);
    if (it == read_cuts.end() && read_cut_source) {
      read_cuts[key] = read_cut_source(s->id, side);
      it = read_cuts.find(key);
    }
    if (it != read_cuts.end() && !it->second.empty()) {
      size_t c = it->second.front();
      it->second.pop_front();
      count("fault.read_cut");
      return c;
    }
    return default_read_cut;
  };
  h.write_blocked = [this](simk::Stream *s, int side) -> bool {
    auto it = write_stalls.find({s->id, side});
    if (it == write_stalls.end()) return false;
    for (auto &win : it->second)
      if (now() >= win.first && now() < win.second) { count("fault.write_stalled"); return true; }
    return false;
  };
  h.write_cut = [this](simk::Stream *s, int side, size_t) -> size_t {
    auto it = write_cuts.find({s->id, side});
    if (it != write_cuts.end() && !it->second.empty()) {
      size_t c = it->second.front();
      it->second.pop_front();
      count(c ? "fault.short_write" : "fault.eagain");
      return c;
    }
    return SIZE_MAX;
  };
  coap_startup();
  g_lock_img.clear();
  if (verif_lock_size()) { uint8_t *lp = (uint8_t *)verif_lock_addr(); g_lock_pristine.assign(lp, lp + verif_lock_size()); }
  coap_set_log_handler(log_handler);
  coap_set_log_level(getenv("VERIF_LIBLOG") ? (coap_log_t)atoi(getenv("VERIF_LIBLOG")) : COAP_LOG_EMERG);   // debugging aid for replays (with VERIF_ECHO=1)
  coap_set_prng(world_prng);
}

void World::end() {
  coap_cleanup();
  if (res) {
    res->trace_hash = tr.h;
    res->events = events;
    res->sim_us = (simk::K().now_ns - start_ns) / 1000;
    if (tr.keep) res->log = tr.lines;
    for (auto &f : faults)
      if (f.fired) res->counters[std::string("fault.") + act_name(f.act)]++;
    if (aborted) res->counters["probe.run_aborted"]++;
  }
  simk::K().hooks = simk::NetHooks();
  g_world = nullptr;
}

void World::stall_writes(uint64_t stream, int side, uint64_t from_ns, uint64_t until_ns) {
  write_stalls[{stream, side}].push_back({from_ns, until_ns});
  at_ns(until_ns, []() {}, -1);     // the socket becomes writable again: an event at that instant lets the loop look
}

int World::add_node(coap_context_t *ctx) {
  NodeRec n;
  n.ctx = ctx;
  nodes.push_back(n);
  return (int)nodes.size() - 1;
}

void World::at_ns(uint64_t t_ns, std::function<void()> fn, int node) {
  if (t_ns < now()) t_ns = now();
  q.push(Ev{t_ns, ++seq, node, std::move(fn)});
}

void World::log(const char *fmt, ...) {
  char buf[2048];
  va_list ap;
  va_start(ap, fmt);
  vsnprintf(buf, sizeof buf, fmt, ap);
  va_end(ap);
  tr.ev(now_us(), "%s", buf);
}

void World::to_coap_addr(const simk::Addr &a, coap_address_t *out) {
  coap_address_init(out);
  out->size = sizeof(struct sockaddr_in);
  out->addr.sin.sin_family = AF_INET;
  out->addr.sin.sin_addr.s_addr = htonl(a.ip);
  out->addr.sin.sin_port = htons(a.port);
}
simk::Addr World::from_coap_addr(const coap_address_t *a) {
  simk::Addr r;
  if (a && a->addr.sa.sa_family == AF_INET) {
    r.ip = ntohl(a->addr.sin.sin_addr.s_addr);
    r.port = ntohs(a->addr.sin.sin_port);
  }
  return r;
}

void World::step_node(int n) {
  NodeRec &nd = nodes[n];
  if (!nd.ctx) return;
  AsNode as(n);
  nd.steps++;
  events++;
  coap_io_process(nd.ctx, COAP_IO_NO_WAIT);
  if (nodes[n].after_step) nodes[n].after_step();
}

bool World::loop(const std::function<bool()> &stop, uint64_t until_ns) {
  uint64_t spin = 0;
  for (;;) {
    if (aborted) return false;
    if (stop && stop()) return true;
    if (events > max_events) { aborted = true; abort_why = "max_events"; return false; }
    if (now() - start_ns > max_sim_ns) { aborted = true; abort_why = "max_sim_time"; return false; }
    // 1. step every node that has something to do right now
    bool stepped = false;
    size_t nn = nodes.size();
    size_t first = nn > 1 ? (size_t)rng.below(nn) : 0;
    for (size_t k = 0; k < nn; k++) {
      size_t i = (first + k) % nn;
      NodeRec &nd = nodes[i];
      if (!nd.ctx || nd.blocked || nd.dead || nd.stall_until_ns > now()) continue;
      if (simk::node_ready((int)i)) {
        step_node((int)i);
        stepped = true;
        if (stop && stop()) return true;
      }
    }
    for (auto &p : pollers) p();
    if (stepped) {
      if (++spin > max_spin) { aborted = true; abort_why = "spin"; if (res) res->violate("M-mem.spin", "spin", "node ready forever without time advancing"); return false; }
      continue;
    }
    // 2. nothing runnable now: next event or timer
    uint64_t tn = UINT64_MAX;
    bool is_event = false;
    if (!q.empty()) { tn = q.top().t; is_event = true; }
    for (size_t i = 0; i < nn; i++) {
      NodeRec &nd = nodes[i];
      if (!nd.ctx || nd.blocked || nd.dead) continue;
      uint64_t t = simk::node_next_timer_ns((int)i);
      if (t && t < nd.stall_until_ns) t = nd.stall_until_ns;
      if (!t && nd.stall_until_ns > now() && simk::node_ready((int)i)) t = nd.stall_until_ns;
      if (t && t < tn) { tn = t; is_event = false; }
    }
    if (tn == UINT64_MAX) return true;      // quiescent
    if (tn > until_ns) {
      if (until_ns > now()) simk::K().now_ns = until_ns;
      return true;
    }
    if (tn > now()) {
      if (tn - now() > long_sleep_ns) {
        // nothing but a wake-up hours away is left: the run is quiescent for every purpose of the oracles
        tr.ev(now_us(), "long sleep: next %s in %.1f s - treated as quiescent", is_event ? "event" : "timer", (tn - now()) / 1e9);
        count("probe.long_sleep");
        return true;
      }
      simk::K().now_ns = tn;
      spin = 0;
    }
    if (is_event) {
      Ev e = q.top();
      q.pop();
      if (e.node >= 0 && e.node < (int)nn && nodes[e.node].blocked) {
        deferred.push_back(std::move(e));
        continue;
      }
      events++;
      if (e.node >= 0) { AsNode as(e.node); e.fn(); }
      else e.fn();
      for (auto &p : pollers) p();
    }
  }
}

bool World::run(uint64_t until_ns) { return loop(nullptr, until_ns); }

bool World::advance_one(uint64_t limit_ns) {
  if (!q.empty() && q.top().t <= limit_ns) {
    Ev e = q.top();
    q.pop();
    if (e.t > now()) simk::K().now_ns = e.t;
    events++;
    e.fn();
    return true;
  }
  if (limit_ns != UINT64_MAX) {
    if (limit_ns > now()) simk::K().now_ns = limit_ns;
    return true;
  }
  return false;
}

void World::block(int node, std::function<bool()> ready, int64_t timeout_ms) {
  count("probe.nested_wait");
  uint64_t deadline = timeout_ms < 0 ? UINT64_MAX : now() + (uint64_t)timeout_ms * 1000000ull;
  if (depth >= 6 || aborted) {
    // too deep: behave like a stalled node, jump the clock
    if (deadline != UINT64_MAX && deadline > now()) simk::K().now_ns = deadline;
    count("probe.nested_wait_overflow");
    return;
  }
  if (node < 0 || node >= (int)nodes.size()) {
    if (deadline != UINT64_MAX) simk::K().now_ns = deadline;
    return;
  }
  bool was = nodes[node].blocked;
  nodes[node].blocked = true;
  depth++;
  int save = simk::K().cur_node;
  loop(ready, deadline);
  simk::K().cur_node = save;
  depth--;
  nodes[node].blocked = was;
  if (!ready() ) {
    if (deadline == UINT64_MAX) {
      if (!aborted) { aborted = true; abort_why = "deadlock in blocking wait"; }
    } else if (now() < deadline && !aborted) {
      simk::K().now_ns = deadline;   // quiescent before the deadline: sleep it out
    }
  }
  if (!was) {
    for (auto &e : deferred) q.push(Ev{now(), ++seq, e.node, std::move(e.fn)});
    deferred.clear();
  }
}

static void mix_wire(Trace &tr, uint64_t t_us, int kind, int from, int to, int idx, int copy, const Bytes &data) {
  int rec[5] = {kind, from, to, idx, copy};
  tr.mixbytes(&t_us, sizeof t_us);
  tr.mixbytes(rec, sizeof rec);
  tr.mixbytes(data.data(), data.size());
  tr.n++;
}

void World::send_copy(const simk::Datagram &d, int from, int to, int idx, int copy, int64_t delay_us) {
  simk::Datagram c = d;
  after_us(delay_us, [this, c, from, to, idx, copy]() {
    int reached = simk::deliver_datagram(c);
    WireEv ev{reached ? WireEv::DELIVER : WireEv::NOSOCK, now(), &c, from, to, idx, copy};
    mix_wire(tr, now_us(), reached ? 2 : 3, from, to, idx, copy, c.data);
    if (trace_wire) tr.line(now_us(), "%s %d>%d #%d.%d %s", reached ? "deliver" : "nosock", from, to, idx, copy, hex(c.data).c_str());
    for (auto &t : taps) t(ev);
    if (!reached && icmp_on_nosock) simk::deliver_icmp_unreach(c);
  });
}

void World::on_datagram(const simk::Datagram &d, int from) {
  int to = node_of_ip(d.dst.ip);
  int idx = link_count[{from, to}]++;
  int gidx = link_count[{-1, -1}]++;
  mix_wire(tr, now_us(), 1, from, to, idx, 0, d.data);
  if (trace_wire) tr.line(now_us(), "send %d>%d #%d %s>%s %s", from, to, idx, d.src.str().c_str(), d.dst.str().c_str(), hex(d.data).c_str());
  WireEv ev{WireEv::SEND, now(), &d, from, to, idx, 0};
  for (auto &t : taps) t(ev);
  count("probe.datagrams");
  if (partitioned.count({from, to})) {
    count("fault.partition_drop");
    WireEv dv{WireEv::DROP, now(), &d, from, to, idx, 0};
    mix_wire(tr, now_us(), 4, from, to, idx, 0, Bytes());
    if (trace_wire) tr.line(now_us(), "drop(partition) %d>%d #%d", from, to, idx);
    for (auto &t : taps) t(dv);
    return;
  }
  if (rewrite) {
    simk::Datagram c = d;
    if (rewrite(c, from, to, idx)) {
      count("fault.rewrite");
      send_copy(c, from, to, idx, 0, base_latency_us);
      return;
    }
  }
  Fault *f = nullptr;
  for (auto &x : faults)
    if ((x.from == from && x.to == to && x.idx == idx) || (x.from == -1 && x.to == -1 && x.idx == gidx)) { f = &x; break; }
  if (!f) { send_copy(d, from, to, idx, 0, base_latency_us); return; }
  f->fired = true;
  switch (f->act) {
  case Fault::DROP: {
    WireEv dv{WireEv::DROP, now(), &d, from, to, idx, 0};
    mix_wire(tr, now_us(), 5, from, to, idx, 0, Bytes());
    if (trace_wire) tr.line(now_us(), "drop %d>%d #%d", from, to, idx);
    for (auto &t : taps) t(dv);
    break;
  }
  case Fault::SENDERR: {
    // the attempt is visible to the monitors (SEND then DROP: the library tried at this instant), the caller gets -1/ENOBUFS
    WireEv dv{WireEv::DROP, now(), &d, from, to, idx, 0};
    mix_wire(tr, now_us(), 6, from, to, idx, 0, Bytes());
    if (trace_wire) tr.line(now_us(), "send-error %d>%d #%d (ENOBUFS)", from, to, idx);
    for (auto &t : taps) t(dv);
    simk::K().pending_send_errno = ENOBUFS;
    break;
  }
  case Fault::DELAY:
    send_copy(d, from, to, idx, 0, base_latency_us + (f->delay_us.empty() ? 0 : f->delay_us[0]));
    break;
  case Fault::DUP:
    send_copy(d, from, to, idx, 0, base_latency_us);
    for (int i = 0; i < f->n; i++)
      send_copy(d, from, to, idx, i + 1, base_latency_us + ((size_t)i < f->delay_us.size() ? f->delay_us[i] : 0));
    break;
  case Fault::CORRUPT: {
    simk::Datagram c = d;
    if (!c.data.empty()) c.data[(size_t)f->byte % c.data.size()] ^= (uint8_t)(f->mask ? f->mask : 1);
    send_copy(c, from, to, idx, 0, base_latency_us);
    break;
  }
  }
}
