// C15 — OSCORE never accepts a replay or reuses a nonce; forgeries leave no trace.
// Two worlds, chosen by the plan:
//  "recipient": libcoap OSCORE server <- scripted peer holding the client side of the context through R9; generated
//               sequences over {fresh with any gap, older unseen number, replay of an earlier message, forgery with any
//               claimed Partial IV}; replay windows 1..63, Appendix B.1.2 on/off; dup/delay faults add network replays.
//  "sender":    libcoap OSCORE client -> libcoap OSCORE server with a save callback (ssn_freq 1..10); the client process
//               is killed at generated instants and restarted from the sequence number last handed to the callback.
#include "osc.h"

namespace {

struct Sent {
  uint64_t seq = 0;
  Bytes bytes;
  bool forged = false;
};

struct C15World {
  World w;
  RunResult *res = nullptr;
  osc::Params prm;
  // recipient world
  std::map<uint64_t, int> handled;          // seq (from the encrypted Uri-Query) -> handler invocations
  std::map<Bytes, std::string> forged_tokens;   // token -> kind
  uint64_t handler_runs = 0;
  // sender world
  std::vector<uint64_t> saved;              // values handed to the save callback by the current incarnation
  uint64_t last_saved = 0;
  bool have_saved = false;
  bool dead = false;
  int responses = 0;
};
C15World *g = nullptr;

void hnd(coap_resource_t *, coap_session_t *, const coap_pdu_t *request, const coap_string_t *query, coap_pdu_t *response) {
  Bytes tok = cx::tok_of(request);
  g->handler_runs++;
  auto ft = g->forged_tokens.find(tok);
  if (ft != g->forged_tokens.end()) g->res->violate("R9.forgery_reached_handler", ft->second, strfmt("the request handler ran for forged message (token %s, %s)", hex(tok).c_str(), ft->second.c_str()));
  if (query && query->length > 2 && query->s[0] == 's' && query->s[1] == '=') {
    uint64_t s = strtoull(std::string((const char *)query->s + 2, query->length - 2).c_str(), nullptr, 10);
    int n = ++g->handled[s];
    g->w.log("HANDLER seq=%llu (%d)", (unsigned long long)s, n);
    if (n > 1) g->res->violate("R9.replay_accepted", "handler_ran_twice", strfmt("the request protected with sequence number %llu was accepted %d times", (unsigned long long)s, n));
  }
  coap_pdu_set_code(response, COAP_RESPONSE_CODE_CHANGED);
}

int save_cb(uint64_t seq, void *) {
  if (g->dead) return 1;
  g->saved.push_back(seq);
  g->last_saved = seq;
  g->have_saved = true;
  g->w.log("SAVE-SSN %llu", (unsigned long long)seq);
  return 1;
}

coap_response_t resp_cb(coap_session_t *, const coap_pdu_t *, const coap_pdu_t *, const coap_mid_t) {
  g->responses++;
  return COAP_RESPONSE_OK;
}

struct C15 : Property {
  C15() {
    id = "C15";
    technique = "deterministic simulation with fault injection: (a) real libcoap OSCORE server against a scripted peer that protects requests with an independent RFC 8613 implementation (R9) under chosen sequence numbers - seeded sequences of fresh / older / replayed / forged messages with network duplication and delay, checked against a reference replay-window model; (b) real libcoap OSCORE client with save callback killed and restarted at generated instants, Partial IVs on the wire checked for uniqueness across incarnations";
    rule_text = "recipient plans = security context x replay window 1..63 x Appendix B.1.2 on/off x 5..40 messages (fresh with gap 1..300 incl. 63/64/65/128, older unseen number inside or outside the window, replay of any earlier genuine message under a new mid, forgery with claimed Partial IV = top+1 / top+gap / far ahead / an already used number, produced with a wrong key, a flipped ciphertext bit or garbage) x dup/delay faults. sender plans = ssn_freq 1..10 x start sequence number x 2..5 incarnations x 0..12 requests per incarnation, kill at a generated instant (also between the save callback and the send, as far as the API allows: right after any coap_send). Non-trivial: recipient: at least one replay or forgery was delivered after an accepted message; sender: at least one restart after a message was sent. distinct = distinct trace hash.";
    real_components = {"libcoap src/oscore/oscore.c (oscore_validate_sender_seq, roll-back on failed decryption), coap_oscore.c (decrypt/encrypt paths, Echo B.1.2, sequence-number saving with ssn_freq, start_seq_num on restart)"};
    stub_components = {"simk clock/UDP", "scripted peer using R9 for protection (recipient world)", "process kill = the client context is abandoned: nothing it does afterwards is observed and the new incarnation only gets the last saved number"};
    assumptions = {"a message whose number is above every number accepted so far must be accepted; an unseen number strictly inside the configured window must be accepted; numbers at or beyond the window edge may be refused",
                   "the encrypted Uri-Query s=<n> identifies the sequence number a delivered request was protected with"};
    quick_budget_s = 35;
    thorough_budget_s = 600;
  }

  json generate(uint64_t base, uint64_t index, bool) override {
    Rng r(mix3(base, 0xC15, index));
    json p;
    p["property"] = "C15";
    p["seed"] = base;
    p["index"] = index;
    p["sched_salt"] = r.next() & 0xffffffff;
    osc::Params prm = osc::gen_params(r);
    bool sender = r.chance(0.35);
    p["mode"] = sender ? "sender" : "recipient";
    if (sender) {
      prm.ssn_freq = (int)r.range(1, 10);
      prm.b12 = r.chance(0.3);
      json pj;
      osc::to_json(pj, prm);
      p["ctx"] = pj;
      p["start_seq"] = r.chance(0.5) ? 0 : r.chance(0.5) ? r.below(300) : r.below(1ull << 39);
      json inc = json::array();
      int ni = (int)r.range(2, 5);
      for (int i = 0; i < ni; i++) {
        json sends = json::array();
        int ns = (int)r.range(0, 12);
        int64_t t = 0;
        for (int k = 0; k < ns; k++) { t += r.chance(0.6) ? r.range(0, 20) : r.range(20, 4000); sends.push_back({{"t_ms", t}, {"con", r.chance(0.6)}}); }
        inc.push_back({{"sends", sends}, {"kill_ms", r.chance(0.5) ? r.range(0, t + 5) : r.range(t, t + 8000)}});
      }
      p["incarnations"] = inc;
      p["faults"] = json::array();
      return p;
    }
    prm.window = r.chance(0.3) ? 32 : (int)r.range(1, 63);
    json pj;
    osc::to_json(pj, prm);
    p["ctx"] = pj;
    p["first_seq"] = r.chance(0.5) ? (r.chance(0.4) ? 0 : r.below(10)) : r.below(1ull << 38);
    bool hostile_first = r.chance(0.25);     // the very first protected message the recipient context ever sees may be a forgery
    json ops = json::array();
    int n = (int)r.range(5, 40);
    int64_t t = 0;
    static const int gaps[] = {1, 1, 1, 2, 3, 5, 17, 31, 32, 33, 62, 63, 64, 65, 100, 128, 129, 300};
    for (int i = 0; i < n; i++) {
      t += r.chance(0.6) ? r.range(1, 30) : r.range(30, 3000);
      double x = (r.next() >> 11) * (1.0 / 9007199254740992.0);
      json o = {{"t_ms", t}, {"con", r.chance(0.5)}};
      if (x < 0.40 || (i == 0 && !hostile_first)) { o["kind"] = "fresh"; o["gap"] = gaps[r.below(18)]; }
      else if (x < 0.55) { o["kind"] = "older"; o["back"] = r.chance(0.7) ? r.range(1, 70) : r.range(1, 400); }
      else if (x < 0.78) { o["kind"] = "replay"; o["ref"] = r.below(1000); }
      else {
        o["kind"] = "forged";
        static const char *const how[] = {"wrong_key", "wrong_key", "bitflip", "garbage"};
        static const char *const claim[] = {"top_plus_1", "top_plus_gap", "far_ahead", "used", "below"};
        o["how"] = how[r.below(4)];
        o["claim"] = claim[r.below(5)];
        o["gap"] = gaps[r.below(18)];
        o["pos"] = r.below(100000);
      }
      ops.push_back(o);
    }
    p["ops"] = ops;
    json faults = json::array();
    if (r.chance(0.5))
      for (int k = 0; k < 40; k++) {
        if (!r.chance(0.1)) continue;
        double x = (r.next() >> 11) * (1.0 / 9007199254740992.0);
        if (x < 0.6) faults.push_back({{"link", "1>0"}, {"idx", k}, {"act", "dup"}, {"n", (int)r.range(1, 2)}, {"delay_us", {r.range(0, 5000000), r.range(0, 5000000)}}});
        else if (x < 0.9) faults.push_back({{"link", "1>0"}, {"idx", k}, {"act", "delay"}, {"delay_us", {r.range(0, 5000000)}}});
        else faults.push_back({{"link", "1>0"}, {"idx", k}, {"act", "drop"}});
      }
    p["faults"] = faults;
    return p;
  }

  coap_context_t *make_server(C15World &cw, uint64_t start_seq) {
    World &w = cw.w;
    coap_context_t *sctx = cx::new_context(w, 0);
    {
      World::AsNode as(0);
      coap_context_set_block_mode(sctx, COAP_BLOCK_USE_LIBCOAP);
      std::string ct = osc::conf_text(cw.prm, false);
      coap_str_const_t cs = {ct.size(), (const uint8_t *)ct.data()};
      coap_oscore_conf_t *oc = coap_new_oscore_conf(cs, nullptr, nullptr, start_seq);
      if (!oc || !coap_context_oscore_server(sctx, oc)) w.count("probe.setup_refused");
      coap_resource_t *ru = coap_resource_unknown_init2(hnd, 0);
      for (int mth = 1; mth <= 7; mth++) coap_register_request_handler(ru, (coap_request_t)mth, hnd);
      coap_add_resource(sctx, ru);
    }
    cx::new_endpoint(w, 0, sctx, 5683, COAP_PROTO_UDP);
    return sctx;
  }

  // ------------------------------------------------------------------------------------------ recipient world
  void run_recipient(const json &plan, C15World &cw, RunResult &res) {
    World &w = cw.w;
    coap_context_t *sctx = make_server(cw, 0);
    r9::Ctx cli = osc::r9_ctx(cw.prm, true);
    osc::Params wp = cw.prm;
    wp.secret[5] ^= 0x10;
    r9::Ctx wrong = osc::r9_ctx(wp, true);
    int fd = simk::raw_udp_socket(1, World::node_addr(1, 40000));
    simk::Addr srv = World::node_addr(0, 5683);
    for (auto &f : plan["faults"]) w.faults.push_back(f.get<Fault>());
    std::vector<Sent> sent;                 // genuine messages in sending order
    std::set<uint64_t> used;                // sequence numbers used for genuine messages
    uint64_t top = plan.value("first_seq", (uint64_t)0);
    bool any = false;
    Bytes echo;                             // Echo value demanded by the server (B.1.2)
    int midctr = 0x100, tokctr = 0;
    std::map<Bytes, std::pair<Bytes, Bytes>> req_of;     // token -> (kid, piv) for unprotecting responses
    // reference model of the recipient's replay state, driven by the genuine datagrams in arrival order
    bool synced = !cw.prm.b12;
    bool m_init = true;
    uint64_t m_top = 0;
    std::set<uint64_t> m_seen;
    std::map<uint64_t, bool> must_accept;   // seq -> some delivery of it had to be accepted
    std::map<Bytes, uint64_t> genuine;      // datagram payload (ciphertext) -> seq
    std::map<Bytes, Bytes> with_echo;       // ciphertext -> Echo value it carried (empty: none)
    Bytes server_echo;                      // the value the server currently demands (latest challenge it sent)
    bool hostile_after_accept = false;
    auto make = [&](uint64_t seq, bool con, const r9::Ctx &ctx, bool forged, const std::string &fk) -> Bytes {
      r1::Msg m, out;
      m.type = con ? 0 : 1;
      m.code = 3;
      m.mid = (midctr++) & 0xffff;
      tokctr++;
      m.token = {0xC1, 0x50, (uint8_t)(tokctr >> 8), (uint8_t)tokctr};
      m.opts.push_back({11, Bytes{'r'}});
      std::string q = "s=" + std::to_string(seq);
      m.opts.push_back({15, Bytes(q.begin(), q.end())});
      if (!echo.empty()) m.opts.push_back({252, echo});
      m.payload = {'d', 'a', 't', 'a'};
      if (forged) m.payload = {'e', 'v', 'i', 'l', (uint8_t)tokctr};     // never the same ciphertext as a genuine message
      if (forged) cw.forged_tokens[m.token] = fk;
      if (!r9::protect(ctx, m, true, seq, cw.prm.has_idctx /* libcoap looks a context with ID Context up by kid context too */, false, {}, {}, out)) return {};
      Bytes kid, piv, kc;
      bool hkc, hk;
      if (const r1::Opt *oo = out.find(osc::O_OSCORE)) { r9::parse_option_value(oo->val, piv, hkc, kc, hk, kid); req_of[m.token] = {kid, piv}; }
      if (!forged) { genuine[out.payload] = seq; with_echo[out.payload] = echo; }
      return r1::encode_udp(out);
    };
    w.taps.push_back([&](const WireEv &e) {
      if (e.kind == WireEv::SEND && e.from == 0) {
        // a challenge (4.01 + Echo, protected) replaces the value the server accepts
        r1::Msg m, plain;
        if (r1::decode_udp(e.d->data, m) != r1::ACCEPT || m.code == 0 || !m.find(osc::O_OSCORE)) return;
        auto rq = req_of.find(m.token);
        if (rq == req_of.end() || !r9::unprotect(cli, m, false, rq->second.first, rq->second.second, plain)) return;
        if (plain.code == 129) if (const r1::Opt *eo = plain.find(252)) server_echo = eo->val;
        return;
      }
      if (e.kind != WireEv::DELIVER || e.to != 0) return;
      r1::Msg m;
      if (r1::decode_udp(e.d->data, m) != r1::ACCEPT || m.code == 0) return;
      auto gi = genuine.find(m.payload);
      if (gi == genuine.end()) { if (!m_init) hostile_after_accept = true; return; }
      uint64_t s = gi->second;
      if (!synced) {
        // Appendix B.1.2: until a request with the demanded Echo value got through, everything is challenged
        if (with_echo[m.payload].empty() || with_echo[m.payload] != server_echo) return;
        synced = true;
      }
      w.log("MODEL genuine seq=%llu arrives: init=%d top=%llu seen=%d", (unsigned long long)s, (int)m_init, (unsigned long long)m_top, (int)m_seen.count(s));
      if (m_init) { m_init = false; m_top = s; m_seen.insert(s); must_accept[s] = true; return; }
      if (s > m_top) { m_top = s; m_seen.insert(s); must_accept[s] = true; return; }
      if (m_seen.count(s)) { hostile_after_accept = true; return; }       // replay: must not be accepted (R9.replay_accepted)
      uint64_t shift = m_top - s - 1;
      if (shift + 1 < (uint64_t)cw.prm.window && shift < 63) { m_seen.insert(s); must_accept[s] = true; }
      else w.count("probe.outside_window");
    });
    // the peer: acknowledge separate responses, learn the Echo value
    w.pollers.push_back([&]() {
      simk::Datagram d;
      while (simk::raw_recv(fd, d)) {
        r1::Msg m;
        if (r1::decode_udp(d.data, m) != r1::ACCEPT) continue;
        if (m.type == 0) { r1::Msg a; a.type = 2; a.mid = m.mid; simk::raw_sendto(fd, d.src, r1::encode_udp(a)); }
        if (m.code == 0 || !m.find(osc::O_OSCORE)) continue;
        auto rq = req_of.find(m.token);
        if (rq == req_of.end()) continue;
        r1::Msg plain;
        if (!r9::unprotect(cli, m, false, rq->second.first, rq->second.second, plain)) continue;
        if (plain.code == 129) if (const r1::Opt *eo = plain.find(252)) { echo = eo->val; w.count("probe.echo_challenge"); }
      }
    });
    size_t nops = plan["ops"].size();
    for (size_t i = 0; i < nops; i++) {
      json o = plan["ops"][i];
      // with B.1.2 the first two messages are the challenge round; give it time
      uint64_t at = w.now() + (uint64_t)(o.value("t_ms", (int64_t)0) + (cw.prm.b12 ? 20 : 0) * (int64_t)(i > 0)) * 1000000ull;
      w.at_ns(at, [&, o]() {
        std::string kind = o.value("kind", "fresh");
        bool con = o.value("con", true);
        Bytes b;
        if (kind == "replay" && sent.empty()) kind = "fresh";
        if (kind == "older" && !any) kind = "fresh";
        if (kind == "fresh") {
          uint64_t s = any ? top + (uint64_t)std::max(1, o.value("gap", 1)) : top;
          if (s >= (1ull << 40) - 1) return;
          top = s;
          any = true;
          used.insert(s);
          b = make(s, con, cli, false, "");
          if (!b.empty()) sent.push_back(Sent{s, b, false});
          w.log("PEER fresh seq=%llu", (unsigned long long)s);
        } else if (kind == "older") {
          uint64_t back = (uint64_t)std::max<int64_t>(1, o.value("back", (int64_t)1));
          if (back > top) return;
          uint64_t s = top - back;
          while (used.count(s) && s > 0 && top - s < back + 70) s--;
          if (used.count(s)) return;
          used.insert(s);
          b = make(s, con, cli, false, "");
          if (!b.empty()) sent.push_back(Sent{s, b, false});
          w.log("PEER older seq=%llu (top %llu)", (unsigned long long)s, (unsigned long long)top);
        } else if (kind == "replay") {
          const Sent &old = sent[o.value("ref", (uint64_t)0) % sent.size()];
          b = old.bytes;
          if (b.size() > 3) { int m2 = (midctr++) & 0xffff; b[2] = (uint8_t)(m2 >> 8); b[3] = (uint8_t)m2; }   // the attacker picks a new mid
          w.count("probe.replay_sent");
          w.log("PEER replay seq=%llu", (unsigned long long)old.seq);
        } else {
          std::string how = o.value("how", "wrong_key"), claim = o.value("claim", "top_plus_1");
          uint64_t gap = (uint64_t)std::max(1, o.value("gap", 1));
          uint64_t s = claim == "top_plus_1" ? top + 1 : claim == "top_plus_gap" ? top + gap : claim == "far_ahead" ? (1ull << 40) - 2 - gap : claim == "used" && !sent.empty() ? sent[gap % sent.size()].seq : (top > gap ? top - gap : 0);
          if (s >= (1ull << 40) - 1) s = (1ull << 40) - 2;
          std::string fk = how + "," + claim;
          if (how == "wrong_key") b = make(s, con, wrong, true, fk);
          else {
            b = make(s, con, cli, true, fk);
            r1::Msg m;
            if (!b.empty() && r1::decode_udp(b, m) == r1::ACCEPT && !m.payload.empty()) {
              genuine.erase(m.payload);
              if (how == "bitflip") m.payload[o.value("pos", (uint64_t)0) % m.payload.size()] ^= 0x04;
              else for (size_t k = 0; k < m.payload.size(); k++) m.payload[k] = (uint8_t)(k * 37 + 11);
              b = r1::encode_udp(m);
            }
          }
          w.count("probe.forgery_sent");
          w.log("PEER forged claim=%llu (%s)", (unsigned long long)s, fk.c_str());
        }
        if (!b.empty()) simk::raw_sendto(fd, srv, b);
      }, -1);
    }
    w.run();
    if (w.aborted) res.violate("M-live.abort", w.abort_why, "run did not quiesce: " + w.abort_why);
    for (auto &kv : must_accept)
      if (kv.second && cw.handled[kv.first] == 0)
        res.violate("R9.genuine_message_refused", hostile_after_accept ? "after_replay_or_forgery" : "plain_sequence", strfmt("the genuine request protected with sequence number %llu arrived %s (replay window %d) and was never accepted", (unsigned long long)kv.first, "above every number accepted before or unseen inside the window", cw.prm.window));
    res.nontrivial = hostile_after_accept && cw.handler_runs > 0;
    {
      World::AsNode as(0);
      coap_free_context(sctx);
    }
  }

  // ------------------------------------------------------------------------------------------ sender world
  void run_sender(const json &plan, C15World &cw, RunResult &res) {
    World &w = cw.w;
    coap_context_t *sctx = make_server(cw, 0);
    std::map<Bytes, Bytes> piv_use;      // Partial IV -> ciphertext, over all incarnations of the client
    std::map<Bytes, int> piv_inc;
    int incarnation = 0;
    bool restarted_after_send = false, sent_any = false;
    w.taps.push_back([&](const WireEv &e) {
      if (e.kind != WireEv::SEND || e.from != 1 || cw.dead) return;
      r1::Msg m;
      if (r1::decode_udp(e.d->data, m) != r1::ACCEPT || m.code == 0) return;
      const r1::Opt *oo = m.find(osc::O_OSCORE);
      if (!oo) return;
      Bytes piv, kc, kid;
      bool hkc, hk;
      if (!r9::parse_option_value(oo->val, piv, hkc, kc, hk, kid) || piv.empty()) return;
      sent_any = true;
      w.count("probe.protected_requests");
      auto ins = piv_use.insert({piv, m.payload});
      if (ins.second) { piv_inc[piv] = incarnation; return; }
      if (ins.first->second != m.payload)
        res.violate("R9.nonce_reuse", piv_inc[piv] == incarnation ? "same_incarnation" : "across_restart", strfmt("Partial IV %s protects two different messages (first used by incarnation %d, again by incarnation %d; last number handed to the save callback before the restart: %s)", hex(piv).c_str(), piv_inc[piv], incarnation, cw.have_saved ? std::to_string(cw.last_saved).c_str() : "none"));
    });
    uint64_t start_seq = plan.value("start_seq", (uint64_t)0);
    uint64_t t0 = w.now();
    for (auto &inc : plan["incarnations"]) {
      // (re)start the client from what is on stable storage
      uint64_t resume = cw.have_saved ? cw.last_saved : start_seq;
      cw.dead = false;
      cw.saved.clear();
      coap_context_t *cctx = cx::new_context(w, 1);
      coap_session_t *sess = nullptr;
      {
        World::AsNode as(1);
        coap_context_set_block_mode(cctx, COAP_BLOCK_USE_LIBCOAP);
        coap_register_response_handler(cctx, resp_cb);
        std::string ct = osc::conf_text(cw.prm, true);
        coap_str_const_t cs = {ct.size(), (const uint8_t *)ct.data()};
        coap_oscore_conf_t *oc = coap_new_oscore_conf(cs, save_cb, nullptr, resume);
        coap_address_t a;
        World::to_coap_addr(World::node_addr(0, 5683), &a);
        if (oc) sess = coap_new_client_session_oscore(cctx, nullptr, &a, COAP_PROTO_UDP, oc);
      }
      w.log("CLIENT-START incarnation=%d resume=%llu", incarnation, (unsigned long long)resume);
      if (!sess) { w.count("probe.setup_refused"); { World::AsNode as(1); coap_free_context(cctx); } w.set_ctx(1, nullptr); break; }
      int k = 0;
      for (auto &sd : inc["sends"]) {
        int kk = k++;
        bool con = sd.value("con", true);
        int my_inc = incarnation;
        w.at_ns(t0 + (uint64_t)sd.value("t_ms", (int64_t)0) * 1000000ull, [&w, &cw, &incarnation, my_inc, sess, con, kk]() {
          if (cw.dead || incarnation != my_inc) return;
          World::AsNode as(1);
          coap_pdu_t *p = coap_new_pdu(con ? COAP_MESSAGE_CON : COAP_MESSAGE_NON, COAP_REQUEST_CODE_PUT, sess);
          if (!p) return;
          uint8_t tk[3] = {0xC1, 0x51, (uint8_t)kk};
          coap_add_token(p, 3, tk);
          coap_add_option(p, COAP_OPTION_URI_PATH, 1, (const uint8_t *)"r");
          coap_add_data(p, 2, (const uint8_t *)"hi");
          coap_send(sess, p);
          (void)w;
        }, 1);     // an application blocked inside coap_new_pdu()/coap_send() (first OSCORE exchange) cannot issue the next call
      }
      uint64_t kill_at = t0 + (uint64_t)inc.value("kill_ms", (int64_t)0) * 1000000ull;
      w.run(kill_at);
      if (w.aborted) break;
      // kill -9: whatever the process would still do is not observed, nothing more reaches stable storage
      cw.dead = true;
      if (sent_any) restarted_after_send = true;
      w.log("CLIENT-KILLED incarnation=%d last_saved=%s", incarnation, cw.have_saved ? std::to_string(cw.last_saved).c_str() : "none");
      {
        World::AsNode as(1);
        coap_session_release(sess);
        coap_free_context(cctx);
      }
      w.set_ctx(1, nullptr);
      // datagrams of the dead process still in flight are delivered; a little quiet time before the next start
      w.run(w.now() + 3000000000ull);
      t0 = w.now();
      incarnation++;
    }
    if (w.aborted) res.violate("M-live.abort", w.abort_why, "run did not quiesce: " + w.abort_why);
    res.nontrivial = restarted_after_send && incarnation >= 2;
    {
      World::AsNode as(0);
      coap_free_context(sctx);
    }
  }

  void execute(const json &plan, RunResult &res, bool verbose) override {
    C15World cw;
    g = &cw;
    cw.res = &res;
    World &w = cw.w;
    w.begin(plan.value("sched_salt", 1ull), &res, verbose, false);
    w.max_sim_ns = 4000ull * 1000000000ull;
    osc::from_json(plan["ctx"], cw.prm);
    w.add_node(nullptr);
    w.add_node(nullptr);
    if (plan.value("mode", std::string("recipient")) == "sender") run_sender(plan, cw, res);
    else run_recipient(plan, cw, res);
    w.end();
    g = nullptr;
  }
};

struct Reg { Reg() { register_property(new C15()); } } reg;

}  // namespace
