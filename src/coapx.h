// Helpers around libcoap's public API used by every world.
#pragma once
#include "world.h"
#include "r1.h"

// Internal-but-exported PDU editing API (declared in coap_pdu_internal.h; prototypes repeated here so the harness
// needs no internal header).
extern "C" {
size_t coap_insert_option(coap_pdu_t *pdu, coap_option_num_t number, size_t len, const uint8_t *data);
size_t coap_update_option(coap_pdu_t *pdu, coap_option_num_t number, size_t len, const uint8_t *data);
int coap_remove_option(coap_pdu_t *pdu, coap_option_num_t number);
int coap_update_token(coap_pdu_t *pdu, size_t len, const uint8_t *data);
}

namespace cx {

coap_context_t *new_context(World &w, int node);
coap_endpoint_t *new_endpoint(World &w, int node, coap_context_t *ctx, uint16_t port, coap_proto_t proto, uint32_t ip = 0 /* 0 = node ip */);
coap_session_t *new_client(World &w, int node, coap_context_t *ctx, simk::Addr dst, coap_proto_t proto);

// Build a PDU through the public PDU API from an abstract message. Options are added in ascending order
// with coap_add_option unless insert_order is true (then in the given order with coap_insert_option).
// Returns nullptr if the API refused something (refused receives the index of the refused option or -1 token/-2 payload).
coap_pdu_t *pdu_from_msg(coap_session_t *s, const r1::Msg &m, bool set_mid, bool insert_order = false, int *refused = nullptr);
// Dump a PDU through the public accessors only.
r1::Msg msg_from_pdu(const coap_pdu_t *pdu);

inline Bytes tok_of(const coap_pdu_t *pdu) {
  coap_bin_const_t t = coap_pdu_get_token(pdu);
  return Bytes(t.s, t.s + t.length);
}
inline simk::Addr remote_of(const coap_session_t *s) { return World::from_coap_addr(coap_session_get_addr_remote(s)); }
inline simk::Addr local_of(const coap_session_t *s) { return World::from_coap_addr(coap_session_get_addr_local(s)); }

void set_fixed(coap_session_t *s, void (*setter)(coap_session_t *, coap_fixed_point_t), int milli);

}  // namespace cx
