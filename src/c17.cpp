// C17 — persisted observe state survives a crash at any point and is restored on restart.
// World: libcoap server (node 0) with coap_persist_startup() on three real files in a scratch directory, scripted raw peers
// (nodes 1..3) creating / deleting dynamic resources and registering / cancelling observations; the server process is
// killed at the k-th call boundary of the stdio / rename calls the persistence code makes (file-layer seam fsim), the disk
// image a killed process leaves is taken there, and a new server is started on that image.
#include "runner.h"
#include "world.h"
#include "coapx.h"
#include "fsim.h"
#include <unistd.h>

namespace {

struct ObsRec {
  int peer = 0;
  std::string res;
  Bytes token;
  bool confirmed = false;      // 2.xx + Observe left the server before the kill
  bool ended = false;          // cancelled (answer without Observe left the server), resource deleted, or unsure
  bool unsure = false;         // a cancel / delete was delivered but not confirmed: either outcome is fine
  uint32_t max_obs = 0;
  bool have_obs = false;
  int notified_after = 0;      // notifications received after the last restart
  bool bad_value_after = false;
  uint32_t first_after = 0;
};

struct C17World {
  World w;
  RunResult *res = nullptr;
  coap_context_t *ctx = nullptr;
  std::string dir;
  std::map<std::string, int> state;          // resource name -> value served
  // file layer
  int counter = 0, crash_at = -1;
  bool crashed = false;
  std::string crash_desc;
  std::map<std::string, Bytes> image;        // disk image at the kill
  std::map<std::string, Bytes> committed;    // main file -> content after its last completed rename
  int points_seen = 0;
  // model
  std::map<std::pair<int, std::string>, ObsRec> obs;     // (peer, resource)
  std::map<std::string, int> dyn;            // dynamic resource -> 0 unknown/in flight, 1 creation confirmed, 2 deletion requested, 3 deletion confirmed
  std::map<Bytes, std::pair<std::string, std::string>> req;   // token -> (kind, resource)
  int incarnation = 0;
  bool restarted = false;
  std::map<std::string, int> get_after;      // resource -> code of the GET after the last restart
};
C17World *g = nullptr;

const char *const MAINS[3] = {"dyn.txt", "observe.bin", "obscnt.txt"};

bool serial_gt(uint32_t a, uint32_t b) {
  a &= 0xffffff;
  b &= 0xffffff;
  return (a > b && a - b < (1u << 23)) || (a < b && b - a > (1u << 23));
}

void hnd_get(coap_resource_t *r, coap_session_t *, const coap_pdu_t *, const coap_string_t *, coap_pdu_t *response) {
  coap_str_const_t *n = coap_resource_get_uri_path(r);
  std::string name((const char *)n->s, n->length);
  int v = g->state[name];
  coap_pdu_set_code(response, COAP_RESPONSE_CODE_CONTENT);
  uint8_t b[2] = {(uint8_t)(v >> 8), (uint8_t)v};
  coap_add_data(response, 2, b);
}
void hnd_delete(coap_resource_t *r, coap_session_t *, const coap_pdu_t *, const coap_string_t *, coap_pdu_t *response) {
  coap_delete_resource(nullptr, r);
  coap_pdu_set_code(response, COAP_RESPONSE_CODE_DELETED);
}
void hnd_put_existing(coap_resource_t *r, coap_session_t *, const coap_pdu_t *, const coap_string_t *, coap_pdu_t *response) {
  coap_str_const_t *n = coap_resource_get_uri_path(r);
  g->state[std::string((const char *)n->s, n->length)]++;
  coap_resource_notify_observers(r, nullptr);
  coap_pdu_set_code(response, COAP_RESPONSE_CODE_CHANGED);
}
// the application's way of creating a dynamic resource (also replayed by libcoap from the persisted request at start-up)
void hnd_unknown_put(coap_resource_t *, coap_session_t *, const coap_pdu_t *request, const coap_string_t *, coap_pdu_t *response) {
  coap_string_t *path = coap_get_uri_path(request);
  if (!path) { coap_pdu_set_code(response, COAP_RESPONSE_CODE_BAD_REQUEST); return; }
  coap_resource_t *r = coap_resource_init((coap_str_const_t *)path, COAP_RESOURCE_FLAGS_RELEASE_URI | COAP_RESOURCE_FLAGS_NOTIFY_NON);
  if (!r) { coap_delete_string(path); coap_pdu_set_code(response, COAP_RESPONSE_CODE_INTERNAL_ERROR); return; }
  coap_register_request_handler(r, COAP_REQUEST_GET, hnd_get);
  coap_register_request_handler(r, COAP_REQUEST_PUT, hnd_put_existing);
  coap_register_request_handler(r, COAP_REQUEST_DELETE, hnd_delete);
  coap_resource_set_get_observable(r, 1);
  coap_add_resource(g->ctx, r);
  coap_pdu_set_code(response, COAP_RESPONSE_CODE_CREATED);
}

struct C17 : Property {
  C17() {
    id = "C17";
    level = "fault_enumeration";
    technique = "deterministic simulation with crash injection: real libcoap server with coap_persist_startup() on real files behind a link-time stdio/rename seam; seeded histories of dynamic-resource creation/deletion, observe registration/cancellation and notifications by scripted peers; the server process is killed at the k-th boundary (before/after) of every fopen/fwrite/fprintf/fflush/fclose/rename/remove call the persistence code makes (k swept, also during the restart's own load), the disk image of a killed process is taken there and a new server is started from it";
    rule_text = "plan = save_freq 1..10 x 2-3 peers x 4-25 ops (create dynamic resource by PUT, delete it, register observation on a static or dynamic resource CON/NON, cancel it, change a resource 1-12 times = notifications) x kill index k in 0..399 for the first incarnation and optionally a second kill index for the restarted one (k beyond the number of boundaries = kill at quiescence) x 2 s down time. After the last restart every resource is changed once and every dynamic resource is fetched. Non-trivial: the kill hit a boundary inside an update (not at quiescence) while at least one observation was confirmed; distinct = distinct (scenario hash, kill boundary).";
    real_components = {"libcoap coap_subscribe.c persistence (coap_persist_startup, coap_op_observe_added/deleted, coap_op_dyn_resource_added, coap_op_resource_deleted, coap_op_obs_cnt_track_observe, the three load functions), coap_resource.c observer/notification code, glibc stdio on real files"};
    stub_components = {"simk clock/UDP", "scripted raw peers (R1 codec)", "kill = disk image taken at the boundary, the old context is silenced (no datagram, no file effect survives) and freed; restart = new context on the restored image"};
    assumptions = {"process kill, not power loss: bytes handed to write(2) are on disk, bytes in a stdio buffer are lost",
                   "an observation counts as active when its 2.xx+Observe answer left the server before the kill and no cancellation / deletion of its resource reached the server; a creation counts when its 2.01 left the server and no DELETE reached the server",
                   "each persistence file must equal, at the kill, its content after its last completed rename (the update in progress is invisible until its rename)"};
    quick_budget_s = 35;
    thorough_budget_s = 600;
  }

  json generate(uint64_t base, uint64_t index, bool) override {
    // the same scenario is swept over many kill indices: scenario = index / 64, kill index from index % 64 and a random part
    uint64_t scen = index / 48;
    Rng r(mix3(base, 0xC17, scen));
    json p;
    p["property"] = "C17";
    p["seed"] = base;
    p["index"] = index;
    p["sched_salt"] = r.next() & 0xffffffff;
    int npeers = (int)r.range(2, 3);
    p["config"] = {{"save_freq", (int)r.range(1, 10)}, {"peers", npeers}};
    json ops = json::array();
    int n = (int)r.range(4, 25);
    int64_t t = 0;
    int ndyn = 0;
    std::vector<std::string> ress = {"s0", "s1"};
    for (int i = 0; i < n; i++) {
      t += r.chance(0.6) ? r.range(5, 60) : r.range(60, 3000);
      double x = (r.next() >> 11) * (1.0 / 9007199254740992.0);
      int peer = (int)r.below((uint64_t)npeers);
      if (x < 0.2 && ndyn < 4) { static const char *const DN[4] = {"t", "t1", "t12", "u"}; std::string nm = DN[ndyn++]; ress.push_back(nm); ops.push_back({{"t_ms", t}, {"op", "create"}, {"peer", peer}, {"res", nm}}); }
      else if (x < 0.5) ops.push_back({{"t_ms", t}, {"op", "observe"}, {"peer", peer}, {"res", ress[r.below(ress.size())]}, {"con", r.chance(0.7)}});
      else if (x < 0.58) ops.push_back({{"t_ms", t}, {"op", "cancel"}, {"peer", peer}, {"res", ress[r.below(ress.size())]}});
      else if (x < 0.66 && ndyn > 0) ops.push_back({{"t_ms", t}, {"op", "delete"}, {"peer", peer}, {"res", std::string(std::vector<const char *>{"t", "t1", "t12", "u"}[r.below((uint64_t)ndyn)])}});
      else ops.push_back({{"t_ms", t}, {"op", "change"}, {"res", ress[r.below(ress.size())]}, {"times", r.chance(0.5) ? 1 : (int)r.range(2, 12)}});
    }
    p["ops"] = ops;
    Rng rk(mix3(base, 0xC17F, index));
    json kills = json::array();
    uint64_t sub = index % 48;
    kills.push_back(sub < 40 ? (int64_t)(sub * 7 + rk.below(7)) : (int64_t)rk.below(400));     // sweep 0..279 in strides, plus random ones
    if (rk.chance(0.3)) kills.push_back((int64_t)rk.below(40));
    p["kills"] = kills;
    return p;
  }

  void start_server(C17World &cw, int save_freq) {
    World &w = cw.w;
    cw.ctx = cx::new_context(w, 0);
    World::AsNode as(0);
    coap_context_set_block_mode(cw.ctx, COAP_BLOCK_USE_LIBCOAP);
    for (const char *nm : {"s0", "s1"}) {
      coap_resource_t *r = coap_resource_init(coap_make_str_const(nm), COAP_RESOURCE_FLAGS_NOTIFY_NON);
      coap_register_request_handler(r, COAP_REQUEST_GET, hnd_get);
      coap_register_request_handler(r, COAP_REQUEST_PUT, hnd_put_existing);
      coap_resource_set_get_observable(r, 1);
      coap_add_resource(cw.ctx, r);
    }
    coap_resource_t *ru = coap_resource_unknown_init2(hnd_unknown_put, 0);
    coap_add_resource(cw.ctx, ru);
    {
      coap_address_t a;
      World::to_coap_addr(World::node_addr(0, 5683), &a);
      coap_new_endpoint(cw.ctx, &a, COAP_PROTO_UDP);
    }
    cw.counter = 0;
    cw.crashed = false;
    fsim::arm(cw.dir);
    std::string f0 = cw.dir + "/" + MAINS[0], f1 = cw.dir + "/" + MAINS[1], f2 = cw.dir + "/" + MAINS[2];
    coap_persist_startup(cw.ctx, f0.c_str(), f1.c_str(), f2.c_str(), (uint32_t)save_freq);
  }

  void execute(const json &plan, RunResult &res, bool verbose) override {
    C17World cw;
    g = &cw;
    cw.res = &res;
    World &w = cw.w;
    w.begin(plan.value("sched_salt", 1ull), &res, verbose, false);
    w.max_sim_ns = 3000ull * 1000000000ull;
    const json &cfg = plan["config"];
    int npeers = std::max(1, std::min(3, cfg.value("peers", 2)));
    int save_freq = std::max(1, cfg.value("save_freq", 1));
    std::vector<int64_t> kills;
    for (auto &k : plan["kills"]) kills.push_back(k.get<int64_t>());
    cw.dir = fsim::scratch_dir("c17");
    w.add_node(nullptr);
    for (int i = 0; i < 3; i++) w.add_node(nullptr);
    std::vector<int> fds;
    for (int i = 0; i < npeers; i++) fds.push_back(simk::raw_udp_socket(1 + i, World::node_addr(1 + i, 40000)));
    simk::Addr srv = World::node_addr(0, 5683);

    // ---- the file-layer seam
    fsim::hooks().point = [&](const char *op, const std::string &a, const std::string &b, bool after) {
      if (cw.crashed) return;
      if (after && !strcmp(op, "rename")) {
        std::string base = b.substr(b.rfind('/') + 1);
        auto img = fsim::read_dir(cw.dir);
        cw.committed[base] = img.count(base) ? img[base] : Bytes();
      }
      int idx = cw.counter++;
      cw.points_seen++;
      if (idx != cw.crash_at) return;
      cw.crashed = true;
      cw.image = fsim::read_dir(cw.dir);
      cw.crash_desc = std::string(after ? "after " : "before ") + op + " " + a.substr(a.rfind('/') + 1);
      w.log("KILL at boundary %d: %s", idx, cw.crash_desc.c_str());
      // the dead process sends nothing more and is not scheduled again
      for (int n = 1; n <= 3; n++) w.partitioned.insert({0, n});
      w.nodes[0].dead = true;
    };

    // ---- the wire model
    w.taps.push_back([&](const WireEv &e) {
      r1::Msg m;
      if (e.kind == WireEv::DELIVER && e.to == 0) {
        if (cw.crashed) return;
        if (r1::decode_udp(e.d->data, m) != r1::ACCEPT) return;
        auto rq = cw.req.find(m.token);
        if (rq == cw.req.end() || m.code == 0) return;
        // a cancel or delete that reached the server may or may not have been carried out when the kill comes
        if (rq->second.first == "delete") {
          if (cw.dyn[rq->second.second] == 1 || cw.dyn[rq->second.second] == 0) cw.dyn[rq->second.second] = 2;
          for (auto &kv : cw.obs) if (kv.first.second == rq->second.second) kv.second.unsure = true;
        }
        if (rq->second.first == "cancel") { int peer = World::node_of_ip(e.d->src.ip) - 1; auto it = cw.obs.find({peer, rq->second.second}); if (it != cw.obs.end()) it->second.unsure = true; }
        return;
      }
      if (e.kind != WireEv::SEND || e.from != 0 || cw.crashed || cw.restarted) return;     // only what left the server before its (last) kill
      if (r1::decode_udp(e.d->data, m) != r1::ACCEPT || m.code == 0) return;
      int peer = World::node_of_ip(e.d->dst.ip) - 1;
      auto rq = cw.req.find(m.token);
      if (rq == cw.req.end()) return;
      const std::string &kind = rq->second.first, &rs = rq->second.second;
      const r1::Opt *oo = m.find(6);
      if (kind == "create" && m.code == 65) cw.dyn[rs] = 1;
      if (kind == "delete" && m.code == 66) { cw.dyn[rs] = 3; for (auto &kv : cw.obs) if (kv.first.second == rs) kv.second.ended = true; }
      if (kind == "observe") {
        ObsRec &o = cw.obs[{peer, rs}];
        o.peer = peer;
        o.res = rs;
        if ((m.code >> 5) == 2 && oo) {
          uint32_t v = r1::decode_uint(oo->val);
          if (!o.confirmed) { o.confirmed = true; o.ended = false; o.unsure = false; }
          if (!o.have_obs || serial_gt(v, o.max_obs)) o.max_obs = v;
          o.have_obs = true;
        } else if ((m.code >> 5) >= 4) o.ended = true;      // 4.04 farewell / error
      }
      if (kind == "cancel" && !oo) { auto it = cw.obs.find({peer, rs}); if (it != cw.obs.end()) it->second.ended = true; }
    });

    // ---- peers: acknowledge, record what arrives after the restart
    w.pollers.push_back([&]() {
      for (int i = 0; i < npeers; i++) {
        simk::Datagram d;
        while (simk::raw_recv(fds[(size_t)i], d)) {
          r1::Msg m;
          if (r1::decode_udp(d.data, m) != r1::ACCEPT) continue;
          if (m.type == 0) { r1::Msg a; a.type = 2; a.mid = m.mid; simk::raw_sendto(fds[(size_t)i], d.src, r1::encode_udp(a)); }
          if (m.code == 0) continue;
          auto rq = cw.req.find(m.token);
          if (rq == cw.req.end()) continue;
          if (rq->second.first == "final_get") cw.get_after[rq->second.second] = m.code;
          if (rq->second.first == "observe" && cw.restarted) {
            const r1::Opt *oo = m.find(6);
            auto it = cw.obs.find({i, rq->second.second});
            if (it == cw.obs.end() || !oo || (m.code >> 5) != 2) continue;
            ObsRec &o = it->second;
            uint32_t v = r1::decode_uint(oo->val);
            if (o.notified_after++ == 0) { o.first_after = v; if (o.have_obs && !serial_gt(v, o.max_obs)) o.bad_value_after = true; }
          }
        }
      }
    });

    int midctr = 1, tokctr = 0;
    auto send_req = [&](int peer, int code, bool con, const std::string &rs, const std::string &kind, int observe /* -1 none */, Bytes fixed_tok) {
      r1::Msg m;
      m.type = con ? 0 : 1;
      m.code = code;
      m.mid = (midctr++ * 3 + peer * 5000) & 0xffff;
      if (!fixed_tok.empty()) m.token = fixed_tok;
      else { tokctr++; m.token = {0xC1, 0x70, (uint8_t)(tokctr >> 8), (uint8_t)tokctr}; }
      if (observe == 0) m.opts.push_back({6, {}});
      if (observe == 1) m.opts.push_back({6, {1}});
      m.opts.push_back({11, Bytes(rs.begin(), rs.end())});
      if (code == 3) m.payload = {'v'};
      cw.req[m.token] = {kind, rs};
      simk::raw_sendto(fds[(size_t)peer], srv, r1::encode_udp(m));
    };
    auto obs_token = [&](int peer, const std::string &rs) { Bytes t = {0xC1, 0x71, (uint8_t)peer}; t.insert(t.end(), rs.begin(), rs.end()); return t; };

    start_server(cw, save_freq);
    cw.crash_at = kills.empty() ? -1 : (int)kills[0];
    // (a kill index that falls into coap_persist_startup of the very first start finds an empty disk: nothing to lose)
    uint64_t t0 = w.now();
    for (auto &op : plan["ops"]) {
      json o = op;
      w.at_ns(t0 + (uint64_t)o.value("t_ms", (int64_t)0) * 1000000ull, [&, o]() {
        if (cw.crashed || cw.incarnation > 0) return;
        std::string kind = o.value("op", "change"), rs = o.value("res", std::string("s0"));
        int peer = o.value("peer", 0) % npeers;
        if (kind == "create") send_req(peer, 3, true, rs, "create", -1, {});
        else if (kind == "delete") send_req(peer, 4, true, rs, "delete", -1, {});
        else if (kind == "observe") send_req(peer, 1, o.value("con", true), rs, "observe", 0, obs_token(peer, rs));
        else if (kind == "cancel") { cw.req.erase(obs_token(peer, rs)); send_req(peer, 1, true, rs, "cancel", 1, {}); cw.req[obs_token(peer, rs)] = {"observe", rs}; }
        else if (kind == "change") {
          World::AsNode as(0);
          coap_str_const_t nm = {rs.size(), (const uint8_t *)rs.data()};
          coap_resource_t *r = coap_get_resource_from_uri_path(cw.ctx, &nm);
          if (!r) return;
          int times = o.value("times", 1);
          for (int k = 0; k < times && !cw.crashed; k++) {
            cw.state[rs]++;
            coap_resource_notify_observers(r, nullptr);
            w.step_node(0);      // the application's loop: one I/O pass per change, so every change is a notification
          }
        }
      }, -1);
    }
    int64_t last_t = plan["ops"].empty() ? 0 : plan["ops"].back().value("t_ms", (int64_t)0);
    bool killed_inside_update = false, had_confirmed = false;
    for (int inc = 0;; inc++) {
      // run this incarnation until it is killed or (first one) its workload is over and the world is quiet
      if (inc == 0) {
        w.run(t0 + (uint64_t)(last_t + 100) * 1000000ull);
      }
      if (!cw.crashed) w.run(w.now() + 1000000000ull);
      bool at_quiescence = !cw.crashed;
      if (w.aborted) break;
      if (!cw.crashed) {
        // kill at quiescence
        cw.crashed = true;
        cw.image = fsim::read_dir(cw.dir);
        cw.crash_desc = "at quiescence";
        w.log("KILL at quiescence (%d boundaries passed)", cw.counter);
        for (int n = 1; n <= 3; n++) w.partitioned.insert({0, n});
        w.nodes[0].dead = true;
      } else killed_inside_update = true;
      for (auto &kv : cw.obs) if (kv.second.confirmed && !kv.second.ended) had_confirmed = true;
      w.count(std::string("probe.kill.") + (at_quiescence ? "at_quiescence" : cw.crash_desc.substr(0, cw.crash_desc.find(' ', 7))));
      // atomicity: every persistence file equals its content after its last completed rename
      for (const char *mf : MAINS) {
        Bytes have = cw.image.count(mf) ? cw.image[mf] : Bytes();
        Bytes want = cw.committed.count(mf) ? cw.committed[mf] : Bytes();
        if (have != want)
          res.violate("P.torn_file", std::string(mf) + "," + (at_quiescence ? "at_quiescence" : cw.crash_desc.substr(0, cw.crash_desc.rfind(' '))), strfmt("killed %s: %s holds %zu bytes that are neither the state before nor after the update in progress (committed state: %zu bytes)", cw.crash_desc.c_str(), mf, have.size(), want.size()));
      }
      // bury the old process: nothing it does from here on is observable
      {
        World::AsNode as(0);
        fsim::arm("");
        coap_free_context(cw.ctx);
        cw.ctx = nullptr;
      }
      w.set_ctx(0, nullptr);
      w.nodes[0].dead = false;
      fsim::restore_dir(cw.dir, cw.image);
      w.run(w.now() + 2000000000ull);      // down time; datagrams of the peers to the dead server vanish
      for (int n = 1; n <= 3; n++) w.partitioned.erase({0, n});
      cw.incarnation++;
      cw.state.clear();
      // committed state of the new incarnation = what is on the disk it starts from
      cw.committed.clear();
      for (const char *mf : MAINS) if (cw.image.count(mf)) cw.committed[mf] = cw.image[mf];
      cw.crash_at = (size_t)cw.incarnation < kills.size() ? (int)kills[(size_t)cw.incarnation] : -1;
      w.log("RESTART incarnation=%d", cw.incarnation);
      if (cw.crash_at < 0) cw.restarted = true;     // the incarnation that is judged
      start_server(cw, save_freq);
      w.count("probe.restarts");
      if (cw.crashed) continue;             // killed again inside its own start-up
      if (cw.crash_at >= 0) { w.run(w.now() + 500000000ull); if (cw.crashed) continue; cw.crash_at = -1; }
      break;
    }
    if (w.aborted) res.violate("M-live.abort", w.abort_why, "run did not quiesce: " + w.abort_why);
    else {
      // ---- after the last restart: change everything once, fetch every dynamic resource
      cw.restarted = true;
      std::vector<std::string> all = {"s0", "s1"};
      for (auto &kv : cw.dyn) all.push_back(kv.first);
      {
        World::AsNode as(0);
        for (auto &rs : all) {
          coap_str_const_t nm = {rs.size(), (const uint8_t *)rs.data()};
          coap_resource_t *r = coap_get_resource_from_uri_path(cw.ctx, &nm);
          if (!r) continue;
          cw.state[rs]++;
          coap_resource_notify_observers(r, nullptr);
        }
      }
      w.step_node(0);
      for (auto &kv : cw.dyn) send_req(0, 1, true, kv.first, "final_get", -1, {});
      w.run(w.now() + 120ull * 1000000000ull);
      for (auto &kv : cw.dyn) {
        int code = cw.get_after.count(kv.first) ? cw.get_after[kv.first] : 0;
        if (kv.second == 1 && code != 69)
          res.violate("P.dynamic_resource_lost", code == 132 ? "not_found_after_restart" : "no_answer", strfmt("dynamic resource %s was created (2.01 sent) and never deleted, killed %s; after the restart GET answers %d.%02d", kv.first.c_str(), cw.crash_desc.c_str(), code >> 5, code & 31));
      }
      for (auto &kv : cw.obs) {
        ObsRec &o = kv.second;
        if (!o.confirmed || o.ended || o.unsure) continue;
        if (cw.dyn.count(o.res) && cw.dyn[o.res] != 1) continue;
        if (o.notified_after == 0)
          res.violate("P.observation_lost", cw.dyn.count(o.res) ? "on_dynamic_resource" : "on_static_resource", strfmt("peer %d observes %s (registration confirmed before the kill %s, never cancelled) but gets no notification for the change made after the restart", o.peer, o.res.c_str(), cw.crash_desc.c_str()));
        else if (o.bad_value_after)
          res.violate("P.observe_value_not_greater", "first_after_restart", strfmt("peer %d on %s: first Observe value after the restart is %u, before the kill %u had been sent (save_freq %d)", o.peer, o.res.c_str(), o.first_after, o.max_obs, save_freq));
      }
    }
    res.nontrivial = killed_inside_update && had_confirmed;
    {
      World::AsNode as(0);
      fsim::arm("");
      fsim::hooks().point = nullptr;
      if (cw.ctx) coap_free_context(cw.ctx);
    }
    fsim::restore_dir(cw.dir, {});
    rmdir(cw.dir.c_str());
    w.end();
    res.trace_hash = mix3(res.trace_hash, (uint64_t)(kills.empty() ? 0 : kills[0]), (uint64_t)cw.points_seen);
    g = nullptr;
  }
};

struct Reg { Reg() { register_property(new C17()); } } reg;

}  // namespace
