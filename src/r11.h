// R11 — independent reference model of the CoRE Link Format listing served at /.well-known/core
// (RFC 6690 §2 syntax, §4.1 query filtering; ";obs" per RFC 7641 §6). Written from the RFCs; shares no code with libcoap.
//
// RFC 6690 §4.1 defines   filter-query = resource-param "=" query-pattern ,  query-pattern = search-token [ "*" ]
// and is silent on several corners. Interpretations taken here:
//  J1  A query argument WITHOUT '=' is not a filter-query by the grammar. It is read as a presence test:
//      the link matches if it carries an attribute of that name (with or without value); "href" is carried by every
//      link; "obs" is carried by observable resources. (Typical use: "?obs".)
//  J2  An attribute without a value compares like the empty string: "?obs=" and "?obs=*" match it, "?obs=x" does not
//      (§4.1: "?foo=* matches a link-value that has a target attribute named foo").
//  J3  If an attribute name occurs more than once on a link, the link matches if ANY occurrence matches.
//  J4  Surrounding double quotes are stripped only when the value has both (size >= 2); quoted-pairs ("\x") inside are
//      NOT unescaped — matching is byte for byte on what is between the quotes.
//  J5  '*' is special only as the LAST byte of the pattern; a pattern of just "*" matches every value, also the empty one.
//  J6  rt / if / rel values are split at SP into tokens, empty tokens dropped; a value with no token at all counts as
//      one empty token. A prefix pattern never matches across a token boundary.
//  J7  Attribute names are compared case-sensitively.
//  J8  filter() takes ONE Uri-Query option value, i.e. already percent-decoded (options carry no percent-encoding,
//      RFC 7252 §6.4/§5.10.1). Several query arguments in one request are not covered by RFC 6690.
//  J9  "href" is compared with "/" + path byte for byte: no normalisation, no relative-reference resolution, so
//      "?href=sensors*" (no leading '/') matches nothing.
//  J10 The ";obs" generated from Res::observable counts as a value-less attribute named "obs" for matching.
#pragma once
#include "common.h"

namespace r11 {

struct Attr { std::string name; std::string value; bool has_value; };   // value as registered, including surrounding double quotes if the application supplied them
inline bool operator==(const Attr &a, const Attr &b) { return a.name == b.name && a.has_value == b.has_value && (!a.has_value || a.value == b.value); }

struct Res {
  std::string path;            // registered uri path text without leading '/'
  std::vector<Attr> attrs;     // in registration order
  bool observable = false;
};
inline bool operator==(const Res &a, const Res &b) { return a.path == b.path && a.attrs == b.attrs && a.observable == b.observable; }

// One link: "</path>" then for each attr ";name" or ";name=value", then ";obs" if observable. (RFC 6690 §2 / RFC 7641 §6)
std::string link(const Res &r);
// Full listing = links joined with "," in the given order. (RFC 6690 gives the order of links and of attributes no meaning;
// use equivalent() to compare against an implementation that orders them differently.)
std::string listing(const std::vector<Res> &rs);

// RFC 6690 §4.1 filter on one link. query_value is the text after the first '=' (may end in '*'), has_value tells
// whether there was a '='. Empty name and no value (= empty query) matches everything.
bool matches(const Res &r, const std::string &query_name, const std::string &query_value, bool has_value);
// Applies one (percent-decoded) Uri-Query argument such as "rt=temp*", "href=/s*", "obs" or "" to a list; order is kept.
std::vector<Res> filter(const std::vector<Res> &rs, const std::string &query);

// Strict RFC 6690 §2 parser (no white space, generic link-extension for every parameter: ptoken or quoted-string).
// Only absolute-path targets ("</...>") are representable in Res; anything else fails. The first value-less ";obs"
// of a link becomes Res::observable, everything else goes to attrs in order of appearance.
bool parse(const std::string &text, std::vector<Res> &out, std::string *why = nullptr);
// True when both texts parse and describe the same multiset of links, each with the same multiset of parameters.
bool equivalent(const std::string &a, const std::string &b, std::string *why = nullptr);

std::string selftest();   // "" if fine

}  // namespace r11
