// R10 — independent reference model of CoAP URI handling.
// Written from RFC 3986 (generic URI syntax, 5.2.4 remove_dot_segments), RFC 7252 §6.1-6.5 (coap/coaps URIs,
// decomposition into options, composition from options) and RFC 8323 §8 (coap+tcp, coaps+tcp, coap+ws, coaps+ws).
// Shares no code with libcoap.
//
// Interpretations taken where the RFCs leave room (also listed in r10.cpp next to the code):
//  I1  A '#' fragment makes the input invalid as a CoAP URI (RFC 7252 §6.1 ABNF has no fragment, §6.4 step 4 "fail").
//      split_uri() returns false for it UNLESS the caller passes a `fragment` pointer; then *fragment=true, the rest is
//      parsed and validated as usual, `why` still names the fragment, and the return value is the verdict on the rest.
//  I2  userinfo ("user@host") is rejected: coap-URI = "coap:" "//" host [":" port] ... has no userinfo; for http(s)
//      proxy URIs RFC 7230 §2.7.1 forbids generating it in messages.
//  I3  "%2E"/"%2e" are treated like "." when recognising dot-segments (RFC 3986 §6.2.2.2 says the two spellings are
//      equivalent, and RFC 7252 §5.10.1 forbids a Uri-Path value of "." or ".." so they can never be emitted).
//  I4  IPv6 zone identifiers are accepted only in the RFC 6874 spelling "[fe80::1%25eth0]" (a bare "%eth0" is an
//      invalid percent-escape per RFC 3986). The host is exposed as written, i.e. including "%25eth0".
//  I5  allow_http (= the input is a Proxy-Uri, RFC 7252 §5.10.2 "absolute-URI") also rejects the scheme-less
//      absolute-path form.
//  I6  "//x" without a scheme is a network-path reference (RFC 3986 §4.2), not an absolute-path reference -> rejected.
//  I7  Port 0 and leading zeros ("05683") are syntactically fine (port = *DIGIT) and accepted.
//  I8  An empty but present query ("coap://h/?"): RFC 7252 §6.4 step 9 read literally yields ONE empty Uri-Query option.
//      query_to_segments("") nevertheless returns no option (interface contract); Uri::has_query exposes the
//      difference so a harness can treat that corner as unspecified.
#pragma once
#include "common.h"

namespace r10 {

enum Scheme { COAP, COAPS, COAP_TCP, COAPS_TCP, COAP_WS, COAPS_WS, HTTP, HTTPS, NONE /* relative: starts with '/', no scheme/authority */ };

const char *scheme_name(Scheme s);           // "coap", "coaps+tcp", ... ; "" for NONE
int default_port(Scheme s);                  // 5683 coap/coap+tcp, 5684 coaps/coaps+tcp, 80 coap+ws/http, 443 coaps+ws/https, 0 NONE

struct Uri {
  Scheme scheme = NONE;
  Bytes host;            // as it appears (NOT percent-decoded, NOT lower-cased), without [] for IPv6 literals
  bool host_is_ip6_literal = false;   // true for any IP-literal in [] (IPv6address, IPv6addrz, IPvFuture)
  int port = 0;          // explicit port or the scheme's default; 0 for NONE
  bool port_given = false;            // a non-empty port was written
  Bytes path;            // raw path text after the authority, WITHOUT the leading '/', up to '?' or '#' or end
  Bytes query;           // raw query text after '?', up to '#' or end
  bool has_query = false;             // a '?' was present (query may still be empty) — see I8
};

// Verdict of parsing a length-delimited byte string as an absolute CoAP URI (or absolute-path reference starting with '/').
// On failure `why` is "<component>: <reason>" with component one of
//   input scheme authority host port path query fragment
// so that a harness can classify disagreements. The whole input is validated against the RFC 3986 character classes
// (including percent-escapes in host, path, query and fragment).
bool split_uri(const Bytes &in, Uri &out, std::string *why = nullptr, bool *fragment = nullptr, bool allow_http = false /* proxy URIs */);

// RFC 7252 §6.4 step 5: Uri-Host option value for a parsed host: percent-decoded, ASCII upper case -> lower case.
// (Whether the option is actually sent depends on the destination address, which is outside this model.)
bool host_to_option(const Bytes &host, Bytes &out, std::string *why = nullptr);

// RFC 3986 §5.2.4, literal transcription (no %2E handling). Exposed for tests.
std::string remove_dot_segments(const std::string &path);

// RFC 7252 §6.4 steps 2,8: path text (without the leading '/') -> Uri-Path option values.
// Dot segments are resolved first (I3) and never emitted; "" and "/" give no option; "a/" gives "a","".
// Fails on invalid percent-escapes and on bytes that are not pchar or '/'.
bool path_to_segments(const Bytes &path_without_leading_slash, std::vector<Bytes> &segs, std::string *why = nullptr);
// RFC 7252 §6.4 step 9: query text -> Uri-Query option values; split at '&' only; "" gives no option; "a&&b" gives "a","","b".
// Fails on invalid percent-escapes and on bytes that are not pchar, '/' or '?'.
bool query_to_segments(const Bytes &query, std::vector<Bytes> &segs, std::string *why = nullptr);

// Strict percent-decoder used by the above: '%' must be followed by two hex digits.
bool pct_decode(const uint8_t *p, size_t n, Bytes &out);

// RFC 7252 §6.5 step 6 (without the leading '/'): join with '/', percent-encode everything but unreserved / sub-delims / ':' / '@'.
// No segment, or exactly one empty segment, gives "" (both mean the path "/").
// NB: option values "." and ".." are illegal (RFC 7252 §5.10.1); they are passed through unchanged here.
std::string segments_to_path(const std::vector<Bytes> &segs);
// RFC 7252 §6.5 step 7 (without the leading '?'): join with '&', percent-encode everything but
// unreserved / sub-delims-except-'&' / ':' / '@' / '/' / '?'.
std::string segments_to_query(const std::vector<Bytes> &segs);

std::string selftest();   // "" if fine, else a description of the first failing case

}  // namespace r10
