// C07 — each request concludes exactly once despite loss, duplication and delay.
// World: libcoap client (node 0) <-> libcoap server (node 1), one exchange outstanding per session.
#include "runner.h"
#include "world.h"
#include "coapx.h"
#include "mon_r3.h"

namespace {

struct Req {
  Bytes token;
  bool con = true;
  int mid = -1;
  bool verdict_fail = false;
  int handler_calls = 0, nacks = 0;
  uint64_t t_first_nack = 0, t_first_resp = 0;
  int first_nack_reason = -1;
  std::vector<int> resp_mids;          // mid of every response handed to the handler
  std::vector<int> resp_types;
  uint64_t t_sent = 0, t_concluded = 0;
  int server_handler_runs = 0;         // non-async invocations of the server handler for this token
  int server_async_runs = 0;
  bool submitted = false;
  bool send_failed = false;
};

struct C07World {
  World w;
  RunResult *res = nullptr;
  R3Monitor *r3 = nullptr;
  coap_context_t *cctx = nullptr, *sctx = nullptr;
  coap_session_t *sess = nullptr;
  json ops;
  std::vector<Req> reqs;
  size_t next_op = 0;
  int outstanding = -1;
  // wire ledger at the client
  // one record per response datagram copy that reached the client, in arrival order
  struct Deliv {
    int type, mid;
    Bytes token;
    uint64_t t;
    int handler = 0, ack = 0, rst = 0;
    bool fail = false;
  };
  std::vector<Deliv> delivs;
  std::map<int, int> non_req_delivered;      // request mid -> copies of NON requests delivered to the server
  std::map<int, int> server_runs_by_mid;     // request mid -> server handler invocations (non-async)
  std::map<int, bool> pb_by_mid;             // request mid -> request asked for a piggybacked (non-async) answer
  std::set<Bytes> server_gave_up;            // tokens of separate CON responses the server abandoned (TOO_MANY_RETRIES / RST)
  std::set<Bytes> non_resp_lost;             // tokens of NON responses of which a copy was dropped by the network
};
C07World *g = nullptr;

int find_req(const Bytes &tok) {
  for (size_t i = 0; i < g->reqs.size(); i++)
    if (g->reqs[i].token == tok) return (int)i;
  return -1;
}

void submit_next();

void conclude(int i) {
  Req &r = g->reqs[(size_t)i];
  if (!r.t_concluded) r.t_concluded = g->w.now();
  if (g->outstanding == i) {
    g->outstanding = -1;
    int64_t think = g->next_op < g->ops.size() ? g->ops[g->next_op].value("think_ms", (int64_t)0) : 0;
    g->w.after_us(think * 1000, []() { submit_next(); }, 0);
  }
}

coap_response_t resp_cb(coap_session_t *, const coap_pdu_t *, const coap_pdu_t *rcv, const coap_mid_t) {
  Bytes tok = cx::tok_of(rcv);
  int mid = coap_pdu_get_mid(rcv) & 0xffff;
  int type = (int)coap_pdu_get_type(rcv);
  int i = find_req(tok);
  g->w.log("RESP tok=%s mid=%04x type=%d code=%d req=%d", hex(tok).c_str(), mid, type, (int)coap_pdu_get_code(rcv), i);
  C07World::Deliv *rec = nullptr;
  for (size_t k = g->delivs.size(); k-- > 0;) {
    auto &d = g->delivs[k];
    if (d.t != g->w.now()) break;
    if (d.type == type && d.mid == mid && d.token == tok && !d.handler) { rec = &d; break; }
  }
  if (rec) rec->handler++;
  else g->res->violate("R4.handler_without_delivery", "handler_without_delivery", strfmt("response handler called for type=%d mid=%04x tok=%s but no such datagram was delivered in this instant", type, mid, hex(tok).c_str()));
  if (i < 0) {
    g->res->violate("R4.foreign_token", "foreign_token", strfmt("response handler saw token %s that the application never used", hex(tok).c_str()));
    return COAP_RESPONSE_OK;
  }
  Req &r = g->reqs[(size_t)i];
  r.handler_calls++;
  if (!r.t_first_resp) r.t_first_resp = g->w.now();
  r.resp_mids.push_back(mid);
  r.resp_types.push_back(type);
  conclude(i);
  if (r.verdict_fail) {
    // a piggybacked response (ACK) cannot be reset; its mid lives in the client's number space, not the server's
    if (rec) rec->fail = true;
    return COAP_RESPONSE_FAIL;
  }
  return COAP_RESPONSE_OK;
}

void nack_cb(coap_session_t *s, const coap_pdu_t *sent, const coap_nack_reason_t reason, const coap_mid_t mid) {
  g->w.log("NACK mid=%04x reason=%d sent=%d", (unsigned)mid & 0xffff, (int)reason, sent != nullptr);
  if (!sent) { g->w.count("probe.nack_unmatched_rst"); return; }
  g->r3->on_nack(0, s, mid, reason);
  int i = find_req(cx::tok_of(sent));
  if (i < 0) return;
  g->reqs[(size_t)i].nacks++;
  if (!g->reqs[(size_t)i].t_first_nack) { g->reqs[(size_t)i].t_first_nack = g->w.now(); g->reqs[(size_t)i].first_nack_reason = (int)reason; }
  conclude(i);
}

void server_nack_cb(coap_session_t *s, const coap_pdu_t *sent, const coap_nack_reason_t reason, const coap_mid_t mid) {
  g->w.log("SERVER-NACK mid=%04x reason=%d sent=%d", (unsigned)mid & 0xffff, (int)reason, sent != nullptr);
  if (sent) {
    g->r3->on_nack(1, s, mid, reason);
    g->server_gave_up.insert(cx::tok_of(sent));
  }
}

// query: "<style>,<delay_ms>"
void hnd(coap_resource_t *, coap_session_t *session, const coap_pdu_t *request, const coap_string_t *query, coap_pdu_t *response) {
  Bytes tok = cx::tok_of(request);
  int i = find_req(tok);
  std::string q = query ? std::string((const char *)query->s, query->length) : "pb,0";
  std::string style = q.substr(0, q.find(','));
  int delay_ms = q.find(',') == std::string::npos ? 0 : atoi(q.c_str() + q.find(',') + 1);
  coap_bin_const_t t = coap_pdu_get_token(request);
  coap_async_t *async = coap_find_async(session, t);
  int mid = coap_pdu_get_mid(request) & 0xffff;
  g->w.log("SERVER-HANDLER tok=%s mid=%04x style=%s async=%d", hex(tok).c_str(), mid, style.c_str(), async != nullptr);
  if (!async && i >= 0 && g->reqs[(size_t)i].server_handler_runs >= 1) {
    // libcoap handed a retransmitted / duplicated request to the application again (no request de-duplication):
    // the server now emits several responses with one token, whose fate on the server's send queue is entangled
    // (a Reset or give-up of one cancels the other by token). R3 does not judge those responses.
    g->r3->exempt_tokens.insert(tok);
    g->w.count("probe.server_processed_request_again");
  }
  if (style == "pb") g->pb_by_mid[mid] = true;
  if (style != "pb" && !async) {
    if (i >= 0) g->reqs[(size_t)i].server_handler_runs++;
    g->server_runs_by_mid[mid]++;
    async = coap_register_async(session, request, (coap_tick_t)(delay_ms < 1 ? 1 : delay_ms));
    if (!async) coap_pdu_set_code(response, COAP_RESPONSE_CODE_SERVICE_UNAVAILABLE);
    return;   // no code: libcoap sends an Empty ACK for CON
  }
  if (async) { if (i >= 0) g->reqs[(size_t)i].server_async_runs++; }
  else { if (i >= 0) g->reqs[(size_t)i].server_handler_runs++; g->server_runs_by_mid[mid]++; }
  if (style == "sep_non") coap_pdu_set_type(response, COAP_MESSAGE_NON);
  coap_pdu_set_code(response, COAP_RESPONSE_CODE_CONTENT);
  uint8_t body[3] = {'r', (uint8_t)('0' + (i < 0 ? 9 : i % 10)), 0};
  coap_add_data(response, 2, body);
}

void submit_next() {
  if (g->outstanding >= 0 || g->next_op >= g->ops.size()) return;
  size_t i = g->next_op++;
  const json &op = g->ops[i];
  Req &r = g->reqs[i];
  r.con = op.value("type", "CON") == "CON";
  r.verdict_fail = op.value("verdict", "ok") == "fail";
  int method = op.value("method", 1);
  coap_pdu_t *p = coap_new_pdu(r.con ? COAP_MESSAGE_CON : COAP_MESSAGE_NON, (coap_pdu_code_t)method, g->sess);
  if (!p) { r.send_failed = true; return; }
  coap_add_token(p, r.token.size(), r.token.data());
  coap_add_option(p, COAP_OPTION_URI_PATH, 1, (const uint8_t *)"r");
  if (method == 5) { uint8_t cf = 0; coap_add_option(p, COAP_OPTION_CONTENT_FORMAT, 0, &cf); }
  std::string q = op.value("style", "pb") + "," + std::to_string(op.value("delay_ms", 0));
  coap_add_option(p, COAP_OPTION_URI_QUERY, q.size(), (const uint8_t *)q.data());
  if (method == 2 || method == 3 || method == 5) coap_add_data(p, 3, (const uint8_t *)"abc");
  g->outstanding = (int)i;
  r.submitted = true;
  r.t_sent = g->w.now();
  coap_mid_t mid = coap_send(g->sess, p);
  r.mid = mid == COAP_INVALID_MID ? -1 : (mid & 0xffff);
  g->w.log("SEND req=%zu %s method=%d style=%s mid=%04x", i, r.con ? "CON" : "NON", method, q.c_str(), (unsigned)r.mid & 0xffff);
  if (mid == COAP_INVALID_MID) { r.send_failed = true; conclude((int)i); return; }
  if (!r.con) {
    // a NON exchange may be lost silently: the application moves on after a while
    int me = (int)i;
    g->w.after_us(8 * 1000000, [me]() { if (g->outstanding == me) { g->w.count("probe.non_request_timeout"); conclude(me); } }, 0);
  }
}

struct C07 : Property {
  C07() {
    id = "C07";
    technique = "deterministic simulation: real libcoap client and server on simulated clock/UDP, seeded loss/dup/delay on every datagram, exchange-ledger oracle (R4) + retransmission monitor (R3)";
    rule_text = "plan = sequence of 1..15 requests (method, CON/NON, server style piggybacked / async separate CON / separate NON with delay, client verdict OK/FAIL, think time), one outstanding per session, x faults (drop/dup/delay<ACK_TIMEOUT) on datagram k of either direction; first 512 indices enumerate single and double drops over the first 8 datagrams of each direction for a separate-response exchange. Non-trivial: a fault fired and at least one request concluded; distinct = distinct event-trace hash.";
    real_components = {"libcoap client and server: coap_net.c (coap_dispatch, handle_request, handle_response, duplicate detection, send queue), coap_async.c, coap_session.c, coap_resource.c, coap_io.c, coap_pdu.c"};
    stub_components = {"simk clock/UDP/epoll/timerfd", "R1 decode for the wire ledger"};
    assumptions = {"delays are generated below ACK_TIMEOUT (2 s) as the property requires", "the application waits 8 simulated seconds for the reply to a NON request before sending the next one"};
    quick_budget_s = 35;
    thorough_budget_s = 600;
  }
  uint64_t family_size(bool) override { return 512; }
  std::string family_name() override { return "single/double drops over the first 8 datagrams of each direction of a CON request answered by Empty ACK + separate CON response, followed by a piggybacked exchange"; }

  json generate(uint64_t base, uint64_t index, bool) override {
    Rng r(mix3(base, 0xC07, index));
    json p;
    p["property"] = "C07";
    p["seed"] = base;
    p["index"] = index;
    p["sched_salt"] = r.next() & 0xffffffff;
    json ops = json::array(), faults = json::array();
    if (index < 512) {
      // 16 positions (8 per direction); index encodes a pair (a, b), a==b -> single drop; plus variant bit for NON separate
      int a = (int)(index % 16), b = (int)((index / 16) % 16), variant = (int)(index / 256);
      ops.push_back({{"type", "CON"}, {"method", 1}, {"style", variant ? "sep_non" : "sep_con"}, {"delay_ms", 300}, {"verdict", "ok"}, {"think_ms", 0}});
      ops.push_back({{"type", "CON"}, {"method", 1}, {"style", "pb"}, {"delay_ms", 0}, {"verdict", "ok"}, {"think_ms", 100}});
      auto add = [&](int x) { faults.push_back({{"link", x < 8 ? "0>1" : "1>0"}, {"idx", x % 8}, {"act", "drop"}}); };
      add(a);
      if (b != a) add(b);
    } else {
      int n = (int)r.range(1, 15);
      if (r.chance(0.5)) n = (int)r.range(1, 4);
      for (int i = 0; i < n; i++) {
        double x = (r.next() >> 11) * (1.0 / 9007199254740992.0);
        const char *style = x < 0.4 ? "pb" : x < 0.8 ? "sep_con" : "sep_non";
        static const int methods[] = {1, 1, 1, 2, 3, 4, 5};
        ops.push_back({{"type", r.chance(0.8) ? "CON" : "NON"}, {"method", methods[r.below(7)]}, {"style", style},
                       {"delay_ms", r.chance(0.3) ? r.range(1, 50) : r.range(50, 6000)}, {"verdict", r.chance(0.12) ? "fail" : "ok"},
                       {"think_ms", r.chance(0.5) ? 0 : r.range(0, 3000)}});
      }
      double rate = r.chance(0.2) ? 0.35 : 0.12;
      int span = 6 + 5 * n;
      for (int dir = 0; dir < 2; dir++)
        for (int k = 0; k < span; k++) {
          if (!r.chance(rate)) continue;
          const char *link = dir ? "1>0" : "0>1";
          double x = (r.next() >> 11) * (1.0 / 9007199254740992.0);
          if (x < 0.5) faults.push_back({{"link", link}, {"idx", k}, {"act", "drop"}});
          else if (x < 0.8) faults.push_back({{"link", link}, {"idx", k}, {"act", "dup"}, {"n", r.range(1, 2)}, {"delay_us", {r.range(0, 1500000), r.range(0, 1500000)}}});
          else faults.push_back({{"link", link}, {"idx", k}, {"act", "delay"}, {"delay_us", {r.range(0, 1500000)}}});
        }
    }
    p["config"] = json::object();
    p["ops"] = ops;
    p["faults"] = faults;
    return p;
  }

  void execute(const json &plan, RunResult &res, bool verbose) override {
    C07World cw;
    g = &cw;
    cw.res = &res;
    World &w = cw.w;
    w.begin(plan.value("sched_salt", 1ull), &res, verbose, false);
    w.max_sim_ns = 20000ull * 1000000000ull;
    R3Monitor r3(w, res);
    cw.r3 = &r3;
    w.add_node(nullptr);
    w.add_node(nullptr);
    cw.cctx = cx::new_context(w, 0);
    cw.sctx = cx::new_context(w, 1);
    coap_register_response_handler(cw.cctx, resp_cb);
    coap_register_nack_handler(cw.cctx, nack_cb);
    coap_register_nack_handler(cw.sctx, server_nack_cb);
    cx::new_endpoint(w, 1, cw.sctx, 5683, COAP_PROTO_UDP);
    {
      World::AsNode as(1);
      coap_resource_t *r = coap_resource_init(coap_make_str_const("r"), 0);
      for (int m = 1; m <= 7; m++) coap_register_request_handler(r, (coap_request_t)m, hnd);
      coap_add_resource(cw.sctx, r);
    }
    cw.sess = cx::new_client(w, 0, cw.cctx, World::node_addr(1, 5683), COAP_PROTO_UDP);
    for (auto &f : plan["faults"]) w.faults.push_back(f.get<Fault>());
    cw.ops = plan["ops"];
    cw.reqs.resize(cw.ops.size());
    for (size_t i = 0; i < cw.reqs.size(); i++) cw.reqs[i].token = {0xC0, 0x07, 0x5a, (uint8_t)(i >> 8), (uint8_t)i, 0xa5, 0x11, (uint8_t)(0x80 + i)};
    r3.watch(0, R3Monitor::Params());
    r3.watch(1, R3Monitor::Params());
    r3.attach();
    w.nodes[0].after_step = [&]() { r3.check_wait(0); };
    w.nodes[1].after_step = [&]() { r3.check_wait(1); };
    // wire ledger
    w.taps.push_back([&](const WireEv &e) {
      const Bytes &b = e.d->data;
      if (b.size() < 4) return;
      int type = (b[0] >> 4) & 3, code = b[1], mid = b[2] << 8 | b[3];
      if (e.kind == WireEv::DROP && e.from == 1 && type == 1 && code >= 64) {
        r1::Msg mm;
        if (r1::decode_udp(b, mm) == r1::ACCEPT) cw.non_resp_lost.insert(mm.token);
      }
      if (e.kind == WireEv::DELIVER && e.to == 0 && code >= 64) {
        r1::Msg mm;
        if (r1::decode_udp(b, mm) == r1::ACCEPT) {
          C07World::Deliv d;
          d.type = type;
          d.mid = mid;
          d.token = mm.token;
          d.t = e.t_ns;
          cw.delivs.push_back(d);
        }
      }
      if (e.kind == WireEv::SEND && e.from == 0 && code == 0 && (type == 2 || type == 3)) {
        for (size_t k = cw.delivs.size(); k-- > 0;) {
          auto &d = cw.delivs[k];
          if (d.t != e.t_ns) break;
          if (d.mid == mid && (d.type == 0 || d.type == 1) && !d.ack && !d.rst) { (type == 2 ? d.ack : d.rst)++; break; }
        }
      }
      if (e.kind == WireEv::DELIVER && e.to == 1 && type == 1 && code >= 1 && code < 32) cw.non_req_delivered[mid]++;
    });
    w.at_ns(w.now(), []() { submit_next(); }, 0);
    w.run();
    if (w.aborted) res.violate("M-live.abort", w.abort_why, "run did not quiesce: " + w.abort_why);
    else {
      r3.finish();
      // R4: per request
      for (size_t i = 0; i < cw.reqs.size(); i++) {
        Req &r = cw.reqs[i];
        if (!r.submitted || r.send_failed) continue;
        if (r.handler_calls + r.nacks) w.count("probe.request_concluded");
        if (r.con) {
          std::set<int> mids(r.resp_mids.begin(), r.resp_mids.end());
          std::string ctx = strfmt("req %zu tok=%s: %d handler call(s) (response mids", i, hex(r.token).c_str(), r.handler_calls);
          for (int m : r.resp_mids) ctx += strfmt(" %04x", m);
          ctx += strfmt("), %d NACK(s); server handler ran %d time(s) + %d async", r.nacks, r.server_handler_runs, r.server_async_runs);
          // copies of one response message are judged by the duplicate rules below; here: distinct response messages
          if (mids.size() > 1)
            res.violate("R4.double_delivery", strfmt("distinct_response_messages,server_ran_handler%s", r.server_handler_runs > 1 ? "_again" : "_once"), ctx);
          if (r.handler_calls && r.nacks)
            res.violate("R4.response_and_nack", r.first_nack_reason == COAP_NACK_TOO_MANY_RETRIES && r.t_first_resp > r.t_first_nack ? "separate_response_after_give_up" : "response_and_nack", ctx);
          if (r.nacks > 1) res.violate("R4.double_nack", "double_nack", ctx);
          if (!r.handler_calls && !r.nacks) {
            // legitimately open-ended: the Empty ACK arrived and the separate response was a NON that the network lost,
            // or the server itself abandoned the separate response
            bool excused = cw.non_resp_lost.count(r.token) || cw.server_gave_up.count(r.token);
            if (!excused) res.violate("R4.no_conclusion", "no_conclusion", ctx);
            else w.count("probe.request_open_ended_excused");
          }
        }
      }
      // per delivered response datagram copy
      for (size_t k = 0; k < cw.delivs.size(); k++) {
        auto &d = cw.delivs[k];
        // was an identical message (type, mid, token) delivered and handled before? which same-type message preceded this copy?
        bool dup = false, prev_same = false, have_prev = false;
        for (size_t j = 0; j < k; j++) {
          auto &o = cw.delivs[j];
          if (o.type != d.type) continue;
          have_prev = true;
          prev_same = o.mid == d.mid && o.token == d.token;
          if (prev_same && o.handler) dup = true;
        }
        (void)have_prev;
        std::string what = strfmt("%s response mid=%04x tok=%s (delivery #%zu at %.3f ms)", d.type == 0 ? "CON" : d.type == 1 ? "NON" : "piggybacked", d.mid, hex(d.token).c_str(), k, (d.t - simk::EPOCH_NS) / 1e6);
        if (d.type == 0) {
          if (d.ack + d.rst != 1) res.violate("R4.con_response_not_acked", "no_ack_for_copy", what + strfmt(": client sent %d ACK + %d RST in reply", d.ack, d.rst));
          if (dup) {
            w.count("probe.duplicate_con_response");
            if (d.handler) res.violate("R4.duplicate_con_redelivered", prev_same ? "adjacent_copy" : "after_other_con_response", what + " handed to the handler again" + (prev_same ? "" : "; another CON response was delivered between the copies"));
            else {
              // "acknowledged again when it is a duplicate": the copy of a response the handler accepted is answered by an ACK, not by
              // the Reset that belongs to some other response the handler once refused
              bool orig_accepted = false;
              for (size_t j = 0; j < k; j++) { auto &o = cw.delivs[j]; if (o.type == 0 && o.mid == d.mid && o.token == d.token && o.handler) orig_accepted = !o.fail; }
              if (orig_accepted && d.rst) res.violate("R4.rst_without_fail", "duplicate_of_accepted_response", what + ": this duplicate of a response the handler accepted was answered with RST instead of ACK");
              if (orig_accepted && d.ack) w.count("probe.duplicate_con_response_acked_again");
            }
          } else {
            if (d.fail && !d.rst) res.violate("R4.fail_without_rst", "con", what + ": handler returned FAIL but no RST was sent");
            if (!d.fail && d.handler && d.rst) res.violate("R4.rst_without_fail", "con", what + ": RST sent although the handler accepted it");
          }
        } else if (d.type == 1) {
          if (d.handler != 1) res.violate("R4.non_response_delivery", "copy_not_delivered", what + ": NON datagram copy not handed to the response handler");
          if (d.fail && !d.rst) res.violate("R4.fail_without_rst", "non", what + ": handler returned FAIL but no RST was sent");
          if (dup) w.count("probe.duplicate_non_response");
        } else if (d.type == 2) {
          if (dup && d.handler) res.violate("R4.duplicate_ack_redelivered", prev_same ? "adjacent_copy" : "after_other_piggybacked_response", what + " handed to the handler again" + (prev_same ? "" : "; another piggybacked response was delivered between the copies"));
        }
      }
      // NON requests at the server: handler once per datagram copy
      for (auto &kv : cw.non_req_delivered) {
        int runs = cw.server_runs_by_mid.count(kv.first) ? cw.server_runs_by_mid[kv.first] : 0;
        if (!cw.pb_by_mid.count(kv.first)) continue;   // async styles: copies arriving while the async entry is pending are absorbed by design
        if (runs != kv.second) res.violate("R4.non_request_delivery", runs < kv.second ? "fewer" : "more", strfmt("NON request mid=%04x: %d datagram(s) delivered, server handler ran %d time(s)", kv.first, kv.second, runs));
      }
    }
    bool any_fault = false;
    for (auto &f : w.faults) any_fault |= f.fired;
    res.nontrivial = any_fault && res.counters.count("probe.request_concluded");
    {
      World::AsNode a0(0);
      coap_session_release(cw.sess);
      coap_free_context(cw.cctx);
    }
    {
      World::AsNode a1(1);
      coap_free_context(cw.sctx);
    }
    w.end();
    g = nullptr;
  }
};

struct Reg { Reg() { register_property(new C07()); } } reg;

}  // namespace
