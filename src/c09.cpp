// C09 — block-wise transfer delivers the sender's body intact, once, or fails explicitly.
// World: libcoap client (node 0) <-> libcoap server (node 1), both with COAP_BLOCK_USE_LIBCOAP.
#include "runner.h"
#include "world.h"
#include "coapx.h"

namespace {

uint8_t body_byte(int id, size_t i) { return (uint8_t)(mix64((uint64_t)id * 0x10001ull + i / 7) >> (8 * (i % 7))); }
Bytes make_body(int id, size_t len) {
  Bytes b(len);
  for (size_t i = 0; i < len; i++) b[i] = body_byte(id, i);
  return b;
}

struct Deliv {
  size_t offset, size, total;
  bool ok_bytes;
  int code;
  Bytes token;
  uint64_t t;
};

struct Xfer {
  int id = 0;
  bool put = true, con = true;
  size_t len = 0;
  Bytes token;
  bool submitted = false, send_failed = false;
  std::vector<Deliv> at_server;      // PUT: what the server handler obtained
  std::vector<Deliv> at_client;      // response handler calls (any code) for this token
  int nacks = 0;
  int server_runs = 0;
  bool api_refused = false;     // coap_add_data_large_* returned 0 (e.g. no room for a block within the MTU): explicit failure
};

struct Sub {       // one coap_add_data_large_* submission
  int releases = 0;
  uint8_t *buf = nullptr;
};

struct C09World {
  World w;
  RunResult *res = nullptr;
  coap_context_t *cctx = nullptr, *sctx = nullptr;
  coap_session_t *sess = nullptr;
  std::vector<Xfer> xf;
  std::vector<Sub *> subs;
  int server_mtu = 0;
  bool server_single = false, client_single = false;
  bool stable_etag = true;
  std::set<Bytes> etags_on_wire;
  bool session_tokens = false;
  std::map<int, uint64_t> client_first_tx;   // mid of a client request -> instant of its first transmission
  std::map<Bytes, int> wire_token_owner;   // token seen in a client request datagram -> transfer id (from its Uri-Query id=K)
  bool request_copy_delivered_twice = false;   // the network handed some client request datagram to the server more than once
  std::set<int> non_response_lost;         // transfers of which the network dropped a Non-confirmable response
};
C09World *g = nullptr;

Xfer *by_token(const Bytes &t) { for (auto &x : g->xf) if (x.token == t) return &x; return nullptr; }
Xfer *by_id(int id) { for (auto &x : g->xf) if (x.id == id) return &x; return nullptr; }

void release_cb(coap_session_t *, void *app_ptr) {
  Sub *s = (Sub *)app_ptr;
  s->releases++;
  if (s->releases == 1) { free(s->buf); s->buf = nullptr; }
}

Sub *new_sub(const Bytes &b) {
  Sub *s = new Sub();
  s->buf = (uint8_t *)malloc(b.size() ? b.size() : 1);
  if (!b.empty()) memcpy(s->buf, b.data(), b.size());
  g->subs.push_back(s);
  return s;
}

bool check_bytes(int id, const uint8_t *d, size_t off, size_t n) {
  for (size_t i = 0; i < n; i++) if (d[i] != body_byte(id, off + i)) return false;
  return true;
}

int query_int(const coap_string_t *q, const char *key, int dflt) {
  if (!q) return dflt;
  std::string s((const char *)q->s, q->length), k = std::string(key) + "=";
  size_t p = s.find(k);
  return p == std::string::npos ? dflt : atoi(s.c_str() + p + k.size());
}

void hnd_put(coap_resource_t *, coap_session_t *, const coap_pdu_t *request, const coap_string_t *query, coap_pdu_t *response) {
  int id = query_int(query, "id", -1);
  Xfer *x = by_id(id);
  size_t size = 0, offset = 0, total = 0;
  const uint8_t *data = nullptr;
  int have = coap_get_data_large(request, &size, &data, &offset, &total);
  g->w.log("SERVER-PUT id=%d have=%d size=%zu offset=%zu total=%zu tok=%s", id, have, size, offset, total, hex(cx::tok_of(request)).c_str());
  if (x) {
    x->server_runs++;
    Deliv d{offset, have ? size : 0, total, !have || !size || check_bytes(id, data, offset, size), 0, cx::tok_of(request), g->w.now()};
    x->at_server.push_back(d);
  } else g->res->violate("R5.unknown_transfer_at_server", "unknown_id", strfmt("server handler saw id=%d", id));
  coap_pdu_set_code(response, COAP_RESPONSE_CODE_CHANGED);
}

void hnd_get(coap_resource_t *resource, coap_session_t *session, const coap_pdu_t *request, const coap_string_t *query, coap_pdu_t *response) {
  int id = query_int(query, "id", -1);
  int len = query_int(query, "len", 0);
  Xfer *x = by_id(id);
  if (x) x->server_runs++;
  g->w.log("SERVER-GET id=%d len=%d tok=%s", id, len, hex(cx::tok_of(request)).c_str());
  Sub *s = new_sub(make_body(id, (size_t)len));
  coap_pdu_set_code(response, COAP_RESPONSE_CODE_CONTENT);
  uint64_t etag = g->stable_etag ? 0x5000u + (uint64_t)id : 0;   // 0: libcoap invents a new ETag per handler call
  if (!coap_add_data_large_response(resource, session, request, response, query, COAP_MEDIATYPE_APPLICATION_OCTET_STREAM, -1, etag, (size_t)len, s->buf, release_cb, s)) {
    g->w.count("probe.add_data_large_response_failed");
    if (x) x->api_refused = true;
    coap_pdu_set_code(response, COAP_RESPONSE_CODE_INTERNAL_ERROR);
  }
}

coap_response_t resp_cb(coap_session_t *, const coap_pdu_t *, const coap_pdu_t *rcv, const coap_mid_t) {
  Bytes tok = cx::tok_of(rcv);
  size_t size = 0, offset = 0, total = 0;
  const uint8_t *data = nullptr;
  int have = coap_get_data_large(rcv, &size, &data, &offset, &total);
  int code = (int)coap_pdu_get_code(rcv);
  g->w.log("RESP tok=%s code=%s have=%d size=%zu offset=%zu total=%zu", hex(tok).c_str(), r1::code_str(code).c_str(), have, size, offset, total);
  Xfer *x = by_token(tok);
  if (!x) {
    // whose wire token is it, and had that transfer already concluded (a stray answer to a late duplicate)?
    std::string when = "unknown_owner";
    auto it = g->wire_token_owner.find(tok);
    if (it != g->wire_token_owner.end()) {
      Xfer *o = by_id(it->second);
      bool concluded = false;
      if (o) { for (auto &d : o->at_client) if (d.code != 0x5F) concluded = true; if (o->nacks) concluded = true; }
      when = concluded ? "stray_after_transfer_concluded" : g->request_copy_delivered_twice ? "during_transfer,after_duplicated_request" : "during_transfer,no_duplicated_request";
    }
    g->res->violate("R5.foreign_token", strfmt("%s,%s", tok.size() <= 2 ? "short_library_token" : "state_token", when.c_str()),
                    strfmt("client response handler saw token %s (code %s, %zu bytes at offset %zu) that the application never issued", hex(tok).c_str(), r1::code_str(code).c_str(), size, offset));
    return COAP_RESPONSE_OK;
  }
  bool okb = true;
  if (!x->put && (code >> 5) == 2 && have && size) okb = check_bytes(x->id, data, offset, size);
  x->at_client.push_back(Deliv{offset, have ? size : 0, total, okb, code, tok, g->w.now()});
  return COAP_RESPONSE_OK;
}

void nack_cb(coap_session_t *, const coap_pdu_t *sent, const coap_nack_reason_t reason, const coap_mid_t mid) {
  g->w.log("NACK mid=%04x reason=%d sent=%d", (unsigned)mid & 0xffff, (int)reason, sent != nullptr);
  if (!sent) return;
  if (g->w.aborted) return;     // tear-down of a run that was cut off (reported as M-live.abort): its session-close NACKs are not judged
  Bytes tok = cx::tok_of(sent);
  Xfer *x = by_token(tok);
  if (!x) {
    // whose wire token is it? The give-up is attributed to that transfer (so that it is not also reported as unconcluded);
    // what remains is that the application was handed a token it never issued.
    std::string owner = "unknown_owner";
    auto it = g->wire_token_owner.find(tok);
    if (it != g->wire_token_owner.end()) if (Xfer *o = by_id(it->second)) { o->nacks++; owner = "state_token_of_a_running_transfer"; }
    // libcoap's transfer state (lg_crcv / lg_xmit) expires MAX_TRANSMIT_WAIT (93 s with the default parameters used here) after its last
    // use; a give-up that comes earlier than that cannot be the known expiry race (known_findings.txt): the signature says which
    std::string when = "";
    if (reason == COAP_NACK_TOO_MANY_RETRIES) {
      auto ft = g->client_first_tx.find((int)mid & 0xffff);
      double span_s = ft == g->client_first_tx.end() ? 0 : (g->w.now() - ft->second) / 1e9;
      when = span_s >= 91.0 ? ",at_state_expiry_horizon" : ",before_state_expiry_horizon";
    }
    g->res->violate("R5.foreign_token", std::string(tok.size() <= 2 ? "short_library_token_nack" : "other_token_nack") + "," + owner + (reason == COAP_NACK_TOO_MANY_RETRIES ? ",give_up" : ",other_reason") + when, strfmt("client NACK handler saw token %s that the application never issued", hex(tok).c_str()));
    return;
  }
  x->nacks++;
}

void server_event(coap_session_t *s, coap_event_t ev) {
  if (ev == COAP_EVENT_SERVER_SESSION_NEW && g->server_mtu) coap_session_set_mtu(s, (unsigned)g->server_mtu);
}
int server_event_cb(coap_session_t *s, const coap_event_t ev) { server_event(s, ev); return 0; }

struct C09 : Property {
  C09() {
    id = "C09";
    technique = "deterministic simulation: real libcoap client and server doing Block1/Block2 on the application's behalf over simulated UDP; systematic drop/dup family + seeded loss/dup/delay; body-tiling oracle (R5), token, MTU and release-callback ledgers";
    rule_text = "plan = block modes (single body / per block on either side) x MTU 64..1152 on either side x max block size on either side x 1..2 transfers (PUT upload or GET download, CON/NON, body length from the systematic set k*2^(szx+4)+{-1,0,1} and random 0..20000, second transfer concurrent or sequential) x faults (drop/dup/delay per datagram; first 600 indices: every single drop and single duplicate over the first 12 datagrams of each direction for a fixed upload and download). Non-trivial: a transfer needed more than one block and a fault fired; distinct = distinct event-trace hash.";
    real_components = {"libcoap client and server: coap_block.c (lg_xmit/lg_crcv/lg_srcv, coap_add_data_large_*, coap_handle_request_put_block/send_block, coap_handle_response_send_block/get_block), coap_net.c, coap_session.c, coap_pdu.c, coap_io.c"};
    stub_components = {"simk clock/UDP/epoll/timerfd", "wire tap with R1 decoder"};
    assumptions = {"application tokens are 8 random bytes, or (30% of the plans) whatever coap_session_new_token() hands out at submission",
                   "Q-Block is not enabled; server-side handlers necessarily see the wire token of the request that completed the body and are not judged on tokens"};
    quick_budget_s = 40;
    thorough_budget_s = 700;
    run_timeout_s = 120;
  }
  uint64_t family_size(bool) override { return 600; }
  std::string family_name() override { return "single drop / single duplicate of datagram k (k<12, either direction) x {upload, download} x {single body, per block} x {CON, NON}, 600-byte body, 64-byte blocks"; }

  json generate(uint64_t base, uint64_t index, bool) override {
    Rng r(mix3(base, 0xC09, index));
    json p;
    p["property"] = "C09";
    p["seed"] = base;
    p["index"] = index;
    p["sched_salt"] = r.next() & 0xffffffff;
    json cfg, ops = json::array(), faults = json::array();
    auto tok = [&]() { return hex(r.bytes(8)); };
    if (index < 600) {
      int k = (int)(index % 12), dir = (int)(index / 12 % 2), dup = (int)(index / 24 % 2), put = (int)(index / 48 % 2), single = (int)(index / 96 % 2), con = (int)(index / 192 % 2);
      int variant = (int)(index / 384);   // 0: 600 bytes, 1: 1000 bytes body (indices 384..599)
      cfg = {{"c_single", single}, {"s_single", single}, {"c_mtu", 0}, {"s_mtu", 0}, {"c_maxblk", 64}, {"s_maxblk", 0}, {"stable_etag", variant == 0}};
      ops.push_back({{"kind", put ? "put" : "get"}, {"len", variant ? 1000 : 600}, {"con", con}, {"t_ms", 0}, {"token", tok()}});
      json f = {{"link", dir ? "1>0" : "0>1"}, {"idx", k}, {"act", dup ? "dup" : "drop"}};
      if (dup) { f["n"] = 1; f["delay_us"] = {r.chance(0.5) ? 0 : r.range(0, 3000000)}; }
      faults.push_back(f);
    } else {
      static const int mtus[] = {0, 0, 64, 80, 89, 90, 96, 121, 128, 185, 256, 300, 512, 1024, 1152};
      static const int blks[] = {0, 0, 0, 16, 32, 64, 128, 256, 512, 1024};
      int path_mtu = mtus[r.below(15)];     // one path MTU: both ends are configured with it (a receiver rejects larger datagrams)
      cfg = {{"c_single", r.chance(0.6)}, {"s_single", r.chance(0.6)}, {"c_mtu", path_mtu}, {"s_mtu", path_mtu},
             {"c_maxblk", blks[r.below(10)]}, {"s_maxblk", blks[r.below(10)]}, {"stable_etag", r.chance(0.7)},
             {"session_tokens", r.chance(0.3)}};      // tokens drawn from coap_session_new_token() at submission, as libcoap's own clients do
      int n = r.chance(0.65) ? 1 : 2;
      for (int i = 0; i < n; i++) {
        size_t len;
        if (r.chance(0.55)) {
          int szx = (int)r.range(0, 6);
          len = (size_t)r.range(0, 5) * (16u << szx) + (size_t)r.range(0, 2);
          if (len > 0 && r.chance(0.5)) len -= 1;
        } else if (r.chance(0.85)) len = (size_t)r.range(0, 5000);
        else len = (size_t)r.range(5000, 20000);
        ops.push_back({{"kind", r.chance(0.5) ? "put" : "get"}, {"len", len}, {"con", r.chance(0.7)}, {"t_ms", i == 0 ? 0 : (r.chance(0.5) ? r.range(0, 50) : r.range(50, 20000))}, {"token", tok()}});
      }
      double rate = r.chance(0.25) ? 0.0 : r.chance(0.3) ? 0.15 : 0.05;
      for (int dir = 0; dir < 2; dir++)
        for (int k = 0; k < 40; k++) {
          if (!r.chance(rate)) continue;
          const char *link = dir ? "1>0" : "0>1";
          double x = (r.next() >> 11) * (1.0 / 9007199254740992.0);
          if (x < 0.45) faults.push_back({{"link", link}, {"idx", k}, {"act", "drop"}});
          else if (x < 0.8) faults.push_back({{"link", link}, {"idx", k}, {"act", "dup"}, {"n", 1}, {"delay_us", {r.chance(0.4) ? r.range(0, 2000) : r.range(0, 5000000)}}});
          else faults.push_back({{"link", link}, {"idx", k}, {"act", "delay"}, {"delay_us", {r.range(0, 1500000)}}});
        }
    }
    p["config"] = cfg;
    p["ops"] = ops;
    p["faults"] = faults;
    return p;
  }

  void execute(const json &plan, RunResult &res, bool verbose) override {
    C09World cw;
    g = &cw;
    cw.res = &res;
    World &w = cw.w;
    w.begin(plan.value("sched_salt", 1ull), &res, verbose, false);
    w.max_sim_ns = 30000ull * 1000000000ull;
    w.max_events = 40000;
    const json &cfg = plan["config"];
    auto flag = [&](const char *k) { return cfg.contains(k) && (cfg[k].is_boolean() ? cfg[k].get<bool>() : cfg[k].get<int>() != 0); };
    cw.client_single = flag("c_single");
    cw.server_single = flag("s_single");
    cw.server_mtu = cfg.value("s_mtu", 0);
    cw.stable_etag = !cfg.contains("stable_etag") || flag("stable_etag");
    cw.session_tokens = flag("session_tokens");
    w.add_node(nullptr);
    w.add_node(nullptr);
    cw.cctx = cx::new_context(w, 0);
    cw.sctx = cx::new_context(w, 1);
    coap_context_set_block_mode(cw.cctx, COAP_BLOCK_USE_LIBCOAP | (cw.client_single ? COAP_BLOCK_SINGLE_BODY : 0));
    coap_context_set_block_mode(cw.sctx, COAP_BLOCK_USE_LIBCOAP | (cw.server_single ? COAP_BLOCK_SINGLE_BODY : 0));
    if (cfg.value("c_maxblk", 0)) coap_context_set_max_block_size(cw.cctx, (size_t)cfg.value("c_maxblk", 0));
    if (cfg.value("s_maxblk", 0)) coap_context_set_max_block_size(cw.sctx, (size_t)cfg.value("s_maxblk", 0));
    coap_register_response_handler(cw.cctx, resp_cb);
    coap_register_nack_handler(cw.cctx, nack_cb);
    coap_register_event_handler(cw.sctx, server_event_cb);
    cx::new_endpoint(w, 1, cw.sctx, 5683, COAP_PROTO_UDP);
    {
      World::AsNode as(1);
      coap_resource_t *up = coap_resource_init(coap_make_str_const("up"), 0);
      coap_register_request_handler(up, COAP_REQUEST_PUT, hnd_put);
      coap_add_resource(cw.sctx, up);
      coap_resource_t *dn = coap_resource_init(coap_make_str_const("dn"), 0);
      coap_register_request_handler(dn, COAP_REQUEST_GET, hnd_get);
      coap_add_resource(cw.sctx, dn);
    }
    cw.sess = cx::new_client(w, 0, cw.cctx, World::node_addr(1, 5683), COAP_PROTO_UDP);
    int c_mtu = cfg.value("c_mtu", 0);
    if (c_mtu) coap_session_set_mtu(cw.sess, (unsigned)c_mtu);
    for (auto &f : plan["faults"]) w.faults.push_back(f.get<Fault>());
    int idn = 1;
    for (auto &op : plan["ops"]) {
      Xfer x;
      x.id = idn++;
      x.put = op.value("kind", "put") == "put";
      x.con = op.contains("con") && (op["con"].is_boolean() ? op["con"].get<bool>() : op["con"].get<int>() != 0);
      x.len = op.value("len", (size_t)0);
      x.token = unhex(op.value("token", "0102030405060708"));
      cw.xf.push_back(x);
    }
    // datagram size ledger
    size_t eff_c_mtu = c_mtu ? (size_t)c_mtu : 1152, eff_s_mtu = cw.server_mtu ? (size_t)cw.server_mtu : 1152;
    std::map<std::pair<int, Bytes>, int> delivered_copies;
    bool same_datagram_twice[2] = {false, false};
    w.taps.push_back([&](const WireEv &e) {
      if (e.kind == WireEv::DELIVER && e.to >= 0 && e.to < 2 && ++delivered_copies[{e.to, e.d->data}] > 1) {
        same_datagram_twice[e.to] = true;
        if (e.to == 1 && e.copy > 0) cw.request_copy_delivered_twice = true;
      }
      if (e.kind == WireEv::DROP && e.from == 1) {
        r1::Msg dm;
        if (r1::decode_udp(e.d->data, dm) == r1::ACCEPT && dm.type == 1 && dm.code >= 64 && cw.wire_token_owner.count(dm.token)) cw.non_response_lost.insert(cw.wire_token_owner[dm.token]);
      }
      if (e.kind != WireEv::SEND) return;
      size_t lim = e.from == 0 ? eff_c_mtu : eff_s_mtu;
      if (e.d->data.size() > lim) res.violate("R5.datagram_exceeds_mtu", e.from == 0 ? "client" : "server", strfmt("node %d sent a %zu-byte datagram, session maximum is %zu", e.from, e.d->data.size(), lim));
      r1::Msg m;
      if (e.from == 1 && r1::decode_udp(e.d->data, m) == r1::ACCEPT && m.find(r1::O_ETAG)) cw.etags_on_wire.insert(m.find(r1::O_ETAG)->val);
      if (e.from == 0 && r1::decode_udp(e.d->data, m) == r1::ACCEPT && m.code >= 1 && m.code < 32) cw.client_first_tx.insert({m.mid, e.t_ns});
      if (e.from == 0 && r1::decode_udp(e.d->data, m) == r1::ACCEPT && m.code >= 1 && m.code < 32)
        for (auto &o : m.opts)
          if (o.num == r1::O_URI_QUERY && o.val.size() > 3 && o.val[0] == 'i' && o.val[1] == 'd' && o.val[2] == '=')
            cw.wire_token_owner[m.token] = atoi(std::string(o.val.begin() + 3, o.val.end()).c_str());
      if (r1::decode_udp(e.d->data, m) == r1::ACCEPT && (m.find(r1::O_BLOCK1) || m.find(r1::O_BLOCK2))) {
        const r1::Opt *b = m.find(r1::O_BLOCK1) ? m.find(r1::O_BLOCK1) : m.find(r1::O_BLOCK2);
        uint32_t v = r1::decode_uint(b->val);
        if ((v >> 4) > 0) w.count("probe.block_num_gt0");
      }
    });
    for (size_t i = 0; i < cw.xf.size(); i++) {
      int64_t t_ms = plan["ops"][i].value("t_ms", (int64_t)0);
      w.at_ns(w.now() + (uint64_t)t_ms * 1000000ull, [&cw, &w, i]() {
        Xfer &x = cw.xf[i];
        coap_pdu_t *p = coap_new_pdu(x.con ? COAP_MESSAGE_CON : COAP_MESSAGE_NON, x.put ? COAP_REQUEST_CODE_PUT : COAP_REQUEST_CODE_GET, cw.sess);
        if (!p) { x.send_failed = true; return; }
        if (cw.session_tokens) {
          uint8_t tb[8];
          size_t tl = 0;
          coap_session_new_token(cw.sess, &tl, tb);
          x.token.assign(tb, tb + tl);
          w.count("probe.token_from_coap_session_new_token");
        }
        coap_add_token(p, x.token.size(), x.token.data());
        coap_add_option(p, COAP_OPTION_URI_PATH, 2, (const uint8_t *)(x.put ? "up" : "dn"));
        std::string q = "id=" + std::to_string(x.id);
        coap_add_option(p, COAP_OPTION_URI_QUERY, q.size(), (const uint8_t *)q.data());
        if (!x.put) { std::string q2 = "len=" + std::to_string(x.len); coap_add_option(p, COAP_OPTION_URI_QUERY, q2.size(), (const uint8_t *)q2.data()); }
        if (x.put) {
          Sub *s = new_sub(make_body(x.id, x.len));
          if (!coap_add_data_large_request(cw.sess, p, x.len, s->buf, release_cb, s)) {
            w.count("probe.add_data_large_request_failed");
            x.send_failed = true;
            coap_delete_pdu(p);
            if (s->releases == 0) { /* ownership stays with the caller on failure */ release_cb(nullptr, s); }
            return;
          }
        }
        x.submitted = true;
        coap_mid_t mid = coap_send(cw.sess, p);
        w.log("SUBMIT id=%d %s %s len=%zu tok=%s mid=%04x", x.id, x.put ? "PUT" : "GET", x.con ? "CON" : "NON", x.len, hex(x.token).c_str(), (unsigned)mid & 0xffff);
        if (mid == COAP_INVALID_MID) x.send_failed = true;
      }, 0);
    }
    w.run();
    bool any_fault = false;
    for (auto &f : w.faults) any_fault |= f.fired;
    if (w.aborted) {
      int max_runs = 0;
      for (auto &x : cw.xf) max_runs = std::max(max_runs, x.server_runs);
      bool storm = !cw.stable_etag && max_runs > 30 && cw.etags_on_wire.size() > 30;
      res.violate("M-live.abort", storm ? "etag_restart_storm" : w.abort_why,
                  strfmt("run did not quiesce: %s (server handler ran %d times for one transfer, %zu distinct ETags on the wire)", w.abort_why.c_str(), max_runs, cw.etags_on_wire.size()));
    } else {
      for (auto &x : cw.xf) {
        if (!x.submitted || x.send_failed) continue;
        std::string ctx = strfmt("transfer id=%d %s %s len=%zu", x.id, x.put ? "PUT" : "GET", x.con ? "CON" : "NON", x.len);
        auto bad = [&](const std::string &rule, const std::string &sig, const std::string &d) { res.violate("R5." + rule, sig, ctx + ": " + d); };
        const std::vector<Deliv> *recv = x.put ? &x.at_server : nullptr;
        std::vector<Deliv> cl_ok;
        int successes = 0, errors = 0;
        for (auto &d : x.at_client) {
          if ((d.code >> 5) == 2) { successes++; cl_ok.push_back(d); }
          else errors++;
        }
        if (!x.put) recv = &cl_ok;
        bool single = x.put ? cw.server_single : cw.client_single;
        // 1. nothing but the sender's exact body
        size_t complete = 0;
        std::map<size_t, int> seen_off;
        for (auto &d : *recv) {
          if (!d.ok_bytes) bad("wrong_bytes", "wrong_bytes", strfmt("receiver obtained %zu bytes at offset %zu that differ from the sender's body", d.size, d.offset));
          if (d.offset + d.size > x.len) bad("beyond_body", "beyond_body", strfmt("receiver obtained bytes [%zu,%zu) of a %zu-byte body", d.offset, d.offset + d.size, x.len));
          if (single) {
            if (d.offset != 0 || d.size != x.len) {
              // a 2.31 Continue / intermediate response has no data: only data-bearing or final deliveries count
              if (d.size || d.offset) bad("partial_in_single_body_mode", "partial", strfmt("single-body receiver obtained %zu bytes at offset %zu", d.size, d.offset));
              else if (x.len) { if (!x.put) {} }
            }
            if (d.offset == 0 && d.size == x.len) complete++;
          } else {
            if (d.size || x.len == 0) seen_off[d.offset]++;
          }
        }
        if (!single) {
          // exact tiling at most once
          size_t pos = 0;
          bool tiles = true, twice = false;
          for (auto &kv : seen_off) if (kv.second > 1) twice = true;
          std::vector<const Deliv *> first;
          std::set<size_t> offs;
          for (auto &d : *recv) if ((d.size || x.len == 0) && offs.insert(d.offset).second) first.push_back(&d);
          std::sort(first.begin(), first.end(), [](const Deliv *a, const Deliv *b) { return a->offset < b->offset; });
          for (auto *d : first) { if (d->offset != pos) { tiles = false; break; } pos += d->size; }
          if (first.empty()) tiles = false;
          if (tiles && pos == x.len) complete = 1;
          // a body that fits one Non-confirmable message is not a block-wise transfer: each datagram copy is delivered (C07)
          // Non-confirmable transfers: C07 says a NON is delivered once per datagram received, so copies of a NON block that
          // the network duplicated are each delivered; "at most once" is judged for Confirmable transfers only.
          // A body carried by one message is not a block-wise transfer; what happens to duplicates of that message is C07's subject.
          bool one_message = !first.empty() && first.size() == 1 && first[0]->offset == 0 && first[0]->size == x.len;
          // Non-confirmable block-wise download: the block layer records the blocks it has received (check_if_received_block), so
          // a network copy of a block that is not the last one must not reach the application again while the transfer runs
          // (copies of the final block arrive when the transfer state is gone: C07's subject).
          // (not judged when a copy of a request reached the server: it answers twice, with a new ETag, and the client restarts)
          if (twice && !x.con && !x.put && !one_message && !first.empty() && !cw.request_copy_delivered_twice) {
            size_t last_off = first.back()->offset;
            bool inner_twice = false;
            for (auto &kv : seen_off) if (kv.second > 1 && kv.first != last_off) inner_twice = true;
            if (inner_twice && tiles && pos == x.len) bad("block_delivered_twice", strfmt("per_block_mode,download_at_client,non_confirmable,%s", any_fault ? "faults_fired" : "no_faults"), "a block other than the last one of a Non-confirmable download was handed to the application more than once");
          }
          if (twice && x.con && !one_message) bad("block_delivered_twice", strfmt("per_block_mode,%s,%s", x.put ? "upload_at_server" : "download_at_client", any_fault ? "faults_fired" : "no_faults"), "a block was handed to the receiving application more than once");
          if (!tiles && !first.empty() && !any_fault) bad("tiling_hole", "no_faults", "delivered blocks do not tile the body");
        } else if (complete > 1) bad("body_delivered_twice", same_datagram_twice[x.put ? 1 : 0] ? "receiver_got_an_identical_datagram_twice" : "all_datagrams_distinct", strfmt("complete body delivered %zu times", complete));
        if (x.len > 64) w.count("probe.multi_block_transfer");
        if (complete) w.count("probe.transfer_completed");
        // 2. no loss / duplication: exactly one delivery and one success response
        if (!any_fault && !x.api_refused) {
          if (complete != 1) bad("not_delivered_without_faults", x.put ? "put" : "get", strfmt("%zu complete deliveries with no datagram lost or duplicated (%zu receiver calls, %d success / %d error responses, %d NACKs)", complete, recv->size(), successes, errors, x.nacks));
          int final_success = 0;
          for (auto &d : x.at_client) if ((d.code >> 5) == 2 && d.code != 0x5F) final_success++;
          if (x.put && final_success != 1) bad("success_response_count", "put", strfmt("%d success responses reached the application", final_success));
          if (!x.put && single && final_success != 1) bad("success_response_count", "get", strfmt("%d success responses reached the application", final_success));
        }
        // 3. an abandoned Confirmable exchange is reported
        // (a Non-confirmable separate response that the network lost cannot be recovered by anybody: open-ended, as in C07)
        if (x.con && !successes && !errors && !x.nacks && !cw.non_response_lost.count(x.id)) bad("no_conclusion", std::string(x.put ? "put" : "get") + (!x.put && !plan["config"].value("stable_etag", true) && any_fault ? ",representation_changes_between_requests,faults_fired" : ""), "Confirmable transfer ended with neither a response nor a NACK at quiescence");
      }
    }
    res.nontrivial = any_fault && res.counters.count("probe.block_num_gt0");
    {
      World::AsNode a0(0);
      coap_session_release(cw.sess);
      coap_free_context(cw.cctx);
    }
    {
      World::AsNode a1(1);
      coap_free_context(cw.sctx);
    }
    // 4. release callback exactly once per submission (also on failure paths and at context free)
    for (size_t i = 0; i < cw.subs.size(); i++) {
      if (cw.subs[i]->releases != 1 && !w.aborted)
        res.violate("R5.release_count", cw.subs[i]->releases == 0 ? "never" : "twice", strfmt("release callback of submission %zu ran %d times", i, cw.subs[i]->releases));
      if (cw.subs[i]->buf) free(cw.subs[i]->buf);
      delete cw.subs[i];
    }
    w.end();
    g = nullptr;
  }
};

struct Reg { Reg() { register_property(new C09()); } } reg;

}  // namespace
