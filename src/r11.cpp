// R11 — independent reference model of the /.well-known/core listing. See r11.h for scope and interpretations.
#include "r11.h"
#include <algorithm>
#include <cstring>

namespace r11 {
namespace {

bool failw(std::string *why, const std::string &s) {
  if (why) *why = s;
  return false;
}

std::string unquote(const std::string &v) {                       // J4
  if (v.size() >= 2 && v.front() == '"' && v.back() == '"') return v.substr(1, v.size() - 2);
  return v;
}

std::vector<std::string> tokens(const std::string &v) {           // J6
  std::vector<std::string> t;
  size_t st = 0;
  while (st <= v.size()) {
    size_t e = v.find(' ', st);
    if (e == std::string::npos) e = v.size();
    if (e > st) t.push_back(v.substr(st, e - st));
    st = e + 1;
  }
  if (t.empty()) t.push_back("");
  return t;
}

bool match_one(const std::string &text, const std::string &pat, bool prefix) {
  return prefix ? text.compare(0, pat.size(), pat) == 0 && text.size() >= pat.size() : text == pat;
}

// RFC 6690 §2 / RFC 5987 character classes
bool is_alnum(unsigned char c) { return (c >= '0' && c <= '9') || (c >= 'A' && c <= 'Z') || (c >= 'a' && c <= 'z'); }
bool is_attr_char(unsigned char c) { return is_alnum(c) || (c && strchr("!#$&+-.^_`|~", c)); }
bool is_ptoken_char(unsigned char c) { return is_alnum(c) || (c && strchr("!#$%&'()*+-./:<=>?@[]^_`{|}~", c)); }

}  // namespace

std::string link(const Res &r) {
  std::string s = "</" + r.path + ">";
  for (auto &a : r.attrs) {
    s += ";" + a.name;
    if (a.has_value) s += "=" + a.value;
  }
  if (r.observable) s += ";obs";
  return s;
}

std::string listing(const std::vector<Res> &rs) {
  std::string s;
  for (size_t i = 0; i < rs.size(); i++) {
    if (i) s += ",";
    s += link(rs[i]);
  }
  return s;
}

bool matches(const Res &r, const std::string &name, const std::string &value, bool has_value) {
  if (name.empty() && !has_value) return true;                    // empty query
  // the values the resource-param refers to on this link
  std::vector<std::string> cands;
  if (name == "href") {
    cands.push_back("/" + r.path);                                // J9
  } else {
    for (auto &a : r.attrs)
      if (a.name == name) cands.push_back(a.has_value ? unquote(a.value) : std::string());   // J2, J3, J7
    if (name == "obs" && r.observable) cands.push_back("");       // J10
  }
  if (cands.empty()) return false;                                // link does not carry the attribute
  if (!has_value) return true;                                    // J1: presence
  bool prefix = !value.empty() && value.back() == '*';            // J5
  std::string pat = prefix ? value.substr(0, value.size() - 1) : value;
  bool list = name == "rt" || name == "if" || name == "rel";      // space separated value lists
  for (auto &c : cands) {
    if (list) {
      for (auto &t : tokens(c)) if (match_one(t, pat, prefix)) return true;
    } else if (match_one(c, pat, prefix)) {
      return true;
    }
  }
  return false;
}

std::vector<Res> filter(const std::vector<Res> &rs, const std::string &query) {
  size_t eq = query.find('=');
  bool has_value = eq != std::string::npos;
  std::string name = has_value ? query.substr(0, eq) : query;
  std::string value = has_value ? query.substr(eq + 1) : std::string();
  std::vector<Res> out;
  for (auto &r : rs) if (matches(r, name, value, has_value)) out.push_back(r);
  return out;
}

bool parse(const std::string &text, std::vector<Res> &out, std::string *why) {
  out.clear();
  if (why) why->clear();
  const size_t n = text.size();
  size_t pos = 0;
  if (n == 0) return true;                                        // Link-value-list may be empty
  auto at = [&](const std::string &m) { return m + " at offset " + std::to_string(pos); };
  for (;;) {
    Res r;
    if (pos >= n || text[pos] != '<') return failw(why, at("expected '<'"));
    size_t gt = text.find('>', pos);
    if (gt == std::string::npos) return failw(why, at("unterminated '<'"));
    std::string href = text.substr(pos + 1, gt - pos - 1);
    if (href.empty() || href[0] != '/') return failw(why, at("link target is not an absolute path"));
    for (unsigned char c : href)
      if (c <= 0x20 || c >= 0x7f || c == '<' || c == '"') return failw(why, at("byte not allowed in a URI-reference"));
    r.path = href.substr(1);
    pos = gt + 1;
    while (pos < n && text[pos] == ';') {
      pos++;
      Attr a{"", "", false};
      while (pos < n && (is_attr_char((unsigned char)text[pos]) || text[pos] == '*')) a.name += text[pos++];
      if (a.name.empty()) return failw(why, at("empty or malformed parameter name"));
      if (pos < n && text[pos] == '=') {
        pos++;
        a.has_value = true;
        if (pos < n && text[pos] == '"') {                        // quoted-string, kept with its quotes
          size_t e = pos + 1;
          while (e < n && text[e] != '"') e += (text[e] == '\\' && e + 1 < n) ? 2 : 1;
          if (e >= n) return failw(why, at("unterminated quoted-string"));
          a.value = text.substr(pos, e + 1 - pos);
          pos = e + 1;
        } else {                                                  // ptoken
          while (pos < n && is_ptoken_char((unsigned char)text[pos])) a.value += text[pos++];
          if (a.value.empty()) return failw(why, at("empty or malformed parameter value"));
        }
      }
      if (pos < n && text[pos] != ';' && text[pos] != ',') return failw(why, at("unexpected byte after parameter"));
      if (a.name == "obs" && !a.has_value && !r.observable) r.observable = true;
      else r.attrs.push_back(a);
    }
    out.push_back(r);
    if (pos >= n) return true;
    if (text[pos] != ',') return failw(why, at("expected ',' or ';'"));
    pos++;
    if (pos >= n) return failw(why, at("trailing ','"));
  }
}

bool equivalent(const std::string &a, const std::string &b, std::string *why) {
  std::vector<Res> ra, rb;
  std::string w;
  if (!parse(a, ra, &w)) return failw(why, "first text: " + w);
  if (!parse(b, rb, &w)) return failw(why, "second text: " + w);
  auto canon = [](const std::vector<Res> &rs) {
    std::vector<std::string> links;
    for (auto &r : rs) {
      std::vector<std::string> ps;
      for (auto &p : r.attrs) ps.push_back(";" + p.name + (p.has_value ? "=" + p.value : std::string()));
      if (r.observable) ps.push_back(";obs");
      std::sort(ps.begin(), ps.end());
      std::string l = "</" + r.path + ">";
      for (auto &p : ps) l += p;
      links.push_back(l);
    }
    std::sort(links.begin(), links.end());
    return links;
  };
  auto ca = canon(ra), cb = canon(rb);
  if (ca == cb) return true;
  for (auto &l : ca) if (std::count(ca.begin(), ca.end(), l) != std::count(cb.begin(), cb.end(), l)) return failw(why, "only in first (or different multiplicity): " + l);
  for (auto &l : cb) if (std::count(ca.begin(), ca.end(), l) != std::count(cb.begin(), cb.end(), l)) return failw(why, "only in second (or different multiplicity): " + l);
  return failw(why, "different");
}

// ---- self test ----------------------------------------------------------------------------------------------------
std::string selftest() {
#define CHECK(cond, msg) do { if (!(cond)) return std::string("r11 selftest: ") + (msg) + " [" #cond "]"; } while (0)
  auto A = [](const char *n, const char *v) { return Attr{n, v, true}; };
  auto F = [](const char *n) { return Attr{n, "", false}; };
  auto paths = [](const std::vector<Res> &rs) {
    std::string s;
    for (auto &r : rs) s += "/" + r.path + " ";
    return s;
  };
  std::string why;

  // RFC 6690 §5, first example (the absolute-URI link cannot be registered as a local resource and is left out)
  std::vector<Res> rs;
  rs.push_back(Res{"sensors", {A("ct", "40"), A("title", "\"Sensor Index\"")}, false});
  rs.push_back(Res{"sensors/temp", {A("rt", "\"temperature-c\""), A("if", "\"sensor\"")}, false});
  rs.push_back(Res{"sensors/light", {A("rt", "\"light-lux\""), A("if", "\"sensor\"")}, true});
  rs.push_back(Res{"t", {A("anchor", "\"/sensors/temp\""), A("rel", "\"alternate\"")}, false});
  const char *want =
      "</sensors>;ct=40;title=\"Sensor Index\","
      "</sensors/temp>;rt=\"temperature-c\";if=\"sensor\","
      "</sensors/light>;rt=\"light-lux\";if=\"sensor\";obs,"
      "</t>;anchor=\"/sensors/temp\";rel=\"alternate\"";
  CHECK(listing(rs) == want, "RFC 6690 section 5 listing: " + listing(rs));
  CHECK(listing({}) == "" && link(Res{"", {}, false}) == "</>" && link(Res{"a", {F("x")}, true}) == "</a>;x;obs", "link() basics");

  struct { const char *query; const char *expect; } t[] = {
    {"", "/sensors /sensors/temp /sensors/light /t "},
    // RFC 6690 §5: GET /.well-known/core?rt=light-lux
    {"rt=light-lux", "/sensors/light "},
    {"rt=temperature-c", "/sensors/temp "}, {"rt=temperature", ""}, {"rt=temperature*", "/sensors/temp "}, {"rt=t*", "/sensors/temp "},
    {"rt=*", "/sensors/temp /sensors/light "}, {"rt", "/sensors/temp /sensors/light "}, {"rt=", ""}, {"rt=\"light-lux\"", ""},
    {"if=sensor", "/sensors/temp /sensors/light "}, {"if=sens*", "/sensors/temp /sensors/light "}, {"if=sensors", ""},
    // §4.1 examples: ?href=/foo , ?href=/foo* , ?foo=bar , ?foo=bar* , ?foo=*
    {"href=/sensors", "/sensors "}, {"href=/sensors*", "/sensors /sensors/temp /sensors/light "}, {"href=/sensors/*", "/sensors/temp /sensors/light "},
    {"href=/t", "/t "}, {"href=/*", "/sensors /sensors/temp /sensors/light /t "}, {"href=*", "/sensors /sensors/temp /sensors/light /t "},
    {"href", "/sensors /sensors/temp /sensors/light /t "}, {"href=sensors*", ""}, {"href=", ""}, {"href=/", ""}, {"href=/T", ""},
    {"title=Sensor Index", "/sensors "}, {"title=Sensor*", "/sensors "}, {"title=Sensor", ""}, {"title=Index", ""}, {"title=*", "/sensors "},
    {"ct=40", "/sensors "}, {"ct=4", ""}, {"ct=4*", "/sensors "}, {"ct=400", ""}, {"ct=40*", "/sensors "},
    {"rel=alternate", "/t "}, {"anchor=/sensors/temp", "/t "}, {"anchor=/sensors*", "/t "},
    {"foo=*", ""}, {"foo", ""}, {"foo=", ""}, {"=x", ""}, {"=", ""}, {"RT=light-lux", ""},
    {"obs", "/sensors/light "}, {"obs=", "/sensors/light "}, {"obs=*", "/sensors/light "}, {"obs=1", ""},
    {"rt=light-lux=x", ""}, {"rt=light*lux", ""}, {"rt=**", ""},
  };
  for (auto &e : t) {
    std::string got = paths(filter(rs, e.query));
    CHECK(got == e.expect, std::string("filter \"") + e.query + "\" gives \"" + got + "\" want \"" + e.expect + "\"");
  }

  // value lists, unquoted values, repeated names, value-less attributes
  {
    Res m{"m", {A("rt", "\"a b-c  d\""), A("title", "\"a b\""), A("x", "1"), A("x", "\"2\""), F("flag"), A("e", "\"\""), A("q", "\""), A("star", "\"a*b\"")}, false};
    struct { const char *n, *v; bool hv, expect; } c[] = {
      {"rt", "a", true, true}, {"rt", "b-c", true, true}, {"rt", "b*", true, true}, {"rt", "d", true, true}, {"rt", "c", true, false},
      {"rt", "a b*", true, false}, {"rt", "a b-c", true, false}, {"rt", "", true, false}, {"rt", "*", true, true}, {"rt", "a b-c  d", true, false},
      {"title", "a", true, false}, {"title", "a*", true, true}, {"title", "a b", true, true}, {"title", "b", true, false},
      {"x", "1", true, true}, {"x", "2", true, true}, {"x", "3", true, false}, {"x", "", false, true},
      {"flag", "", false, true}, {"flag", "", true, true}, {"flag", "*", true, true}, {"flag", "x", true, false},
      {"e", "", true, true}, {"e", "*", true, true}, {"e", "x*", true, false},
      {"q", "\"", true, true}, {"q", "", true, false},
      {"star", "a*b", true, true}, {"star", "a*", true, true}, {"star", "a**", true, true}, {"star", "a*b*", true, true}, {"star", "ab", true, false},
      {"href", "/m", true, true}, {"href", "m", true, false}, {"obs", "", false, false}, {"", "", false, true},
    };
    for (auto &e : c)
      CHECK(matches(m, e.n, e.v, e.hv) == e.expect, std::string("matches ") + e.n + (e.hv ? "=" : "") + e.v + " expected " + (e.expect ? "true" : "false"));
    Res l{"l", {A("rt", "core.s"), A("if", "   ")}, false};
    CHECK(matches(l, "rt", "core.s", true) && matches(l, "rt", "core*", true) && !matches(l, "rt", "core", true), "unquoted rt");
    CHECK(matches(l, "if", "", true) && matches(l, "if", "*", true) && !matches(l, "if", " ", true), "value made of spaces = one empty token");
    Res o{"o", {F("obs")}, false};
    CHECK(matches(o, "obs", "", false) && link(o) == "</o>;obs", "explicit obs attribute");
  }

  // parse / equivalent
  {
    std::vector<Res> back;
    CHECK(parse(want, back, &why) && back == rs, "parse(listing) round trip: " + why);
    CHECK(parse("", back, &why) && back.empty(), "empty listing");
    CHECK(parse("</>", back, &why) && back.size() == 1 && back[0].path.empty(), "root link");
    CHECK(parse("</a>;title=\"x,y;z</b>\";n=1,</b>", back, &why) && back.size() == 2 && back[0].attrs.size() == 2 && back[0].attrs[0].value == "\"x,y;z</b>\"", "separators inside quoted-string: " + why);
    CHECK(parse("</a>;title=\"a\\\"b\";obs;obs", back, &why) && back[0].attrs.size() == 2 && back[0].attrs[0].value == "\"a\\\"b\"" && back[0].observable && back[0].attrs[1].name == "obs", "quoted-pair and double obs: " + why);
    CHECK(link(back[0]) == "</a>;title=\"a\\\"b\";obs;obs", "re-link");
    CHECK(parse("</a>;sz=262144;title*=UTF-8'en'x", back, &why) && back[0].attrs[1].name == "title*", "ptoken and ext-name: " + why);
    const char *bad[] = {"<a>", "<>", "a", "</a", "</a>;", "</a>;=x", "</a>;x=", "</a>;x=\"y", "</a>,", ",</a>", "</a>,,</b>", "</a> ,</b>", "</a>, </b>",
                         "</a>; x=1", "</a>;x =1", "</a>;x=1 ", "</a>;x=\"y\"z", "</a>x", "</a b>", "<http://www.example.com/sensors/t123>;anchor=\"/sensors/temp\";rel=\"describedby\"",
                         "</a>;x=a,b=c;", "</a>;x=y\"z\""};
    for (auto *b : bad) CHECK(!parse(b, back, &why) && !why.empty(), std::string("parse must fail: ") + b);
    CHECK(equivalent(want, "</t>;rel=\"alternate\";anchor=\"/sensors/temp\",</sensors/light>;obs;if=\"sensor\";rt=\"light-lux\","
                           "</sensors/temp>;if=\"sensor\";rt=\"temperature-c\",</sensors>;title=\"Sensor Index\";ct=40", &why), "equivalent under reordering: " + why);
    CHECK(!equivalent("</a>;x=1", "</a>;x=2", &why) && !equivalent("</a>", "</a>,</a>", &why) && !equivalent("</a>;obs", "</a>", &why) && !equivalent("</a>;x=1", "</a>;x=\"1\"", &why), "not equivalent");
    CHECK(equivalent("", "", &why) && !equivalent("</a>", "</a>,", &why) && why.rfind("second text:", 0) == 0, "equivalent edge cases");
    // filter result of the model goes through the parser unchanged
    for (auto *q : {"rt=light-lux", "if=sensor", "href=/sensors*", "obs", ""})
      CHECK(parse(listing(filter(rs, q)), back, &why) && back == filter(rs, q), std::string("filtered round trip ") + q);
  }
#undef CHECK
  return "";
}

}  // namespace r11
