// Run one plan in a child process and bring its RunResult back (used where process-wide state cannot be reset between runs:
// threads that may be left stuck by a deadlock, C13).
#pragma once
#include "runner.h"
#include <signal.h>
#include <sys/wait.h>
#include <unistd.h>

inline void run_isolated(const std::function<void(RunResult &)> &fn, RunResult &res) {
  int pfd[2];
  if (pipe(pfd) != 0) { res.violate("M-machinery", "pipe", "pipe() failed"); return; }
  fflush(stdout);
  fflush(stderr);
  pid_t pid = fork();
  if (pid == 0) {
    close(pfd[0]);
    RunResult r;
    fn(r);
    json j;
    j["violations"] = r.violations;
    j["trace_hash"] = r.trace_hash;
    j["events"] = r.events;
    j["sim_us"] = r.sim_us;
    j["nontrivial"] = r.nontrivial;
    j["counters"] = r.counters;
    j["log"] = r.log;
    std::string out = j.dump(-1, ' ', false, json::error_handler_t::replace);
    size_t off = 0;
    while (off < out.size()) { ssize_t n = write(pfd[1], out.data() + off, out.size() - off); if (n <= 0) break; off += (size_t)n; }
    fflush(stdout);
    _exit(0);
  }
  close(pfd[1]);
  std::string in;
  char buf[65536];
  ssize_t n;
  while ((n = read(pfd[0], buf, sizeof buf)) > 0) in.append(buf, (size_t)n);
  close(pfd[0]);
  int st = 0;
  while (waitpid(pid, &st, 0) < 0 && errno == EINTR) {}
  if (!WIFEXITED(st) || WEXITSTATUS(st) != 0) {
    fflush(stderr);
    if (WIFSIGNALED(st)) { signal(WTERMSIG(st), SIG_DFL); raise(WTERMSIG(st)); }
    _exit(WIFEXITED(st) ? WEXITSTATUS(st) : 70);
  }
  try {
    json j = json::parse(in);
    res.violations = j["violations"].get<std::vector<Violation>>();
    res.trace_hash = j["trace_hash"].get<uint64_t>();
    res.events = j["events"].get<uint64_t>();
    res.sim_us = j["sim_us"].get<uint64_t>();
    res.nontrivial = j["nontrivial"].get<bool>();
    res.counters = j["counters"].get<Counters>();
    res.log = j["log"].get<std::vector<std::string>>();
  } catch (...) { res.violate("M-machinery", "result_pipe", "could not read the result of the isolated run"); }
}
