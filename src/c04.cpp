// C04 — in-place message edits change only what they name.
// "PDU lab" inside a client node: a PDU (freshly built or parsed from reference-encoded bytes) receives a generated sequence
// of insert/update/remove/replace-token edits, mirrored on the abstract model R2; after every step the accessor dump must
// equal the model, and at the end the PDU is sent over the simulated wire and the captured datagram must decode to the model.
#include "runner.h"
#include "world.h"
#include "coapx.h"
#include <algorithm>

namespace {

struct Model {
  Bytes token;
  std::vector<r1::Opt> opts;   // always sorted by number, insertion order kept among equal numbers
  Bytes payload;
  void insert(uint32_t num, const Bytes &v) {
    size_t i = 0;
    while (i < opts.size() && opts[i].num <= num) i++;
    opts.insert(opts.begin() + (long)i, r1::Opt{num, v});
  }
  bool update(uint32_t num, const Bytes &v) {
    for (auto &o : opts) if (o.num == num) { o.val = v; return true; }
    return false;
  }
  bool remove(uint32_t num) {
    for (size_t i = 0; i < opts.size(); i++) if (opts[i].num == num) { opts.erase(opts.begin() + (long)i); return true; }
    return false;
  }
};

std::string describe(const Model &m) {
  r1::Msg x;
  x.token = m.token;
  x.opts = m.opts;
  x.payload = m.payload;
  return x.str();
}

struct C04 : Property {
  C04() {
    id = "C04";
    technique = "model-based edit sequences executed inside deterministic simulation runs: libcoap's PDU editing API against the abstract (token, ordered option list, payload) model after every step, then serialisation over the simulated wire and reference decoding; allocation failure injected at resize points";
    rule_text = "plan = starting message (built through the API or parsed from reference-encoded bytes, with/without payload, maximum PDU size chosen so that growth/refusal happens) x up to 40 edits (insert / update / remove of option numbers chosen to move the following option's delta across 12/13 and 268/269, token replacement with lengths 0..8, 12, 13, 255, 256, 268..270, 1000) x optional failing allocation at the k-th resize. Each edit is one oracle evaluation (probes.edits_judged). Non-trivial: at least one edit changed a following option's header size or forced buffer growth (probes) and at least 5 edits applied; distinct = trace hash over all intermediate dumps. Pure function of its input hosted in the simulator: only the allocation failures and the final wire trip come from the simulation family.";
    real_components = {"libcoap: coap_pdu.c (coap_insert_option, coap_update_option, coap_remove_option, coap_update_token, coap_pdu_resize/check_resize, coap_pdu_parse, encode on send), coap_option.c, coap_net.c send path"};
    stub_components = {"simk UDP + allocator (failure injection)", "R2 abstract message model", "R1 decoder for the wire check"};
    assumptions = {"the final wire check is made when the token fits the session's negotiated token size (<= 8 bytes on a fresh datagram session); longer tokens are checked by accessor dumps only"};
    quick_budget_s = 25;
    thorough_budget_s = 400;
  }

  json generate(uint64_t base, uint64_t index, bool) override {
    Rng r(mix3(base, 0xC04, index));
    json p;
    p["property"] = "C04";
    p["seed"] = base;
    p["index"] = index;
    p["sched_salt"] = r.next() & 0xffffffff;
    // (Proxy-Uri 35 / Proxy-Scheme 39 are left to C01: adding them to a request makes libcoap add a Hop-Limit option as well)
    static const int nums[] = {1, 3, 4, 5, 6, 7, 8, 11, 12, 14, 15, 17, 20, 23, 24, 25, 26, 27, 28, 36, 38, 40, 60, 252, 258, 281, 282, 283, 292, 293, 540, 561, 562, 563, 2048, 65000, 65535, 0, 13, 14, 269, 270, 300};
    auto rnd_val = [&]() {
      static const int lens[] = {0, 0, 1, 1, 2, 3, 4, 8, 11, 12, 13, 14, 20, 40, 100, 255, 268, 269, 270, 300};
      return hex(r.bytes((size_t)lens[r.below(20)]));
    };
    json start;
    start["parsed"] = r.chance(0.5);
    start["max_size"] = r.chance(0.3) ? r.range(16, 200) : r.chance(0.5) ? r.range(200, 1200) : 1152;
    start["token"] = hex(r.bytes((size_t)(r.chance(0.8) ? r.range(0, 8) : r.pick(std::vector<int>{12, 13, 20, 268, 269, 270}))));
    json so = json::array();
    int n0 = (int)r.range(0, 6);
    for (int i = 0; i < n0; i++) so.push_back(json::array({nums[r.below(43)], rnd_val()}));
    start["opts"] = so;
    start["payload"] = r.chance(0.6) ? hex(r.bytes((size_t)r.range(1, 60))) : "";
    p["config"] = start;
    json ops = json::array();
    int n = (int)r.range(1, 40);
    for (int i = 0; i < n; i++) {
      double x = (r.next() >> 11) * (1.0 / 9007199254740992.0);
      int num = nums[r.below(43)];
      if (x < 0.4) ops.push_back(json::array({"ins", num, rnd_val()}));
      else if (x < 0.65) ops.push_back(json::array({"upd", num, rnd_val()}));
      else if (x < 0.88) ops.push_back(json::array({"rem", num}));
      else {
        static const int tl[] = {0, 1, 2, 4, 8, 8, 9, 12, 13, 14, 255, 256, 268, 269, 270, 1000};
        ops.push_back(json::array({"tok", hex(r.bytes((size_t)tl[r.below(16)]))}));
      }
    }
    p["ops"] = ops;
    p["faults"] = r.chance(0.25) ? json::array({json{{"fail_alloc", r.range(1, 12)}}}) : json::array();
    return p;
  }

  void execute(const json &plan, RunResult &res, bool verbose) override {
    World w;
    w.begin(plan.value("sched_salt", 1ull), &res, verbose, false);
    w.add_node(nullptr);
    w.add_node(nullptr);
    coap_context_t *ctx = cx::new_context(w, 0);
    int peer = simk::raw_udp_socket(1, World::node_addr(1, 5683));
    coap_session_t *sess = cx::new_client(w, 0, ctx, World::node_addr(1, 5683), COAP_PROTO_UDP);
    const json &st = plan["config"];
    Model m;
    m.token = unhex(st.value("token", ""));
    size_t max_size = st.value("max_size", (size_t)1152);
    coap_pdu_t *pdu = nullptr;
    std::vector<r1::Opt> start_opts;
    for (auto &o : st["opts"]) start_opts.push_back({o[0].get<uint32_t>(), unhex(o[1].get<std::string>())});
    Bytes start_payload = unhex(st.value("payload", ""));
    bool usable = true;
    int64_t fail_at = -1, alloc_seen = 0;
    for (auto &f : plan["faults"]) if (f.contains("fail_alloc")) fail_at = f["fail_alloc"].get<int64_t>();
    {
      World::AsNode as(0);
      if (st.value("parsed", false)) {
        r1::Msg sm;
        sm.type = 0;
        sm.code = 1;
        sm.mid = 0x1234;
        sm.token = m.token;
        sm.opts = start_opts;
        sm.payload = start_payload;
        Bytes wire = r1::encode_udp(sm);
        r1::Msg chk;
        if (r1::decode_udp(wire, chk) != r1::ACCEPT) usable = false;      // start message must be well-formed (option length limits)
        pdu = coap_pdu_init(COAP_MESSAGE_CON, COAP_EMPTY_CODE, 0, std::max(max_size, wire.size()));
        if (usable && pdu && coap_pdu_parse(COAP_PROTO_UDP, wire.data(), wire.size(), pdu)) {
          std::stable_sort(sm.opts.begin(), sm.opts.end(), [](const r1::Opt &a, const r1::Opt &b) { return a.num < b.num; });
          m.opts = sm.opts;
          m.payload = sm.payload;
        } else usable = false;
      } else {
        pdu = coap_pdu_init(COAP_MESSAGE_CON, COAP_REQUEST_CODE_GET, 0x1234, max_size);
        if (pdu) {
          if (!coap_add_token(pdu, m.token.size(), m.token.data())) m.token.clear();
          std::stable_sort(start_opts.begin(), start_opts.end(), [](const r1::Opt &a, const r1::Opt &b) { return a.num < b.num; });
          // (coap_add_option() adds protocol behaviour of its own - refusal of illegal repetition, automatic Hop-Limit with
          //  Proxy-* - which belongs to C01; the lab uses the plain editing primitive)
          for (auto &o : start_opts)
            if (coap_insert_option(pdu, (coap_option_num_t)o.num, o.val.size(), o.val.data())) m.opts.push_back(o);
          if (!start_payload.empty() && coap_add_data(pdu, start_payload.size(), start_payload.data())) m.payload = start_payload;
        } else usable = false;
      }
    }
    auto check = [&](const std::string &after) -> bool {
      r1::Msg d = cx::msg_from_pdu(pdu);
      const char *field = nullptr;
      if (d.token != m.token) field = "token";
      else if (!(d.opts == m.opts)) field = "options";
      else if (d.payload != m.payload) field = "payload";
      w.tr.mixbytes(after.data(), after.size());
      std::string ds = d.str();
      w.tr.mixbytes(ds.data(), ds.size());
      if (field) {
        res.violate("R2.edit_changed_other_field", std::string(field) + "_after_" + after.substr(0, 3), "after " + after + " the message is " + d.str() + " but the model says " + describe(m));
        return false;
      }
      return true;
    };
    bool ok = usable && pdu && check("start");
    size_t applied = 0;
    if (ok) {
      simk::K().hooks.fail_alloc = [&](int, size_t) { return ++alloc_seen == fail_at; };
      World::AsNode as(0);
      for (auto &op : plan["ops"]) {
        std::string kind = op[0].get<std::string>();
        std::string what;
        size_t before_total = m.token.size() + m.payload.size();
        for (auto &o : m.opts) before_total += o.val.size() + 5;
        if (kind == "tok") {
          Bytes t = unhex(op[1].get<std::string>());
          what = strfmt("token replacement (%zu -> %zu bytes)", m.token.size(), t.size());
          int r = coap_update_token(pdu, t.size(), t.data());
          if (r) m.token = t; else w.count("probe.edit_refused");
        } else {
          uint32_t num = op[1].get<uint32_t>();
          if (kind == "ins") {
            Bytes v = unhex(op[2].get<std::string>());
            what = strfmt("insert option %u (%zu bytes)", num, v.size());
            size_t r = coap_insert_option(pdu, (coap_option_num_t)num, v.size(), v.data());
            if (r) m.insert(num, v); else w.count("probe.edit_refused");
          } else if (kind == "upd") {
            Bytes v = unhex(op[2].get<std::string>());
            what = strfmt("update option %u (%zu bytes)", num, v.size());
            bool exists = false;
            for (auto &o : m.opts) exists |= o.num == num;
            size_t r = coap_update_option(pdu, (coap_option_num_t)num, v.size(), v.data());
            if (r) { if (exists) m.update(num, v); else m.insert(num, v); } else w.count("probe.edit_refused");
          } else {
            what = strfmt("remove option %u", num);
            bool exists = false;
            for (auto &o : m.opts) exists |= o.num == num;
            int r = coap_remove_option(pdu, (coap_option_num_t)num);
            if (r && exists) m.remove(num);
            else if (r && !exists) { res.violate("R2.remove_reported_success", "remove_absent", what + " reported success although no such option exists"); }
            else if (!r && exists) w.count("probe.edit_refused");
          }
        }
        w.count("probe.edits_judged");
        applied++;
        size_t after_total = m.token.size() + m.payload.size();
        for (auto &o : m.opts) after_total += o.val.size() + 5;
        if (after_total > 256 && before_total <= 256) w.count("probe.buffer_growth");
        if (!check(what)) { ok = false; break; }
      }
      simk::K().hooks.fail_alloc = nullptr;
    }
    if (alloc_seen >= fail_at && fail_at > 0) w.count("fault.alloc_failed");
    // wire check
    bool sent = false;
    if (ok && pdu && m.token.size() <= 8) {
      World::AsNode as(0);
      size_t est = 4 + m.token.size() + m.payload.size() + 1;
      for (auto &o : m.opts) est += o.val.size() + 5;
      if (est < 1100) {
        coap_mid_t mid = coap_send(sess, pdu);
        pdu = nullptr;
        sent = mid != COAP_INVALID_MID;
      }
    }
    if (sent) {
      w.run_for_ms(5);
      simk::Datagram d;
      bool got = false;
      while (simk::raw_recv(peer, d)) {
        r1::Msg wm;
        std::string why;
        r1::Verdict v = r1::decode_udp(d.data, wm, &why);
        got = true;
        bool bad_len = false;   // the lab may legally build options whose length violates a registry limit: structure is judged
        if (v == r1::REJECT && why.find("outside") == std::string::npos) res.violate("R2.serialised_malformed", "malformed", "serialised message is malformed (" + why + "): " + hex(d.data));
        if (v == r1::REJECT) bad_len = true;
        if (!bad_len) {
          if (wm.token != m.token || !(wm.opts == m.opts) || wm.payload != m.payload)
            res.violate("R2.serialised_differs", wm.token != m.token ? "token" : !(wm.opts == m.opts) ? "options" : "payload", "wire carries " + wm.str() + " but the model says " + describe(m));
        }
        w.count("probe.wire_checked");
      }
      if (!got) w.count("probe.send_dropped");
    }
    res.nontrivial = applied >= 5 && (res.counters.count("probe.buffer_growth") || res.counters.count("probe.edit_refused"));
    {
      World::AsNode as(0);
      if (pdu) coap_delete_pdu(pdu);
      coap_session_release(sess);
      coap_free_context(ctx);
    }
    w.end();
  }
};

struct Reg { Reg() { register_property(new C04()); } } reg;

}  // namespace
