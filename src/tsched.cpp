#include "tsched.h"
#include <errno.h>
#include <map>
#include <pthread.h>
#include <vector>

extern "C" {
int __real_pthread_mutex_lock(pthread_mutex_t *m);
int __real_pthread_mutex_unlock(pthread_mutex_t *m);
int __real_pthread_mutex_trylock(pthread_mutex_t *m);
}

namespace tsched {

namespace {

enum St { NEW, RUNNABLE, BLOCKED_MUTEX, WAITING, DONE };
struct T {
  pthread_t th{};
  std::string name;
  St st = NEW;
  void *mutex = nullptr;
  std::function<bool()> ready;
  uint64_t deadline_ns = 0;
  std::function<void()> body;
  uint64_t lock_ops = 0;
  int held = 0;
};

pthread_mutex_t g_mu = PTHREAD_MUTEX_INITIALIZER;
pthread_cond_t g_cv = PTHREAD_COND_INITIALIZER;
bool g_active = false;
std::vector<T *> g_threads;
int g_current = -1;
bool g_stuck = false;
std::string g_why;
std::map<void *, int> g_owner;
Rng g_rng{1};
double g_preempt = 0.3;
std::function<uint64_t()> g_now, g_next_timer;
std::function<bool(uint64_t)> g_advance;
Stats g_stats;
thread_local int tl_id = -1;
thread_local bool tl_in_sched = false;     // this thread is inside the scheduler (world events / predicates run there must not re-enter it)

void lock() { __real_pthread_mutex_lock(&g_mu); tl_in_sched = true; }
void unlock() { tl_in_sched = false; __real_pthread_mutex_unlock(&g_mu); }

// called with g_mu held by the baton holder (or by run() at the start)
int pick_locked() {
  for (int guard = 0; guard < 1000000; guard++) {
    std::vector<int> cand;
    bool unfinished = false;
    uint64_t now = g_now();
    uint64_t limit = UINT64_MAX;
    for (size_t i = 0; i < g_threads.size(); i++) {
      T &t = *g_threads[i];
      if (t.st == DONE) continue;
      unfinished = true;
      if (t.st == RUNNABLE || t.st == NEW) cand.push_back((int)i);
      else if (t.st == BLOCKED_MUTEX) { if (!g_owner.count(t.mutex)) cand.push_back((int)i); }
      else if (t.st == WAITING) {
        if (now >= t.deadline_ns || (t.ready && t.ready())) cand.push_back((int)i);
        else limit = std::min(limit, t.deadline_ns);
      }
    }
    if (!unfinished) return -2;
    // a thread that waits for a mutex held (directly or through a chain of waiters) by itself can never continue, whatever
    // the other threads do: report the deadlock now instead of letting timed waiters spin simulated time for ever
    for (size_t i = 0; i < g_threads.size(); i++) {
      T &t = *g_threads[i];
      if (t.st != BLOCKED_MUTEX) continue;
      int o = g_owner.count(t.mutex) ? g_owner[t.mutex] : -1;
      for (int hops = 0; o >= 0 && hops <= (int)g_threads.size(); hops++) {
        if (o == (int)i) {
          g_why = t.name + " waits for a mutex that is held by " + (hops == 0 ? std::string("itself (locked twice by its owner)") : std::string("a chain of threads waiting for ") + t.name);
          return -1;
        }
        T &ot = *g_threads[(size_t)o];
        if (ot.st != BLOCKED_MUTEX) break;
        o = g_owner.count(ot.mutex) ? g_owner[ot.mutex] : -1;
      }
    }
    if (!cand.empty()) {
      int c = cand[g_rng.below(cand.size())];
      T &t = *g_threads[(size_t)c];
      if (t.st == BLOCKED_MUTEX) { g_owner[t.mutex] = c; t.held++; }
      t.st = RUNNABLE;
      g_stats.schedule_hash = mix3(g_stats.schedule_hash, (uint64_t)c, cand.size());
      return c;
    }
    // nobody can run: let simulated time pass (only timed waiters can be woken by it)
    if (limit == UINT64_MAX) {
      g_why = "no runnable thread and no timed wait pending:";
      for (auto *t : g_threads) if (t->st != DONE) g_why += " " + t->name + (t->st == BLOCKED_MUTEX ? "(blocked on a mutex held by " + (g_owner.count(t->mutex) ? g_threads[(size_t)g_owner[t->mutex]]->name : std::string("nobody")) + ")" : "(?)");
      return -1;
    }
    uint64_t tm = g_next_timer ? g_next_timer() : 0;
    if (tm && tm > now && tm < limit) limit = tm;
    g_stats.time_advances++;
    if (!g_advance(limit)) { g_why = "simulated time cannot advance"; return -1; }
  }
  g_why = "scheduler spin";
  return -1;
}

// hand the baton on; the caller's new state has been set. Returns when the caller holds the baton again.
void switch_locked(int me) {
  int next = pick_locked();
  if (next == -1) {
    g_stuck = true;
    g_current = -1;
    pthread_cond_broadcast(&g_cv);
    // this thread can never continue; park it (the process is about to exit)
    for (;;) pthread_cond_wait(&g_cv, &g_mu);
  }
  if (next == -2) { g_current = -1; pthread_cond_broadcast(&g_cv); return; }
  if (next != me) {
    g_stats.switches++;
    g_current = next;
    pthread_cond_broadcast(&g_cv);
    if (g_threads[(size_t)me]->st == DONE) return;
    while (g_current != me) pthread_cond_wait(&g_cv, &g_mu);
    tl_in_sched = true;
  }
}

void *trampoline(void *arg) {
  int id = (int)(intptr_t)arg;
  tl_id = id;
  lock();
  while (g_current != id) pthread_cond_wait(&g_cv, &g_mu);
  unlock();
  g_threads[(size_t)id]->body();
  lock();
  g_threads[(size_t)id]->st = DONE;
  switch_locked(id);
  unlock();
  return nullptr;
}

}  // namespace

void start(uint64_t seed, double preempt_prob, std::function<uint64_t()> now_ns, std::function<uint64_t()> next_timer_ns, std::function<bool(uint64_t)> advance) {
  g_rng = Rng(seed);
  g_preempt = preempt_prob;
  g_now = std::move(now_ns);
  g_next_timer = std::move(next_timer_ns);
  g_advance = std::move(advance);
  g_threads.clear();
  g_owner.clear();
  g_current = -1;
  g_stuck = false;
  g_why.clear();
  g_stats = Stats();
  g_active = true;
}

int spawn(const std::string &name, std::function<void()> body) {
  T *t = new T();
  t->name = name;
  t->body = std::move(body);
  int id = (int)g_threads.size();
  g_threads.push_back(t);
  pthread_attr_t at;
  pthread_attr_init(&at);
  pthread_attr_setstacksize(&at, 1 << 20);
  pthread_create(&t->th, &at, trampoline, (void *)(intptr_t)id);
  return id;
}

bool run(std::string *why) {
  lock();
  int first = pick_locked();
  if (first >= 0) {
    g_current = first;
    pthread_cond_broadcast(&g_cv);
    for (;;) {
      bool all = true;
      for (auto *t : g_threads) if (t->st != DONE) all = false;
      if (all || g_stuck) break;
      pthread_cond_wait(&g_cv, &g_mu);
    }
  }
  bool ok = !g_stuck && first != -1;
  if (!ok && why) *why = g_why;
  unlock();
  if (ok) for (auto *t : g_threads) pthread_join(t->th, nullptr);
  return ok;
}

void stop() {
  g_active = false;
  g_now = nullptr;
  g_next_timer = nullptr;
  g_advance = nullptr;
}

bool active() { return g_active; }
int self() { return g_active && !tl_in_sched ? tl_id : -1; }

void yield(const char *) {
  if (!g_active || tl_id < 0 || tl_in_sched) return;
  lock();
  g_stats.yields++;
  if (g_rng.chance(g_preempt)) switch_locked(tl_id);
  unlock();
}

void wait(std::function<bool()> ready, int64_t timeout_ms) {
  if (!g_active || tl_id < 0 || tl_in_sched) return;
  lock();
  T &t = *g_threads[(size_t)tl_id];
  t.st = WAITING;
  t.ready = std::move(ready);
  t.deadline_ns = timeout_ms < 0 ? g_now() + 3600ull * 1000000000ull : g_now() + (uint64_t)timeout_ms * 1000000ull;
  switch_locked(tl_id);
  t.ready = nullptr;
  unlock();
}

uint64_t lock_ops_of(int tid) { return tid >= 0 && tid < (int)g_threads.size() ? g_threads[(size_t)tid]->lock_ops : 0; }
int locks_held_by(int tid) { return tid >= 0 && tid < (int)g_threads.size() ? g_threads[(size_t)tid]->held : 0; }
int locks_held_total() { return (int)g_owner.size(); }
Stats stats() { return g_stats; }

// ---- the modelled mutex operations (called from the wrappers below)
static int m_lock(void *m) {
  lock();
  T &t = *g_threads[(size_t)tl_id];
  t.lock_ops++;
  g_stats.lock_ops++;
  if (g_rng.chance(g_preempt)) switch_locked(tl_id);
  auto it = g_owner.find(m);
  if (it == g_owner.end()) { g_owner[m] = tl_id; t.held++; unlock(); return 0; }
  g_stats.contended++;
  t.st = BLOCKED_MUTEX;        // also when we own it ourselves: a default mutex locked twice by its owner never returns
  t.mutex = m;
  switch_locked(tl_id);        // returns owning m
  unlock();
  return 0;
}
static int m_trylock(void *m) {
  lock();
  T &t = *g_threads[(size_t)tl_id];
  t.lock_ops++;
  g_stats.lock_ops++;
  if (g_rng.chance(g_preempt)) switch_locked(tl_id);
  int r = EBUSY;
  if (!g_owner.count(m)) { g_owner[m] = tl_id; t.held++; r = 0; }
  unlock();
  return r;
}
static int m_unlock(void *m) {
  lock();
  T &t = *g_threads[(size_t)tl_id];
  auto it = g_owner.find(m);
  if (it != g_owner.end() && it->second == tl_id) { g_owner.erase(it); t.held--; }
  else g_stats.unlock_not_owner++;
  if (g_rng.chance(g_preempt)) switch_locked(tl_id);
  unlock();
  return 0;
}

}  // namespace tsched

extern "C" {
int __wrap_pthread_mutex_lock(pthread_mutex_t *m) {
  if (!tsched::active() || tsched::self() < 0) return __real_pthread_mutex_lock(m);
  return tsched::m_lock(m);
}
int __wrap_pthread_mutex_trylock(pthread_mutex_t *m) {
  if (!tsched::active() || tsched::self() < 0) return __real_pthread_mutex_trylock(m);
  return tsched::m_trylock(m);
}
int __wrap_pthread_mutex_unlock(pthread_mutex_t *m) {
  if (!tsched::active() || tsched::self() < 0) return __real_pthread_mutex_unlock(m);
  return tsched::m_unlock(m);
}
}
