// C20 — /.well-known/core lists exactly the registered resources in any window / filter.
#include "runner.h"
#include "world.h"
#include "coapx.h"
#include "r11.h"

namespace {

struct C20World {
  World w;
  std::map<Bytes, std::string> bodies;    // token -> reassembled body
  std::map<Bytes, int> codes;
};
C20World *g = nullptr;

coap_response_t resp_cb(coap_session_t *, const coap_pdu_t *, const coap_pdu_t *rcv, const coap_mid_t) {
  size_t size = 0, offset = 0, total = 0;
  const uint8_t *data = nullptr;
  Bytes tok = cx::tok_of(rcv);
  g->codes[tok] = (int)coap_pdu_get_code(rcv);
  if (coap_get_data_large(rcv, &size, &data, &offset, &total) && offset == 0) g->bodies[tok] = std::string((const char *)data, size);
  else if (!g->bodies.count(tok)) g->bodies[tok] = "";
  return COAP_RESPONSE_OK;
}
void hnd(coap_resource_t *, coap_session_t *, const coap_pdu_t *, const coap_string_t *, coap_pdu_t *response) { coap_pdu_set_code(response, COAP_RESPONSE_CODE_CONTENT); }

struct C20 : Property {
  C20() {
    id = "C20";
    technique = "model-based generation executed inside deterministic simulation runs: generated resource tables and filters, exhaustive (offset, buffer length) window sweep of coap_print_wellknown per table, RFC 6690 reference listing/filter (R11), plus a block-wise GET of /.well-known/core over the simulated network with every Block2 size under seeded loss/duplication";
    rule_text = "plan = resource table (0..12 resources, paths of 1..3 segments, attributes rt/if/rel/title/ct/sz/foo with unquoted, quoted (spaces inside) and empty values, observable flag) x 3..8 filters (none, exact and '*'-prefix on href / rt / if / rel tokens / other attributes, non-matching) ; for each filter the full listing is compared with the reference as a multiset of links, ALL (offset, buffer length) pairs up to listing length + 2 are compared with the slice of the full listing (bytes, returned length, reported total length, truncation flag), and the listing is fetched by a real libcoap client with Block2 sizes 16..1024 under drop/dup faults. Each (table, filter) pair is one evaluation of the listing oracle (probes.listings_judged), each window one evaluation of the window oracle (probes.windows_judged). Non-trivial: the table has >= 2 resources and a filter selected a strict non-empty subset; distinct = distinct trace hash. Only the block-wise GET depends on the simulated network; the window sweep is exhaustive enumeration of a pure function hosted in the run.";
    real_components = {"libcoap: coap_resource.c (coap_print_wellknown, coap_print_link, match, attributes), coap_net.c (built-in /.well-known/core handler), coap_block.c (Block2 of the listing), client and server I/O"};
    stub_components = {"simk UDP", "R11 link-format reference"};
    assumptions = {"filters are restricted to what RFC 6690 4.1 specifies: one name=value argument, exact or '*'-suffix, on attributes that carry a value; corners the RFC leaves open (argument without '=', value-less attributes, repeated attribute names) are not generated",
                   "order of links and of attributes is not semantic: listings are compared as multisets"};
    quick_budget_s = 30;
    thorough_budget_s = 500;
  }

  json generate(uint64_t base, uint64_t index, bool) override {
    Rng r(mix3(base, 0xC20, index));
    json p;
    p["property"] = "C20";
    p["seed"] = base;
    p["index"] = index;
    p["sched_salt"] = r.next() & 0xffffffff;
    static const char *segs[] = {"a", "b", "s", "temp", "light", "sensors", "x1", "dev", "t", "core2"};
    static const char *rts[] = {"temp", "temperature", "light", "t", "te", "core.rd", "a b", "tem pe", "x"};
    json table = json::array();
    int n = (int)r.range(0, 12);
    std::set<std::string> used;
    std::vector<std::string> all_rt, all_paths;
    for (int i = 0; i < n; i++) {
      std::string path;
      int ns = (int)r.range(1, 3);
      for (int k = 0; k < ns; k++) { if (k) path += "/"; path += segs[r.below(10)]; }
      if (used.count(path)) continue;
      used.insert(path);
      all_paths.push_back(path);
      json attrs = json::array();
      std::set<std::string> an;
      int na = (int)r.range(0, 4);
      for (int k = 0; k < na; k++) {
        static const char *names[] = {"rt", "if", "rel", "title", "ct", "sz", "foo"};
        std::string name = names[r.below(7)];
        if (an.count(name)) continue;
        an.insert(name);
        std::string v;
        if (name == "rt" || name == "if" || name == "rel") { v = rts[r.below(9)]; all_rt.push_back(v); if (v.find(' ') != std::string::npos || r.chance(0.5)) v = "\"" + v + "\""; }
        else if (name == "title") v = r.chance(0.5) ? "\"Sensor Index\"" : "\"t\"";
        else if (name == "ct") v = std::to_string(r.below(60));
        else if (name == "sz") v = std::to_string(r.below(5000));
        else v = r.chance(0.3) ? "\"\"" : "bar";
        attrs.push_back({{"name", name}, {"value", v}});
      }
      table.push_back({{"path", path}, {"attrs", attrs}, {"obs", r.chance(0.3)}});
    }
    json filters = json::array();
    filters.push_back("");
    int nf = (int)r.range(2, 7);
    for (int i = 0; i < nf; i++) {
      double x = (r.next() >> 11) * (1.0 / 9007199254740992.0);
      std::string f;
      if (x < 0.3 && !all_paths.empty()) { std::string pth = all_paths[r.below(all_paths.size())]; f = "href=/" + (r.chance(0.5) ? pth : pth.substr(0, (size_t)r.range(1, (int64_t)pth.size())) + "*"); }
      else if (x < 0.7) {
        static const char *names[] = {"rt", "if", "rel"};
        std::string v = !all_rt.empty() && r.chance(0.7) ? all_rt[r.below(all_rt.size())] : "zz";
        size_t sp = v.find(' ');
        if (sp != std::string::npos) v = r.chance(0.5) ? v.substr(0, sp) : v.substr(sp + 1);
        if (r.chance(0.4) && !v.empty()) v = v.substr(0, (size_t)r.range(1, (int64_t)v.size())) + "*";
        f = std::string(names[r.below(3)]) + "=" + v;
      } else if (x < 0.8) f = r.chance(0.5) ? "title=t" : "title=Sensor Index";
      else if (x < 0.9) f = r.chance(0.5) ? "foo=bar" : "foo=ba*";
      else f = "ct=" + std::to_string(r.below(60));
      filters.push_back(f);
    }
    static const int gaps[] = {0, 20, 500, 3000, 120000};
    bool server_blk = r.chance(0.6);
    p["config"] = {{"szx", r.range(0, 6)}, {"server_blk", server_blk}, {"c_szx", (!server_blk || r.chance(0.3)) ? r.range(0, 6) : -1}, {"gap_ms", gaps[r.below(5)]}};   // pause between one GET's conclusion and the next GET (libcoap caches a served body for some seconds)
    p["table"] = table;
    p["ops"] = filters;
    json faults = json::array();
    for (int dir = 0; dir < 2; dir++)
      for (int k = 0; k < 30; k++)
        if (r.chance(0.05)) faults.push_back(r.chance(0.5) ? json{{"link", dir ? "1>0" : "0>1"}, {"idx", k}, {"act", "drop"}} : json{{"link", dir ? "1>0" : "0>1"}, {"idx", k}, {"act", "dup"}, {"n", 1}, {"delay_us", {r.range(0, 100000)}}});
    p["faults"] = faults;
    return p;
  }
  std::vector<std::string> shrink_keys() override { return {"faults", "ops", "table"}; }

  void execute(const json &plan, RunResult &res, bool verbose) override {
    C20World cw;
    g = &cw;
    World &w = cw.w;
    w.begin(plan.value("sched_salt", 1ull), &res, verbose, false);
    w.add_node(nullptr);   // 0 client
    w.add_node(nullptr);   // 1 server
    coap_context_t *cctx = cx::new_context(w, 0), *sctx = cx::new_context(w, 1);
    std::vector<r11::Res> table;
    {
      World::AsNode as(1);
      coap_context_set_block_mode(sctx, COAP_BLOCK_USE_LIBCOAP);
      for (auto &jr : plan["table"]) {
        r11::Res rr;
        rr.path = jr.value("path", "x");
        rr.observable = jr.value("obs", false);
        coap_str_const_t *name = coap_new_str_const((const uint8_t *)rr.path.data(), rr.path.size());
        coap_resource_t *rs = coap_resource_init(name, COAP_RESOURCE_FLAGS_RELEASE_URI);
        if (!rs) continue;
        coap_register_request_handler(rs, COAP_REQUEST_GET, hnd);
        if (rr.observable) coap_resource_set_get_observable(rs, 1);
        for (auto &ja : jr["attrs"]) {
          std::string n = ja.value("name", "rt"), v = ja.value("value", "");
          coap_add_attr(rs, coap_new_str_const((const uint8_t *)n.data(), n.size()), coap_new_str_const((const uint8_t *)v.data(), v.size()), COAP_ATTR_FLAGS_RELEASE_NAME | COAP_ATTR_FLAGS_RELEASE_VALUE);
          rr.attrs.push_back(r11::Attr{n, v, true});
        }
        coap_add_resource(sctx, rs);
        table.push_back(rr);
      }
    }
    cx::new_endpoint(w, 1, sctx, 5683, COAP_PROTO_UDP);
    {
      World::AsNode as(0);
      coap_context_set_block_mode(cctx, COAP_BLOCK_USE_LIBCOAP | COAP_BLOCK_SINGLE_BODY);
      coap_register_response_handler(cctx, resp_cb);
    }
    // The Block2 size of a download is chosen by the sender of the body (the server's maximum block size) or asked for by the
    // client with a Block2 option in its request (early negotiation); a client-side maximum block size has no influence on it.
    int szx = plan["config"].value("szx", 6), c_szx = plan["config"].value("c_szx", -1);
    {
      World::AsNode as(1);
      if (plan["config"].value("server_blk", true)) coap_context_set_max_block_size(sctx, (size_t)16 << szx);
    }

    coap_session_t *sess = cx::new_client(w, 0, cctx, World::node_addr(1, 5683), COAP_PROTO_UDP);
    for (auto &f : plan["faults"]) w.faults.push_back(f.get<Fault>());
    w.taps.push_back([&](const WireEv &e) {
      if (e.kind != WireEv::DELIVER || e.to != 0) return;
      r1::Msg m;
      if (r1::decode_udp(e.d->data, m) != r1::ACCEPT) return;
      const r1::Opt *b2 = m.find(r1::O_BLOCK2);
      if (b2 && (r1::decode_uint(b2->val) >> 4) > 0) w.count("probe.block2_followup_blocks");
    });
    bool nontrivial = false;
    size_t fi = 0;
    struct Fetch { Bytes tok; std::string full; std::string filt; };
    std::vector<Fetch> fetched;   // token -> expected full listing (library's own)
    for (auto &jf : plan["ops"]) {
      std::string filt = jf.get<std::string>();
      std::string ctx = strfmt("filter #%zu '%s' over %zu resources", fi, filt.c_str(), table.size());
      std::vector<r11::Res> want = r11::filter(table, filt);
      std::string want_text = r11::listing(want);
      // 1. full listing through the API
      std::vector<unsigned char> buf(want_text.size() * 2 + 4096);
      size_t len = buf.size();
      coap_string_t *q = nullptr;
      coap_print_status_t st;
      {
        World::AsNode as(1);
        if (!filt.empty()) q = coap_new_string(filt.size()), memcpy(q->s, filt.data(), filt.size());
        st = coap_print_wellknown(sctx, buf.data(), &len, 0, q);
      }
      std::string full((const char *)buf.data(), COAP_PRINT_OUTPUT_LENGTH(st));
      w.count("probe.listings_judged");
      w.tr.mixbytes(full.data(), full.size());
      bool listing_ok = true;
      if (st & COAP_PRINT_STATUS_ERROR) { res.violate("R11.print_error", "error", ctx + ": coap_print_wellknown reported an error"); listing_ok = false; }
      else {
        std::string why;
        if (!r11::equivalent(full, want_text, &why)) {
          listing_ok = false;
          std::string name = filt.substr(0, filt.find('='));
          res.violate("R11.listing_differs", filt.empty() ? "no_filter" : "filter_" + name + (filt.find('*') != std::string::npos ? "_prefix" : "_exact") + (filt.find(' ') != std::string::npos ? "_with_space" : ""),
                      ctx + ": libcoap lists '" + full.substr(0, 300) + "' but the registered resources amount to '" + want_text.substr(0, 300) + "' (" + why + ")");
        }
        if (len != full.size()) res.violate("R11.total_length", "full", ctx + strfmt(": reported total length %zu, listing has %zu bytes", len, full.size()));
        if (st & COAP_PRINT_STATUS_TRUNC) res.violate("R11.trunc_flag", "full", ctx + ": truncation flag set although the whole listing fitted");
      }
      if (table.size() >= 2 && !want.empty() && want.size() < table.size()) nontrivial = true;
      // 2. every window equals the slice of the library's own full listing
      if (listing_ok) {
        size_t L = full.size();
        bool reported = false;
        for (size_t off = 0; off <= L + 2 && !reported; off++)
          for (size_t bl = 0; bl <= L + 2 - std::min(off, L + 2) + 1 && bl <= L + 2 && !reported; bl++) {
            std::vector<unsigned char> wb(bl + 8, 0xAA);
            size_t l2 = bl;
            coap_print_status_t s2;
            {
              World::AsNode as(1);
              s2 = coap_print_wellknown(sctx, wb.data(), &l2, off, q);
            }
            w.count("probe.windows_judged");
            std::string exp = off < L ? full.substr(off, bl) : "";
            std::string got((const char *)wb.data(), std::min<size_t>(COAP_PRINT_OUTPUT_LENGTH(s2), bl + 8));
            std::string wctx = ctx + strfmt(" window offset=%zu buflen=%zu of %zu", off, bl, L);
            bool guard_ok = true;
            for (size_t k = bl; k < bl + 8; k++) guard_ok &= wb[k] == 0xAA;
            if (!guard_ok) { res.violate("R11.window_overrun", "overrun", wctx + ": bytes written behind the buffer"); reported = true; }
            else if (s2 & COAP_PRINT_STATUS_ERROR) { res.violate("R11.window_error", "error", wctx + ": error status"); reported = true; }
            else if (got != exp) { res.violate("R11.window_bytes", "bytes", wctx + ": wrote '" + got.substr(0, 80) + "' expected '" + exp.substr(0, 80) + "'"); reported = true; }
            else if (l2 != L) { res.violate("R11.window_total_length", "total", wctx + strfmt(": reported total length %zu", l2)); reported = true; }
            else if (bl > 0 && ((s2 & COAP_PRINT_STATUS_TRUNC) != 0) != (off + bl < L)) { res.violate("R11.window_trunc_flag", (s2 & COAP_PRINT_STATUS_TRUNC) ? "set" : "clear", wctx + ": truncation flag wrong"); reported = true; }
          }
      }
      // 3. block-wise GET over the network
      {
        World::AsNode as(0);
        coap_pdu_t *p = coap_new_pdu(COAP_MESSAGE_CON, COAP_REQUEST_CODE_GET, sess);
        if (p) {
          Bytes tok = {0xC2, 0x00, (uint8_t)fi, 0x5A};
          coap_add_token(p, tok.size(), tok.data());
          coap_add_option(p, COAP_OPTION_URI_PATH, 11, (const uint8_t *)".well-known");
          coap_add_option(p, COAP_OPTION_URI_PATH, 4, (const uint8_t *)"core");
          if (!filt.empty()) coap_add_option(p, COAP_OPTION_URI_QUERY, filt.size(), (const uint8_t *)filt.data());
          if (c_szx >= 0) { uint8_t b2 = (uint8_t)c_szx; coap_add_option(p, COAP_OPTION_BLOCK2, c_szx ? 1 : 0, &b2); }
          if (coap_send(sess, p) != COAP_INVALID_MID && listing_ok) fetched.push_back(Fetch{tok, full, filt});
        }
      }
      {
        // until this GET has concluded (at most 120 s), then the plan's pause: with a short pause the server still holds the
        // body it served for the previous query when the next query arrives on the same session
        Bytes tk = {0xC2, 0x00, (uint8_t)fi, 0x5A};
        uint64_t limit = w.now() + 120ull * 1000 * 1000000ull;
        while (!cw.codes.count(tk) && w.now() < limit && !w.aborted) w.run_for_ms(50);
        int gap = plan["config"].value("gap_ms", 120000);
        if (gap) w.run_for_ms((uint64_t)gap);
        if (gap < 8000) w.count("probe.next_get_within_cache_lifetime");
      }
      {
        World::AsNode as(1);
        if (q) coap_delete_string(q);
      }
      fi++;
    }
    w.run();
    for (auto &f : fetched) {
      if (!cw.codes.count(f.tok)) { w.count("probe.get_not_concluded"); continue; }
      // does the filter contain a byte that libcoap re-escapes when it rebuilds the query string for the handler?
      bool needs_escape = false;
      for (unsigned char c : f.filt) needs_escape |= !(isalnum(c) || strchr("-._~!$&'()*+,;=:@/?", c));
      std::string cls = needs_escape ? "filter_needs_percent_escape" : "plain_filter";
      if (cw.codes[f.tok] != 0x45) {
        // Under loss a block-wise GET may fail explicitly (e.g. 4.08 from the client's own re-assembly when a block request was
        // retransmitted for so long that the server had dropped the body it was serving); only a fault-free run must succeed.
        bool any_fault = false;
        for (auto &ft : w.faults) any_fault |= ft.fired;
        if (any_fault) { w.count("probe.get_failed_explicitly_under_faults"); continue; }
        if (!f.full.empty()) res.violate("R11.get_code", cls + "," + r1::code_str(cw.codes[f.tok]), strfmt("GET /.well-known/core?%s answered %s although the listing has %zu bytes", f.filt.c_str(), r1::code_str(cw.codes[f.tok]).c_str(), f.full.size()));
        continue;
      }
      std::string why;
      if (!r11::equivalent(cw.bodies[f.tok], f.full, &why) && cw.bodies[f.tok] != f.full)
        res.violate("R11.get_body_differs", cls, "block-wise GET ?" + f.filt + " reassembled to '" + cw.bodies[f.tok].substr(0, 200) + "' but coap_print_wellknown gives '" + f.full.substr(0, 200) + "'");
      w.count("probe.get_compared");
    }
    res.nontrivial = nontrivial;
    {
      World::AsNode as(0);
      coap_session_release(sess);
      coap_free_context(cctx);
    }
    {
      World::AsNode as(1);
      coap_free_context(sctx);
    }
    w.end();
    g = nullptr;
  }
};

struct Reg { Reg() { register_property(new C20()); } } reg;

}  // namespace
