// C14 — OSCORE protection round-trips, matches RFC 8613 (R9), and any tampering is rejected.
// World: libcoap OSCORE client (node 1) <-> libcoap OSCORE server (node 0) with generated security contexts and messages;
// every protected datagram on the wire is unprotected and re-protected by R9 (byte equality); an attacker rewrites chosen
// datagrams in flight (bit flips in ciphertext / OSCORE option, truncation, other context); drop/dup/delay faults.
#include "osc.h"

namespace {

struct PlanMsg {
  r1::Msg req;        // plaintext request as handed to coap_send (type, code, token, opts, payload)
  r1::Msg resp;       // plaintext response the server handler produces (code, opts, payload)
  bool observe = false;
  bool proxied = false;   // Proxy-Scheme / foreign Uri-Host: this server is asked to forward, it is not the OSCORE endpoint
};

struct C14World {
  World w;
  RunResult *res = nullptr;
  osc::Params prm;
  r9::Ctx cli, srv, wrong_secret, wrong_kid;
  std::vector<PlanMsg> msgs;
  std::map<int, std::vector<r1::Msg>> handler_saw;      // msg index -> requests the server handler received
  std::map<int, std::vector<r1::Msg>> client_saw;       // msg index -> responses the client handler received
  coap_resource_t *obs_res = nullptr;
  int obs_state = 0;
  // wire bookkeeping
  std::map<Bytes, std::vector<std::pair<Bytes, Bytes>>> req_by_token;   // token -> [(kid, piv)] seen from the client
  std::set<Bytes> seen;                                                  // datagrams already judged (retransmissions)
  std::map<Bytes, std::set<int>> unprotected_errors;                     // token -> codes of unprotected error responses the server sent
  std::map<std::pair<int, Bytes>, Bytes> nonce_use;                      // (sender node, nonce) -> ciphertext
  // tampering
  std::map<Bytes, int> probe_seen;       // responses for tokens of the token-length probe
  struct Tampered { std::string kind; Bytes token; };
  std::map<Bytes, Tampered> tampered;                                    // tampered datagram bytes -> how
  struct Arrival { uint64_t t = 0; std::string kind; Bytes token; bool genuine_too = false; };
  Arrival arr[2];
  int protected_exchanges = 0, tamper_applied = 0;
};
C14World *g = nullptr;

bool lib_added(uint32_t num) { return num == 252 /*Echo*/ || num == 292 /*Request-Tag*/ || num == 23 || num == 28 || num == 27 || num == 60; }

// every planned option must be there with its value, in order per number; extras only from the list libcoap may add
std::string compare_plain(const r1::Msg &want, const r1::Msg &got, bool response) {
  if (want.code != got.code) return strfmt("code %d.%02d instead of %d.%02d", got.code >> 5, got.code & 31, want.code >> 5, want.code & 31);
  if (want.payload != got.payload) return strfmt("payload differs (%zu bytes instead of %zu)", got.payload.size(), want.payload.size());
  std::map<uint32_t, std::vector<Bytes>> w, h;
  for (auto &o : want.opts) w[o.num].push_back(o.val);
  for (auto &o : got.opts) h[o.num].push_back(o.val);
  for (auto &kv : w) {
    if (kv.first == 6 && response) continue;   // Observe value of a notification is the server's business
    if (kv.first == 16 && h.count(16)) continue;   // Hop-Limit is decremented by the receiving libcoap (RFC 8768), class U anyway
    if (h[kv.first] != kv.second) return strfmt("option %u differs (%zu instance(s) instead of %zu, or other values)", kv.first, h[kv.first].size(), kv.second.size());
  }
  for (auto &kv : h)
    if (!w.count(kv.first) && !lib_added(kv.first) && !(kv.first == 6) && !(response && kv.first == 4)) return strfmt("unexpected option %u", kv.first);
  return "";
}

int index_of(const Bytes &tok) { return tok.size() == 3 && tok[0] == 0xC1 && tok[1] == 0x40 ? tok[2] : -1; }

int index_of(const Bytes &tok);
void note_handler(int node, const Bytes &tok, const char *who) {
  C14World::Arrival &a = g->arr[node];
  int pi = index_of(tok);
  if (pi >= 0 && pi < (int)g->msgs.size() && g->msgs[(size_t)pi].proxied) return;
  if (a.t == g->w.now() && a.token == tok && !a.genuine_too)
    g->res->violate("R9.tampered_message_reached_handler", a.kind, strfmt("%s ran for token %s in the instant a tampered datagram (%s) with that token was delivered and no genuine one", who, hex(tok).c_str(), a.kind.c_str()));
}

void hnd_any(coap_resource_t *, coap_session_t *, const coap_pdu_t *request, const coap_string_t *, coap_pdu_t *response) {
  Bytes tok = cx::tok_of(request);
  note_handler(0, tok, "the server's request handler");
  int i = index_of(tok);
  if (i < 0) {
    // libcoap's client re-sends under an internal token after an Echo challenge: the exchange is named by its i=<n> query
    r1::Msg rq = cx::msg_from_pdu(request);
    for (auto &o : rq.opts) if (o.num == 15 && o.val.size() >= 3 && o.val[0] == 'i' && o.val[1] == '=') i = atoi(std::string(o.val.begin() + 2, o.val.end()).c_str());
  }
  if (i < 0 || i >= (int)g->msgs.size()) { coap_pdu_set_code(response, COAP_RESPONSE_CODE_NOT_FOUND); return; }
  g->handler_saw[i].push_back(cx::msg_from_pdu(request));
  const r1::Msg &rp = g->msgs[(size_t)i].resp;
  coap_pdu_set_code(response, (coap_pdu_code_t)rp.code);
  std::vector<r1::Opt> o = rp.opts;
  std::stable_sort(o.begin(), o.end(), [](const r1::Opt &a, const r1::Opt &b) { return a.num < b.num; });
  for (auto &op : o) coap_add_option(response, (coap_option_num_t)op.num, op.val.size(), op.val.data());
  if (!rp.payload.empty()) coap_add_data(response, rp.payload.size(), rp.payload.data());
}

coap_response_t resp_cb(coap_session_t *, const coap_pdu_t *, const coap_pdu_t *rcv, const coap_mid_t) {
  Bytes tok = cx::tok_of(rcv);
  note_handler(1, tok, "the client's response handler");
  int i = index_of(tok);
  if (i >= 0) g->client_saw[i].push_back(cx::msg_from_pdu(rcv));
  else g->probe_seen[tok]++;
  return COAP_RESPONSE_OK;
}

Bytes gen_bytes(Rng &r, size_t n) { Bytes b(n); for (auto &x : b) x = (uint8_t)r.next(); return b; }

struct C14 : Property {
  C14() {
    id = "C14";
    technique = "deterministic simulation with fault injection: real libcoap OSCORE client and server on the simulated network with generated security contexts and messages; every protected datagram is unprotected and re-protected by an independent RFC 8613 implementation (R9, nettle) and must be byte-identical; an in-flight attacker rewrites chosen datagrams (bit flips in ciphertext / OSCORE option, truncation, extension, other master secret, unknown kid) next to drop/dup/delay faults";
    rule_text = "plan = security context (master secret, salt present/absent, sender/recipient ids 0-7 bytes, id context present/absent, Appendix B.1.2 on/off, start sequence number 0..2^40-2 incl. values at byte-length boundaries) x 1-5 exchanges (all 7 request methods, CON/NON, inner options Uri-Path/Uri-Query/Content-Format/Accept/If-Match/If-None-Match/ETag/Block2/unknown elective, outer options Uri-Host/Proxy-Scheme/Hop-Limit, Observe registration with notifications, No-Response, payload 0-1000 bytes; responses 2.01-2.05/4.xx/5.xx with Content-Format/ETag/Max-Age/Location-* and payload 0-1000 bytes) x 0-4 tamperings of chosen datagrams x drop/dup/delay faults. Non-trivial: at least one protected exchange reached the server handler and one tampering or fault fired; distinct = distinct trace hash.";
    real_components = {"libcoap coap_oscore.c, src/oscore/*.c (context derivation, COSE, CBOR, option split, AEAD via GnuTLS/nettle backend of the build), coap_net.c send/receive paths, Echo (B.1.2) retry, observe over OSCORE"};
    stub_components = {"simk clock/UDP", "R9 reference (RFC 8613) and R1 codec as oracles", "the attacker"};
    assumptions = {"AES-CCM-16-64-128 / HKDF-SHA-256 only (libcoap default; R9 implements only these)",
                   "modifications of unprotected parts (header, token, class U options, outer code) are not expected to be rejected and are not generated",
                   "unprotected 4.xx/5.xx error responses from the server are permitted (RFC 8613 8.2/8.3) as long as they carry nothing of the application's response"};
    quick_budget_s = 35;
    thorough_budget_s = 600;
  }

  std::string selftest() override { return r9::selftest(); }   // RFC 8613 Appendix C vectors before anything is judged by R9

  json msg_json(const r1::Msg &m) {
    json o = json::array();
    for (auto &op : m.opts) o.push_back({{"n", op.num}, {"v", hex(op.val)}});
    return {{"type", m.type}, {"code", m.code}, {"opts", o}, {"payload", hex(m.payload)}};
  }
  static r1::Msg msg_from(const json &j) {
    r1::Msg m;
    m.type = j.value("type", 0);
    m.code = j.value("code", 1);
    if (j.contains("opts")) for (auto &o : j["opts"]) m.opts.push_back({o.value("n", 11u), unhex(o.value("v", std::string()))});
    m.payload = unhex(j.value("payload", std::string()));
    return m;
  }

  json generate(uint64_t base, uint64_t index, bool) override {
    Rng r(mix3(base, 0xC14, index));
    json p;
    p["property"] = "C14";
    p["seed"] = base;
    p["index"] = index;
    p["sched_salt"] = r.next() & 0xffffffff;
    osc::Params prm = osc::gen_params(r);
    json pj;
    osc::to_json(pj, prm);
    p["ctx"] = pj;
    static const uint64_t edges[] = {0, 1, 254, 255, 256, 65534, 65535, 65536, 16777215, 16777216, 4294967295ull, 4294967296ull, (1ull << 40) - 40, (1ull << 40) - 8};
    p["client_seq"] = r.chance(0.5) ? edges[r.below(14)] : r.chance(0.5) ? r.below(1000) : r.below((1ull << 40) - 50);
    p["server_seq"] = r.chance(0.5) ? edges[r.below(14)] : r.below((1ull << 40) - 50);
    int n = (int)r.range(1, 5);
    json msgs = json::array();
    static const char *const segs[] = {"a", "bb", "sensor", "x1", "temperature-long-segment"};
    for (int i = 0; i < n; i++) {
      r1::Msg q, a;
      bool observe = r.chance(0.15);
      q.type = r.chance(0.75) ? 0 : 1;
      q.code = observe ? 1 : (int)r.range(1, 7);
      if (observe) { q.opts.push_back({6, {}}); q.opts.push_back({11, Bytes{'o', 'b', 's'}}); }
      else {
        int ns = (int)r.range(0, 3);
        for (int k = 0; k < ns; k++) { std::string s = segs[r.below(5)]; q.opts.push_back({11, Bytes(s.begin(), s.end())}); }
        if (ns == 0) q.opts.push_back({11, Bytes{'r'}});
      }
      int nq = r.chance(0.4) ? (int)r.range(1, 2) : 0;
      for (int k = 0; k < nq; k++) { std::string s = strfmt("k%d=%llu", k, (unsigned long long)r.below(1000)); q.opts.push_back({15, Bytes(s.begin(), s.end())}); }
      bool body = !observe && (q.code == 2 || q.code == 3 || q.code == 5 || q.code == 6 || q.code == 7) && r.chance(0.85);
      if (body) { q.payload = gen_bytes(r, r.chance(0.3) ? (size_t)r.range(1, 16) : (size_t)r.range(1, 1000)); if (r.chance(0.7)) q.opts.push_back({12, r1::encode_uint((uint32_t)r.below(100))}); }
      if (r.chance(0.25)) q.opts.push_back({17, r1::encode_uint((uint32_t)r.below(100))});
      if (r.chance(0.12) && !observe) q.opts.push_back({1, gen_bytes(r, (size_t)r.range(0, 8))});
      if (r.chance(0.08) && !observe) q.opts.push_back({5, {}});
      if (r.chance(0.12) && !observe) q.opts.push_back({4, gen_bytes(r, (size_t)r.range(1, 8))});
      if (r.chance(0.12) && q.code == 1 && !observe) q.opts.push_back({23, Bytes{6}});     // Block2 0/0/1024
      if (r.chance(0.12)) q.opts.push_back({2052, gen_bytes(r, (size_t)r.range(0, 6))});    // unknown elective option
      if (r.chance(0.12)) { std::string h = r.chance(0.5) ? "me.example" : "other.example"; q.opts.push_back({3, Bytes(h.begin(), h.end())}); }
      if (r.chance(0.06)) q.opts.push_back({39, Bytes{'c', 'o', 'a', 'p'}});
      if (r.chance(0.06)) q.opts.push_back({16, Bytes{(uint8_t)r.range(2, 200)}});
      if (r.chance(0.05)) q.opts.push_back({258, Bytes{(uint8_t)(r.chance(0.5) ? 2 : 24)}});
      static const int codes[] = {65, 66, 68, 69, 69, 69, 128, 132, 133, 160};
      a.code = observe ? 69 : codes[r.below(10)];
      if (a.code == 66) a.code = q.code == 4 ? 66 : 69;
      if (r.chance(0.8) && a.code != 66) a.payload = gen_bytes(r, r.chance(0.3) ? (size_t)r.range(1, 16) : (size_t)r.range(1, 1000));
      if (!a.payload.empty() && r.chance(0.7)) a.opts.push_back({12, r1::encode_uint((uint32_t)r.below(100))});
      if (r.chance(0.3) && (a.code >> 5) == 2 && !observe) a.opts.push_back({4, gen_bytes(r, (size_t)r.range(1, 8))});
      if (r.chance(0.3)) a.opts.push_back({14, r1::encode_uint((uint32_t)r.below(100000))});
      if (a.code == 65) { a.opts.push_back({8, Bytes{'n', 'e', 'w'}}); if (r.chance(0.5)) a.opts.push_back({20, Bytes{'v', '=', '1'}}); }
      msgs.push_back({{"req", msg_json(q)}, {"resp", msg_json(a)}, {"observe", observe}, {"notify", observe ? (int)r.range(0, 3) : 0}});
    }
    p["msgs"] = msgs;
    json tam = json::array();
    int nt = r.chance(0.25) ? 0 : (int)r.range(1, 4);
    static const char *const kinds[] = {"flip_payload", "flip_payload", "flip_payload", "flip_option", "flip_option", "truncate", "extend", "other_secret", "other_kid", "empty_payload"};
    for (int i = 0; i < nt; i++)
      tam.push_back({{"link", r.chance(0.6) ? "1>0" : "0>1"}, {"idx", r.below(8)}, {"kind", kinds[r.below(10)]}, {"pos", r.below(100000)}, {"bit", r.below(8)}});
    p["tamper"] = tam;
    json faults = json::array();
    if (r.chance(0.5))
      for (int dir = 0; dir < 2; dir++)
        for (int k = 0; k < 12; k++) {
          if (!r.chance(0.08)) continue;
          std::string link = dir ? "0>1" : "1>0";
          double x = (r.next() >> 11) * (1.0 / 9007199254740992.0);
          if (x < 0.4) faults.push_back({{"link", link}, {"idx", k}, {"act", "drop"}});
          else if (x < 0.8) faults.push_back({{"link", link}, {"idx", k}, {"act", "dup"}, {"n", 1}, {"delay_us", {r.range(0, 3000000)}}});
          else faults.push_back({{"link", link}, {"idx", k}, {"act", "delay"}, {"delay_us", {r.range(0, 3000000)}}});
        }
    p["faults"] = faults;
    return p;
  }

  // judge one original datagram on the wire (tap, SEND)
  void judge_wire(C14World &cw, const WireEv &e) {
    RunResult &res = *cw.res;
    bool from_client = e.from == 1;
    r1::Msg outer;
    if (r1::decode_udp(e.d->data, outer) != r1::ACCEPT) { res.violate("R9.wire_malformed", from_client ? "client" : "server", "datagram on the wire is not a well-formed CoAP message: " + hex(e.d->data)); return; }
    if (outer.code == 0) return;
    if (!cw.seen.insert(e.d->data).second) return;
    const r1::Opt *oo = outer.find(osc::O_OSCORE);
    if (!oo) {
      bool err = (outer.code >> 5) >= 4;
      bool carries_app = false;
      for (auto &m : cw.msgs) if (!m.resp.payload.empty() && m.resp.payload == outer.payload) carries_app = true;
      int pi = index_of(outer.token);
      if (pi >= 0 && pi < (int)cw.msgs.size() && cw.msgs[(size_t)pi].proxied) return;     // answered by the forwarding logic
      if (!from_client && err) cw.unprotected_errors[outer.token].insert(outer.code);
      if (from_client || !err || carries_app)
        res.violate("R9.cleartext_on_wire", from_client ? "request" : (err ? "error_with_application_payload" : "response"), "unprotected message on an OSCORE association: " + outer.str());
      return;
    }
    bool is_req = outer.code < 32;
    if (is_req != from_client) { res.violate("R9.wire_differs", "direction", "request/response direction confused: " + outer.str()); return; }
    r1::Msg plain, again;
    Bytes kid, piv, kctx;
    std::string why;
    if (is_req) {
      if (!r9::unprotect(cw.srv, outer, true, {}, {}, plain, &kid, &piv, &kctx, &why)) { res.violate("R9.wire_not_unprotectable", "request", "R9 cannot unprotect the client's request (" + why + "): " + hex(e.d->data)); return; }
      cw.req_by_token[outer.token].push_back({kid, piv});
      bool inc_ctx = false;
      { Bytes p2, kc2, k2; bool hkc = false, hk = false; r9::parse_option_value(oo->val, p2, hkc, kc2, hk, k2); inc_ctx = hkc; }
      if (!r9::protect(cw.cli, plain, true, osc::piv_value(piv), inc_ctx, false, {}, {}, again, &why)) { res.violate("R9.wire_differs", "request_reprotect", "R9 cannot protect what it unprotected (" + why + ")"); return; }
      if (piv != r9::piv_bytes(osc::piv_value(piv))) res.violate("R9.wire_differs", "piv_not_minimal", "Partial IV " + hex(piv) + " is not in minimal-length encoding");
    } else {
      bool ok = false;
      std::pair<Bytes, Bytes> rq;
      auto it = cw.req_by_token.find(outer.token);
      if (it != cw.req_by_token.end())
        for (auto rit = it->second.rbegin(); rit != it->second.rend() && !ok; ++rit)
          if (r9::unprotect(cw.cli, outer, false, rit->first, rit->second, plain, &kid, &piv, &kctx, &why)) { ok = true; rq = *rit; }
      if (!ok) { res.violate("R9.wire_not_unprotectable", "response", "R9 cannot unprotect the server's response with any request seen for its token (" + why + "): " + hex(e.d->data)); return; }
      // R9 sets the plain Observe value from the Partial IV; for re-protection the outer value on the wire is what counts
      if (const r1::Opt *wo = outer.find(6)) for (auto &po : plain.opts) if (po.num == 6) po.val = wo->val;
      if (!r9::protect(cw.srv, plain, false, osc::piv_value(piv), false, !piv.empty(), rq.first, rq.second, again, &why)) { res.violate("R9.wire_differs", "response_reprotect", "R9 cannot protect what it unprotected (" + why + ")"); return; }
      if (!piv.empty() && piv != r9::piv_bytes(osc::piv_value(piv))) res.violate("R9.wire_differs", "piv_not_minimal", "Partial IV " + hex(piv) + " is not in minimal-length encoding");
    }
    Bytes enc = r1::encode_udp(again);
    if (enc != e.d->data) {
      std::string what = again.code != outer.code ? "outer_code" : again.payload.size() != outer.payload.size() ? "ciphertext_length" : again.payload != outer.payload ? "ciphertext" : again.opts != outer.opts ? "outer_options" : "encoding";
      res.violate("R9.wire_differs", (is_req ? "request," : "response,") + what, strfmt("libcoap sent %s; R9 produces %s from the same plaintext (%s), Partial IV %s", hex(e.d->data).c_str(), hex(enc).c_str(), plain.str().c_str(), hex(piv).c_str()));
    }
    // nonce use: (id of the endpoint that generated the PIV, PIV) must never protect two different ciphertexts
    Bytes nid = is_req ? cw.cli.sender_id : (piv.empty() ? cw.cli.sender_id : cw.srv.sender_id);
    Bytes npiv = is_req || !piv.empty() ? piv : Bytes();
    if (!is_req && piv.empty()) { auto it = cw.req_by_token.find(outer.token); if (it != cw.req_by_token.end() && !it->second.empty()) npiv = it->second.back().second; }
    Bytes nk = nid;
    nk.push_back(0xff);
    nk.insert(nk.end(), npiv.begin(), npiv.end());
    int owner = is_req ? 1 : (piv.empty() ? 2 : 0);     // request nonce re-used by the first response: its own slot
    auto ins = cw.nonce_use.insert({{owner, nk}, outer.payload});
    if (!ins.second && ins.first->second != outer.payload)
      res.violate("R9.nonce_reuse", is_req ? "request" : (piv.empty() ? "response_with_request_nonce" : "response_own_piv"), strfmt("two different ciphertexts were produced under the same AEAD nonce (id %s, Partial IV %s)", hex(nid).c_str(), hex(npiv).c_str()));
    cw.protected_exchanges += is_req ? 0 : 1;
  }

  void execute(const json &plan, RunResult &res, bool verbose) override {
    C14World cw;
    g = &cw;
    cw.res = &res;
    World &w = cw.w;
    w.begin(plan.value("sched_salt", 1ull), &res, verbose, false);
    w.max_sim_ns = 4000ull * 1000000000ull;
    osc::from_json(plan["ctx"], cw.prm);
    cw.cli = osc::r9_ctx(cw.prm, true);
    cw.srv = osc::r9_ctx(cw.prm, false);
    {
      osc::Params wp = cw.prm;
      wp.secret[0] ^= 0x80;
      cw.wrong_secret = osc::r9_ctx(wp, true);
      osc::Params wk = cw.prm;
      if (wk.cid.size() < 7) wk.cid.push_back(0x77); else wk.cid[0] ^= 0x40;
      if (wk.cid == wk.sid) wk.cid[0] ^= 0x01;
      cw.wrong_kid = osc::r9_ctx(wk, true);
    }
    for (auto &jm : plan["msgs"]) {
      PlanMsg m;
      m.req = msg_from(jm["req"]);
      m.resp = msg_from(jm["resp"]);
      m.observe = jm.value("observe", false);
      m.req.token = {0xC1, 0x40, (uint8_t)cw.msgs.size()};
      { std::string iq = "i=" + std::to_string(cw.msgs.size()); m.req.opts.push_back({15, Bytes(iq.begin(), iq.end())}); }
      if (m.req.find(39)) m.proxied = true;
      if (const r1::Opt *uh = m.req.find(3)) if (std::string(uh->val.begin(), uh->val.end()) != "me.example") m.proxied = true;
      cw.msgs.push_back(m);
      if (cw.msgs.size() >= 8) break;
    }
    w.add_node(nullptr);
    w.add_node(nullptr);
    coap_context_t *sctx = cx::new_context(w, 0);
    bool setup_ok = true;
    {
      World::AsNode as(0);
      coap_context_set_block_mode(sctx, COAP_BLOCK_USE_LIBCOAP);
      std::string ct = osc::conf_text(cw.prm, false);
      coap_str_const_t cs = {ct.size(), (const uint8_t *)ct.data()};
      coap_oscore_conf_t *oc = coap_new_oscore_conf(cs, nullptr, nullptr, plan.value("server_seq", (uint64_t)0));
      if (!oc || !coap_context_oscore_server(sctx, oc)) setup_ok = false;
      coap_resource_t *ru = coap_resource_unknown_init2(hnd_any, 0);
      for (int mth = 1; mth <= 7; mth++) coap_register_request_handler(ru, (coap_request_t)mth, hnd_any);
      coap_add_resource(sctx, ru);
      coap_resource_t *ro = coap_resource_init(coap_make_str_const("obs"), COAP_RESOURCE_FLAGS_NOTIFY_NON);
      coap_register_request_handler(ro, COAP_REQUEST_GET, hnd_any);
      coap_resource_set_get_observable(ro, 1);
      coap_add_resource(sctx, ro);
      cw.obs_res = ro;
      const char *hosts[] = {"me.example"};
      coap_resource_t *rp = coap_resource_proxy_uri_init2(hnd_any, 1, hosts, 0);
      if (rp) coap_add_resource(sctx, rp);
    }
    cx::new_endpoint(w, 0, sctx, 5683, COAP_PROTO_UDP);
    coap_context_t *cctx = cx::new_context(w, 1);
    coap_session_t *sess = nullptr;
    {
      World::AsNode as(1);
      coap_context_set_block_mode(cctx, COAP_BLOCK_USE_LIBCOAP);
      coap_register_response_handler(cctx, resp_cb);
      std::string ct = osc::conf_text(cw.prm, true);
      coap_str_const_t cs = {ct.size(), (const uint8_t *)ct.data()};
      coap_oscore_conf_t *oc = coap_new_oscore_conf(cs, nullptr, nullptr, plan.value("client_seq", (uint64_t)0));
      coap_address_t a;
      World::to_coap_addr(World::node_addr(0, 5683), &a);
      if (oc) sess = coap_new_client_session_oscore(cctx, nullptr, &a, COAP_PROTO_UDP, oc);
      if (!sess) setup_ok = false;
    }
    if (!setup_ok) w.count("probe.setup_refused");
    for (auto &f : plan["faults"]) w.faults.push_back(f.get<Fault>());
    // the attacker
    struct Tam { int from, to, idx; std::string kind; uint64_t pos; int bit; };
    std::vector<Tam> tams;
    for (auto &t : plan["tamper"]) {
      std::string l = t.value("link", std::string("1>0"));
      tams.push_back(Tam{l == "1>0" ? 1 : 0, l == "1>0" ? 0 : 1, t.value("idx", 0), t.value("kind", std::string("flip_payload")), t.value("pos", (uint64_t)0), t.value("bit", 0) & 7});
    }
    w.rewrite = [&](simk::Datagram &d, int from, int to, int idx) -> bool {
      for (auto &t : tams) {
        if (t.from != from || t.to != to || t.idx != idx) continue;
        r1::Msg m;
        if (r1::decode_udp(d.data, m) != r1::ACCEPT || m.code == 0) return false;
        r1::Opt *oo = nullptr;
        for (auto &o : m.opts) if (o.num == osc::O_OSCORE) oo = &o;
        if (!oo || m.payload.empty()) return false;
        std::string kind = t.kind;
        if (kind == "flip_option" && oo->val.empty()) kind = "flip_payload";
        if (kind == "flip_payload") m.payload[t.pos % m.payload.size()] ^= (uint8_t)(1u << t.bit);
        else if (kind == "flip_option") {
          Bytes before = oo->val;
          oo->val[t.pos % oo->val.size()] ^= (uint8_t)(1u << t.bit);
          // what did the flip change? In a response neither kid nor kid context enters the AAD or the nonce.
          Bytes p1, kc1, k1, p2, kc2, k2;
          bool hkc1 = false, hk1 = false, hkc2 = false, hk2 = false;
          bool ok1 = r9::parse_option_value(before, p1, hkc1, kc1, hk1, k1), ok2 = r9::parse_option_value(oo->val, p2, hkc2, kc2, hk2, k2);
          if (from == 0 && ok1 && ok2 && p1 == p2) kind = "flip_option:response_kid_fields_only";
        }
        else if (kind == "truncate") m.payload.resize(1 + t.pos % std::max<size_t>(1, m.payload.size() - 1));
        else if (kind == "empty_payload") m.payload.clear();
        else if (kind == "extend") m.payload.push_back((uint8_t)t.pos);
        else if (kind == "other_secret" || kind == "other_kid") {
          if (from != 1) { m.payload[t.pos % m.payload.size()] ^= (uint8_t)(1u << t.bit); kind = "flip_payload"; }
          else {
            r1::Msg plain, out;
            Bytes kid, piv, kc;
            if (!r9::unprotect(cw.srv, m, true, {}, {}, plain, &kid, &piv, &kc)) return false;
            if (!r9::protect(kind == "other_secret" ? cw.wrong_secret : cw.wrong_kid, plain, true, osc::piv_value(piv), !kc.empty(), false, {}, {}, out)) return false;
            m = out;
          }
        }
        Bytes nb = r1::encode_udp(m);
        if (nb == d.data) return false;
        d.data = nb;
        cw.tampered[nb] = C14World::Tampered{kind, m.token};
        cw.tamper_applied++;
        w.count("fault.tamper." + kind);
        return true;
      }
      return false;
    };
    w.taps.push_back([&](const WireEv &e) {
      if (e.kind == WireEv::SEND && (e.from == 0 || e.from == 1)) judge_wire(cw, e);
      if (e.kind == WireEv::DELIVER && (e.to == 0 || e.to == 1)) {
        C14World::Arrival &a = cw.arr[e.to];
        auto it = cw.tampered.find(e.d->data);
        r1::Msg m;
        bool dec = r1::decode_udp(e.d->data, m) == r1::ACCEPT;
        if (it != cw.tampered.end()) {
          if (a.t != e.t_ns || a.token != it->second.token) { a = C14World::Arrival(); a.t = e.t_ns; a.token = it->second.token; }
          a.kind = it->second.kind;
        } else if (dec && a.t == e.t_ns && a.token == m.token && m.code != 0) a.genuine_too = true;
        else if (dec && m.code != 0 && a.t != e.t_ns) { a = C14World::Arrival(); }
      }
    });
    // workload: one exchange every 150 s (longer than any retransmission span)
    if (setup_ok) {
      for (size_t i = 0; i < cw.msgs.size(); i++) {
        w.at_ns(w.now() + (uint64_t)(1 + i * 150) * 1000000000ull, [&, i]() {
          World::AsNode as(1);
          coap_pdu_t *p = cx::pdu_from_msg(sess, cw.msgs[i].req, false);
          if (!p) { w.count("probe.request_refused_by_api"); return; }
          coap_send(sess, p);
        }, -1);
        int nn = plan["msgs"][i].value("notify", 0);
        for (int k = 0; k < nn; k++)
          w.at_ns(w.now() + (uint64_t)(1 + i * 150 + 20 + k * 15) * 1000000000ull, [&]() {
            World::AsNode as(0);
            coap_resource_notify_observers(cw.obs_res, nullptr);
          }, -1);
      }
    }
    w.run();
    if (w.aborted) res.violate("M-live.abort", w.abort_why, "run did not quiesce: " + w.abort_why);
    // token-length probe: the plaintext is token-less inside OSCORE, the outer message keeps the token - a request must be
    // protected and come back whatever the length of its token (0, 1, 8), with and without an outer-only option
    bool seq_room = plan.value("client_seq", (uint64_t)0) < (1ull << 39) && plan.value("server_seq", (uint64_t)0) < (1ull << 39);
    if (!w.aborted && setup_ok && sess && seq_room && plan.value("token_probe", true)) {
      // faults and tampering have stopped: what follows is judged as "once faults stop"
      for (auto &f : w.faults) if (!f.fired) f.idx = -1;
      w.rewrite = nullptr;
      // differential: a control request with a 3-byte token first; only when that one is protected, sent and answered (the
      // association is healthy: sequence numbers not exhausted, contexts matching) are the other token lengths judged
      auto probe = [&](const Bytes &tok, bool with_host, coap_mid_t &mid) {
        mid = COAP_INVALID_MID;
        {
          World::AsNode as(1);
          coap_pdu_t *p = coap_new_pdu(COAP_MESSAGE_CON, COAP_REQUEST_CODE_GET, sess);
          if (p) {
            coap_add_token(p, tok.size(), tok.data());
            if (with_host) coap_add_option(p, COAP_OPTION_URI_HOST, 10, (const uint8_t *)"me.example");
            coap_add_option(p, COAP_OPTION_URI_PATH, 5, (const uint8_t *)"probe");
            mid = coap_send(sess, p);
          }
        }
        int before = cw.probe_seen[tok];
        w.run_for_ms(300 * 1000);
        return mid != COAP_INVALID_MID && cw.probe_seen[tok] > before;
      };
      static const size_t lens[] = {0, 1, 8};
      for (int v = 0; v < 3 && !w.aborted; v++) {
        bool with_host = ((plan.value("sched_salt", 1ull) >> v) & 1) != 0;
        coap_mid_t mid;
        if (!probe(Bytes{0xD0, 0x0C, (uint8_t)v}, with_host, mid)) { w.count("probe.token_probe_skipped_unhealthy_association"); break; }
        Bytes tok(lens[v], (uint8_t)(0xD7 - v));
        bool ok = probe(tok, with_host, mid);
        w.count("probe.token_length_probe");
        if (!ok && !w.aborted)
          res.violate("R9.round_trip_failed", strfmt("token_length_%zu,%s", lens[v], mid == COAP_INVALID_MID ? "send_refused" : "no_response"),
                      strfmt("a Confirmable GET with a %zu-byte token%s %s although the same request with a 3-byte token had just been answered", lens[v], with_host ? " and Uri-Host" : "", mid == COAP_INVALID_MID ? "could not be protected and sent (coap_send failed)" : "got no response within 300 s"));
      }
    }
    // application-level round trip
    int reached = 0;
    for (size_t i = 0; i < cw.msgs.size(); i++) {
      if (cw.msgs[i].proxied) { if (!cw.handler_saw[(int)i].empty()) w.count("probe.forward_request_seen_by_proxy_handler"); continue; }
      for (auto &got : cw.handler_saw[(int)i]) {
        reached++;
        std::string d = compare_plain(cw.msgs[i].req, got, false);
        if (!d.empty()) res.violate("R9.request_altered", "at_server_handler", strfmt("exchange %zu: the server handler received %s, the client sent %s: %s", i, got.str().c_str(), cw.msgs[i].req.str().c_str(), d.c_str()));
      }
      for (auto &got : cw.client_saw[(int)i]) {
        // OSCORE-layer error (RFC 8613 8.2: sent unprotected); the wire token may be libcoap's internal one after an Echo retry
        bool lib_err = false;
        for (auto &ue : cw.unprotected_errors) if (ue.second.count(got.code)) lib_err = true;
        if (lib_err && got.payload != cw.msgs[i].resp.payload) continue;
        if (got.code == 129 && cw.msgs[i].resp.code != 129) continue;      // 4.01 from OSCORE processing itself (replay, context)
        if (cw.msgs[i].req.find(16) && got.code == 168) continue;          // 5.08 Hop Limit Reached by the proxy logic
        if ((got.code >> 5) == 5 && cw.handler_saw[(int)i].empty()) continue;   // refused before the handler (proxy not available etc.)
        if ((got.code >> 5) == 4 && cw.handler_saw[(int)i].empty()) continue;
        std::string d = compare_plain(cw.msgs[i].resp, got, true);
        if (!d.empty()) res.violate("R9.response_altered", "at_client_handler", strfmt("exchange %zu: the client handler received %s, the server handler produced %s: %s", i, got.str().c_str(), cw.msgs[i].resp.str().c_str(), d.c_str()));
      }
    }
    if (reached) w.count("probe.requests_reached_handler", (uint64_t)reached);
    bool fault_fired = cw.tamper_applied > 0;
    for (auto &f : w.faults) if (f.fired) fault_fired = true;
    res.nontrivial = reached > 0 && fault_fired;
    {
      World::AsNode as(1);
      if (sess) coap_session_release(sess);
      coap_free_context(cctx);
    }
    {
      World::AsNode as(0);
      coap_free_context(sctx);
    }
    w.end();
    g = nullptr;
  }
};

struct Reg { Reg() { register_property(new C14()); } } reg;

}  // namespace
