#include "runner.h"
#include "simk.h"
#include <cstring>
#include <cstdlib>
#include <csignal>
#include <cerrno>
#include <fstream>
#include <sstream>
#include <regex>
#include <set>
#include <unordered_set>
#include <algorithm>
#include <unistd.h>
#include <fcntl.h>
#include <poll.h>
#include <sys/wait.h>
#include <sys/stat.h>

extern "C" void __real_exit(int) __attribute__((noreturn));

// sanitizer defaults: classify hits by exit code, no leak sweep at exit (leaks are judged by the allocator ledger)
extern "C" __attribute__((used)) const char *__asan_default_options() {
  return "exitcode=77:detect_leaks=0:abort_on_error=0:allocator_may_return_null=1:handle_abort=1:detect_stack_use_after_return=0";
}
extern "C" __attribute__((used)) const char *__ubsan_default_options() { return "print_stacktrace=1:exitcode=77"; }

static std::vector<Property *> &props() {
  static std::vector<Property *> v;
  return v;
}
void register_property(Property *p) { props().push_back(p); }
Property *find_property(const std::string &id) {
  for (auto *p : props()) if (p->id == id) return p;
  return nullptr;
}

static const char *VERIF_DIR = "/verif";
static double real_s() { return simk::real_ns() / 1e9; }

// ------------------------------------------------------------------ known findings
struct Known {
  std::string property, rule, sig_re, what;
  bool hit = false;
};
static std::vector<Known> load_known(const std::string &prop) {
  std::vector<Known> out;
  std::ifstream f(std::string(VERIF_DIR) + "/known_findings.txt");
  std::string line;
  while (std::getline(f, line)) {
    if (line.rfind("open:", 0) != 0) continue;
    Known k;
    auto field = [&](const char *name) -> std::string {
      std::string key = std::string(" ") + name + "=";
      size_t p = line.find(key);
      if (p == std::string::npos) return "";
      p += key.size();
      size_t e = line.find(' ', p);
      return line.substr(p, e == std::string::npos ? std::string::npos : e - p);
    };
    k.property = field("property");
    k.rule = field("rule");
    k.sig_re = field("sig");
    size_t w = line.find(" :: ");
    k.what = w == std::string::npos ? "" : line.substr(w + 4);
    if (k.property == prop) out.push_back(k);
  }
  return out;
}
static Known *match_known(std::vector<Known> &ks, const Violation &v) {
  for (auto &k : ks) {
    if (k.rule != v.rule) continue;
    try {
      if (std::regex_match(v.sig, std::regex(k.sig_re))) return &k;
    } catch (...) {}
  }
  return nullptr;
}

// ------------------------------------------------------------------ run a plan in a forked child
struct ChildOutcome {
  bool crashed = false;
  std::string crash_sig, crash_detail;
  RunResult res;
};

static std::string sanitizer_summary(const std::string &path, std::string *detail) {
  std::ifstream f(path);
  std::string line, sum, all;
  int frames = 0;
  std::string top_frames;
  while (std::getline(f, line)) {
    if (all.size() < 6000) all += line + "\n";
    if (line.find("SUMMARY:") != std::string::npos && sum.empty()) sum = line.substr(line.find("SUMMARY:") + 9);
    if (line.find("Assertion") != std::string::npos && line.find("failed") != std::string::npos && sum.empty()) sum = "assert: " + line;
    if (line.find("runtime error:") != std::string::npos && sum.empty()) sum = "ubsan: " + line;
    if (frames < 1 && line.find("    #") == 0 && line.find("/repo/") != std::string::npos) {
      // first frame inside libcoap: function + file:line make the signature specific
      size_t in = line.find(" in ");
      if (in != std::string::npos) { top_frames = line.substr(in + 4); frames++; }
    }
  }
  if (detail) *detail = all;
  if (!top_frames.empty() && sum.find("/repo/") == std::string::npos) sum += " at " + top_frames;
  // strip addresses so the signature is stable
  sum = std::regex_replace(sum, std::regex("0x[0-9a-f]+"), "0x?");
  {  // keep file:line:col, normalise run-dependent numbers in the message text
    size_t re = sum.find("runtime error:");
    if (re != std::string::npos) sum = sum.substr(0, re) + std::regex_replace(sum.substr(re), std::regex("-?[0-9]+"), "N");
  }
  sum = std::regex_replace(sum, std::regex("/verif/build/[a-z0-9-]+/"), "");
  sum = std::regex_replace(sum, std::regex("\\(BuildId: [0-9a-f]+\\)"), "");
  sum = std::regex_replace(sum, std::regex("\\(/verif/build/simcheck[^)]*\\)"), "");
  sum = std::regex_replace(sum, std::regex(" +"), "_");
  return sum;
}

static ChildOutcome run_in_child(Property *p, const json &plan, bool want_log = false) {
  ChildOutcome out;
  int pfd[2];
  if (pipe(pfd) != 0) { perror("pipe"); __real_exit(2); }
  char errpath[128];
  snprintf(errpath, sizeof errpath, "%s/build/logs/child.%d.stderr", VERIF_DIR, (int)getpid());
  fflush(stdout);
  fflush(stderr);
  pid_t pid = fork();
  if (pid == 0) {
    close(pfd[0]);
    int efd = open(errpath, O_WRONLY | O_CREAT | O_TRUNC, 0644);
    if (efd >= 0) { dup2(efd, 2); close(efd); }
    alarm((unsigned)p->run_timeout_s);
    RunResult r;
    p->execute(plan, r, want_log);
    alarm(0);
    json j;
    j["violations"] = r.violations;
    j["hash"] = r.trace_hash;
    j["events"] = r.events;
    j["sim_us"] = r.sim_us;
    j["nontrivial"] = r.nontrivial;
    if (want_log) j["log"] = r.log;
    std::string s = j.dump(-1, ' ', false, json::error_handler_t::replace);
    size_t off = 0;
    while (off < s.size()) {
      ssize_t w = write(pfd[1], s.data() + off, s.size() - off);
      if (w <= 0) break;
      off += (size_t)w;
    }
    _exit(0);
  }
  close(pfd[1]);
  std::string s;
  char buf[65536];
  for (;;) {
    ssize_t r = read(pfd[0], buf, sizeof buf);
    if (r < 0 && errno == EINTR) continue;
    if (r <= 0) break;
    s.append(buf, (size_t)r);
  }
  close(pfd[0]);
  int st = 0;
  while (waitpid(pid, &st, 0) < 0 && errno == EINTR) {}
  if (WIFEXITED(st) && WEXITSTATUS(st) == 0 && !s.empty()) {
    try {
      json j = json::parse(s);
      out.res.violations = j["violations"].get<std::vector<Violation>>();
      out.res.trace_hash = j["hash"].get<uint64_t>();
      out.res.events = j["events"].get<uint64_t>();
      out.res.sim_us = j["sim_us"].get<uint64_t>();
      out.res.nontrivial = j["nontrivial"].get<bool>();
      if (j.contains("log")) out.res.log = j["log"].get<std::vector<std::string>>();
      return out;
    } catch (...) {}
  }
  out.crashed = true;
  std::string detail;
  std::string sum = sanitizer_summary(errpath, &detail);
  if (WIFSIGNALED(st) && WTERMSIG(st) == SIGALRM) sum = "hang(watchdog)";
  else if (sum.empty()) sum = WIFSIGNALED(st) ? strfmt("signal_%d", WTERMSIG(st)) : strfmt("exit_%d", WEXITSTATUS(st));
  out.crash_sig = sum;
  out.crash_detail = detail;
  out.res.violations.push_back(Violation{"M-mem.crash", sum, detail.substr(0, 3000)});
  return out;
}

static bool has_rule(const RunResult &r, const std::string &rule, const std::string *sig = nullptr) {
  for (auto &v : r.violations)
    if (v.rule == rule && (!sig || v.sig == *sig)) return true;
  return false;
}

// ------------------------------------------------------------------ minimisation (ddmin over plan arrays)
static json minimise(Property *p, json plan, const std::string &rule, const std::string &sig, int budget, int *reruns) {
  int used = 0;
  bool crash = rule == "M-mem.crash";
  auto still = [&](const json &cand) {
    if (used >= budget) return false;
    used++;
    ChildOutcome o = run_in_child(p, cand);
    (void)crash;
    return has_rule(o.res, rule, &sig);     // the same violation class = same rule AND same signature (a known finding of the same rule must not take over)
  };
  for (const std::string &key : p->shrink_keys()) {
    if (!plan.contains(key) || !plan[key].is_array()) continue;
    size_t chunk = plan[key].size();
    while (chunk >= 1 && used < budget) {
      bool removed_any = false;
      for (size_t start = 0; start < plan[key].size() && used < budget;) {
        json cand = plan;
        json arr = json::array();
        for (size_t i = 0; i < plan[key].size(); i++)
          if (i < start || i >= start + chunk) arr.push_back(plan[key][i]);
        if (arr.size() == plan[key].size()) break;
        cand[key] = arr;
        if (still(cand)) { plan = cand; removed_any = true; }
        else start += chunk;
      }
      if (chunk == 1 && !removed_any) break;
      if (!removed_any) chunk /= 2;
      else if (chunk > plan[key].size()) chunk = plan[key].size();
      if (plan[key].empty()) break;
    }
  }
  // property-specific simplifications to a fixpoint
  bool progress = true;
  while (progress && used < budget) {
    progress = false;
    for (auto &cand : p->simpler(plan)) {
      if (used >= budget) break;
      if (still(cand)) { plan = cand; progress = true; break; }
    }
  }
  if (reruns) *reruns = used;
  return plan;
}

// ------------------------------------------------------------------ corpus: plans that once exposed a violation are always re-run first
static const uint64_t CORPUS_BASE = 1ull << 62;
static std::vector<std::string> g_corpus;
static void load_corpus(const std::string &prop) {
  g_corpus.clear();
  std::string dir = std::string(VERIF_DIR) + "/corpus/" + prop;
  std::string cmd = "ls " + dir + "/*.json 2>/dev/null | sort";
  FILE *f = popen(cmd.c_str(), "r");
  if (!f) return;
  char line[1024];
  while (fgets(line, sizeof line, f)) {
    std::string s = line;
    while (!s.empty() && (s.back() == '\n' || s.back() == '\r')) s.pop_back();
    if (!s.empty()) g_corpus.push_back(s);
  }
  pclose(f);
}
static json plan_for(Property *p, uint64_t seed, uint64_t idx, bool thorough) {
  if (idx >= CORPUS_BASE) {
    size_t i = (size_t)(idx - CORPUS_BASE);
    if (i < g_corpus.size()) {
      std::ifstream f(g_corpus[i]);
      try {
        json j = json::parse(f);
        j.erase("expect");
        j["corpus_file"] = g_corpus[i];
        return j;
      } catch (...) {}
    }
  }
  return p->generate(seed, idx, thorough);
}

// ------------------------------------------------------------------ worker
struct WorkerCfg {
  int w, W;
  uint64_t seed, max_index;
  bool thorough;
  double deadline;
  int recheck_every;
};

static void worker_main(Property *p, const WorkerCfg &c, int out_fd, uint64_t start_index) {
  FILE *o = fdopen(out_fd, "w");
  Counters acc;
  double last_flush = real_s();
  uint64_t done = 0;
  bool in_corpus = start_index >= CORPUS_BASE;
  for (uint64_t idx = start_index;; idx += (uint64_t)c.W) {
    if (in_corpus && idx >= CORPUS_BASE + g_corpus.size()) { in_corpus = false; idx = (uint64_t)c.w; }
    if (!in_corpus && idx >= c.max_index) break;
    if (!in_corpus && real_s() > c.deadline) break;
    json plan = plan_for(p, c.seed, idx, c.thorough);
    fprintf(o, "S %llu\n", (unsigned long long)idx);
    fflush(o);
    alarm((unsigned)p->run_timeout_s);
    RunResult r;
    p->execute(plan, r, false);
    alarm(0);
    bool mismatch = false;
    if (c.recheck_every && (done % (uint64_t)c.recheck_every) == 0) {
      alarm((unsigned)p->run_timeout_s);
      RunResult r2;
      p->execute(plan, r2, false);
      alarm(0);
      acc["determinism.reran"]++;
      if (r2.trace_hash != r.trace_hash || r2.violations.size() != r.violations.size()) { mismatch = true; acc["determinism.mismatch"]++; }
    }
    for (auto &kv : r.counters) acc[kv.first] += kv.second;
    fprintf(o, "E %llu %016llx %d %llu %llu %zu %d\n", (unsigned long long)idx, (unsigned long long)r.trace_hash, r.nontrivial ? 1 : 0,
            (unsigned long long)r.events, (unsigned long long)r.sim_us, r.violations.size(), mismatch ? 1 : 0);
    for (auto &v : r.violations) {
      json j = v;
      fprintf(o, "V %llu %s\n", (unsigned long long)idx, j.dump(-1, ' ', false, json::error_handler_t::replace).c_str());
    }
    done++;
    if (real_s() - last_flush > 1.0) {
      fprintf(o, "C %s\n", json(acc).dump().c_str());
      acc.clear();
      last_flush = real_s();
    }
    fflush(o);
  }
  fprintf(o, "C %s\n", json(acc).dump().c_str());
  fprintf(o, "Q\n");
  fflush(o);
  _exit(0);
}

// ------------------------------------------------------------------ batch driver
struct Found {
  uint64_t index;
  Violation v;
};

static void mkdirs() {
  mkdir((std::string(VERIF_DIR) + "/build").c_str(), 0755);
  mkdir((std::string(VERIF_DIR) + "/build/logs").c_str(), 0755);
  mkdir((std::string(VERIF_DIR) + "/evidence").c_str(), 0755);
  mkdir((std::string(VERIF_DIR) + "/replays").c_str(), 0755);
}

static int do_replay(Property *p, const std::string &path, bool verbose) {
  std::ifstream f(path);
  if (!f) { fprintf(stderr, "cannot open %s\n", path.c_str()); return 2; }
  json plan = json::parse(f);
  RunResult r;
  // the per-run watchdog of the batch applies to a replay too: a run that does not come back is the violation "hang"
  // (exit 1 = reproduced, like any other violation), never a replay that silently runs into the caller's time-out
  signal(SIGALRM, [](int) {
    static const char msg[] = "replay: the run exceeded the per-run watchdog and was stopped: hang (M-mem.crash hang(watchdog))\n";
    ssize_t w = write(1, msg, sizeof msg - 1);
    (void)w;
    _exit(1);
  });
  alarm((unsigned)p->run_timeout_s);
  p->execute(plan, r, true);
  alarm(0);
  if (verbose) for (auto &l : r.log) printf("%s\n", l.c_str());
  printf("replay: property=%s events=%llu sim_ms=%.3f trace_hash=%016llx violations=%zu\n", p->id.c_str(), (unsigned long long)r.events,
         r.sim_us / 1000.0, (unsigned long long)r.trace_hash, r.violations.size());
  for (auto &v : r.violations) printf("  violated rule=%s sig=%s\n    %s\n", v.rule.c_str(), v.sig.c_str(), v.detail.c_str());
  if (plan.contains("expect")) {
    auto &e = plan["expect"];
    std::string rule = e.value("rule", "");
    std::string esig = e.value("sig", "");
    bool reproduced = rule == "M-mem.crash" || esig.empty() ? has_rule(r, rule) : has_rule(r, rule, &esig);
    if (e.contains("trace_hash") && rule != "M-mem.crash") {
      uint64_t h = strtoull(e["trace_hash"].get<std::string>().c_str(), nullptr, 16);
      if (h != r.trace_hash)
        printf("replay: note: trace hash %016llx differs from the recorded %016llx (the tree under test changed, or the replay is not deterministic)\n",
               (unsigned long long)r.trace_hash, (unsigned long long)h);
    }
    printf("replay: expected rule %s %s\n", rule.c_str(), reproduced ? "REPRODUCED" : "NOT reproduced");
    return reproduced ? 1 : 0;
  }
  return r.violations.empty() ? 0 : 1;
}

static uint64_t g_from = 0;
static int run_batch(Property *p, bool thorough, uint64_t seed, int jobs, double budget_s, uint64_t max_runs, bool write_evidence) {
  mkdirs();
  double t0 = real_s();
  std::string st = p->selftest();
  if (!st.empty()) { printf("MACHINERY-FAULT: reference-model self test failed: %s\n", st.c_str()); return 2; }
  std::vector<Known> known = load_known(p->id);
  uint64_t fam = p->family_size(thorough);
  WorkerCfg base;
  base.W = jobs;
  base.seed = seed;
  base.thorough = thorough;
  base.max_index = max_runs;
  base.deadline = t0 + budget_s;
  base.recheck_every = 97;

  struct W {
    pid_t pid = -1;
    int fd = -1;
    std::string buf;
    uint64_t cur = UINT64_MAX, next = 0;
    bool in_run = false, done = false;
    int restarts = 0;
  };
  std::vector<W> ws((size_t)jobs);
  auto spawn = [&](int w) {
    int pfd[2];
    if (pipe(pfd) != 0) { perror("pipe"); __real_exit(2); }
    fflush(stdout);
    pid_t pid = fork();
    if (pid == 0) {
      close(pfd[0]);
      for (auto &o : ws) if (o.fd >= 0) close(o.fd);
      char errpath[160];
      snprintf(errpath, sizeof errpath, "%s/build/logs/%s.w%d.stderr", VERIF_DIR, p->id.c_str(), w);
      int efd = open(errpath, O_WRONLY | O_CREAT | O_TRUNC, 0644);
      if (efd >= 0) { dup2(efd, 2); close(efd); }
      // libcoap's coap_show_pdu() writes to stdout when a plan raises the log level (C02 does): a worker's stdout is nobody's business
      { int nfd = open("/dev/null", O_WRONLY); if (nfd >= 0) { dup2(nfd, 1); close(nfd); } }
      WorkerCfg c = base;
      c.w = w;
      worker_main(p, c, pfd[1], ws[w].next);
    }
    close(pfd[1]);
    ws[w].pid = pid;
    ws[w].fd = pfd[0];
    ws[w].buf.clear();
    ws[w].in_run = false;
  };
  load_corpus(p->id);
  if (g_from) g_corpus.clear();
  for (int w = 0; w < jobs; w++) { ws[w].next = g_corpus.empty() ? g_from + (uint64_t)w : CORPUS_BASE + (uint64_t)w; spawn(w); }

  uint64_t evaluations = 0, total_events = 0, total_sim_us = 0, mismatches = 0, fam_done = 0, corpus_done = 0;
  std::unordered_set<uint64_t> distinct_all, distinct_nt;
  Counters counters;
  std::vector<Found> found;
  std::vector<uint64_t> sample_idx;
  int crashes = 0;

  auto handle_line = [&](W &w, const std::string &line) {
    if (line.empty()) return;
    char t = line[0];
    if (t == 'S') { w.cur = strtoull(line.c_str() + 2, nullptr, 10); w.in_run = true; }
    else if (t == 'E') {
      unsigned long long idx, h, ev, su;
      int nt, mm;
      size_t nv;
      if (sscanf(line.c_str() + 2, "%llu %llx %d %llu %llu %zu %d", &idx, &h, &nt, &ev, &su, &nv, &mm) == 7) {
        evaluations++;
        total_events += ev;
        total_sim_us += su;
        distinct_all.insert(h);
        if (nt) distinct_nt.insert(h);
        if (mm) mismatches++;
        if (idx < fam) fam_done++;
        if (nt && idx < CORPUS_BASE && sample_idx.size() < 3 && (sample_idx.empty() || idx > sample_idx.back() + 5)) sample_idx.push_back(idx);
        w.in_run = false;
        w.next = idx + (uint64_t)jobs;
        if (idx >= CORPUS_BASE) { corpus_done++; if (w.next >= CORPUS_BASE + g_corpus.size()) w.next = (uint64_t)(&w - &ws[0]); }
      }
    } else if (t == 'V') {
      char *end;
      uint64_t idx = strtoull(line.c_str() + 2, &end, 10);
      try {
        Violation v = json::parse(end).get<Violation>();
        found.push_back(Found{idx, v});
      } catch (...) {}
    } else if (t == 'C') {
      try {
        Counters c = json::parse(line.c_str() + 2).get<Counters>();
        for (auto &kv : c) counters[kv.first] += kv.second;
      } catch (...) {}
    } else if (t == 'Q') w.done = true;
  };

  int live = jobs;
  while (live > 0) {
    std::vector<struct pollfd> pf;
    std::vector<int> who;
    for (int w = 0; w < jobs; w++)
      if (ws[w].fd >= 0) { pf.push_back({ws[w].fd, POLLIN, 0}); who.push_back(w); }
    if (pf.empty()) break;
    int pr = poll(pf.data(), pf.size(), 1000);
    if (pr < 0 && errno != EINTR) break;
    for (size_t i = 0; i < pf.size(); i++) {
      if (!(pf[i].revents & (POLLIN | POLLHUP | POLLERR))) continue;
      W &w = ws[who[i]];
      char buf[65536];
      ssize_t r = read(w.fd, buf, sizeof buf);
      if (r > 0) {
        w.buf.append(buf, (size_t)r);
        size_t pos;
        while ((pos = w.buf.find('\n')) != std::string::npos) {
          handle_line(w, w.buf.substr(0, pos));
          w.buf.erase(0, pos + 1);
        }
        continue;
      }
      if (r < 0 && (errno == EINTR || errno == EAGAIN)) continue;
      // EOF: worker finished or died
      close(w.fd);
      w.fd = -1;
      int stt = 0;
      while (waitpid(w.pid, &stt, 0) < 0 && errno == EINTR) {}
      if (w.done) { live--; continue; }
      // died in a run
      crashes++;
      if (w.in_run) {
        char errpath[160];
        snprintf(errpath, sizeof errpath, "%s/build/logs/%s.w%d.stderr", VERIF_DIR, p->id.c_str(), who[i]);
        std::string detail;
        std::string sum = sanitizer_summary(errpath, &detail);
        if (WIFSIGNALED(stt) && WTERMSIG(stt) == SIGALRM) sum = "hang(watchdog)";
        else if (sum.empty()) sum = WIFSIGNALED(stt) ? strfmt("signal_%d", WTERMSIG(stt)) : strfmt("exit_%d", WEXITSTATUS(stt));
        found.push_back(Found{w.cur, Violation{"M-mem.crash", sum, detail.substr(0, 3000)}});
        evaluations++;
        w.next = w.cur + (uint64_t)jobs;
        if (w.cur >= CORPUS_BASE && w.next >= CORPUS_BASE + g_corpus.size()) w.next = (uint64_t)who[i];
      }
      if (real_s() < base.deadline && w.restarts < 200 && (w.next < max_runs || w.next >= CORPUS_BASE)) {
        w.restarts++;
        spawn(who[i]);
      } else live--;
    }
  }
  double wall = real_s() - t0;

  // ---- triage
  int rc = 0;
  std::map<std::string, Found> firsts;   // per (rule|sig) lowest index
  std::set<std::string> known_printed;
  uint64_t known_hits = 0;
  for (auto &f : found) {
    Known *k = match_known(known, f.v);
    if (k) {
      known_hits++;
      if (!k->hit) { k->hit = true; printf("KNOWN-FINDING: property=%s %s [rule=%s first_index=%llu]\n", p->id.c_str(), k->what.c_str(), f.v.rule.c_str(), (unsigned long long)f.index); }
      continue;
    }
    std::string key = f.v.rule + "|" + f.v.sig;
    auto it = firsts.find(key);
    if (it == firsts.end() || f.index < it->second.index) firsts[key] = f;
  }
  {
    std::map<std::string, std::pair<uint64_t, uint64_t>> tally;   // rule|sig -> (count, first index)
    for (auto &f : found) {
      std::string key = f.v.rule + " sig=" + f.v.sig.substr(0, 100);
      auto it = tally.find(key);
      if (it == tally.end()) tally[key] = {1, f.index};
      else { it->second.first++; if (f.index < it->second.second) it->second.second = f.index; }
    }
    for (auto &kv : tally) printf("  tally: %-70s runs=%llu first_index=%llu\n", kv.first.c_str(), (unsigned long long)kv.second.first, (unsigned long long)kv.second.second);
  }
  json viol_report = json::array();
  int reported = 0;
  for (auto &kv : firsts) {
    if (reported >= 4) break;
    const Found &f = kv.second;
    json plan = plan_for(p, seed, f.index, thorough);
    // confirm in a child first (determinism gate part 1)
    ChildOutcome c1 = run_in_child(p, plan);
    bool crash = f.v.rule == "M-mem.crash";
    if (!has_rule(c1.res, f.v.rule, &f.v.sig)) {
      // crash signatures may differ slightly between worker and child (different history in process); accept any crash
      if (!(crash && c1.crashed)) {
        printf("MACHINERY-FAULT: property=%s index=%llu rule=%s did not reproduce in a fresh child\n", p->id.c_str(), (unsigned long long)f.index, f.v.rule.c_str());
        rc = std::max(rc, 2);
        continue;
      }
    }
    std::string sig = crash && c1.crashed ? c1.crash_sig : f.v.sig;
    int reruns = 0;
    json minp = minimise(p, plan, f.v.rule, sig, 250, &reruns);
    ChildOutcome a = run_in_child(p, minp), b = run_in_child(p, minp);
    if (!has_rule(a.res, f.v.rule, &sig) || !has_rule(b.res, f.v.rule, &sig) || (!crash && a.res.trace_hash != b.res.trace_hash)) {
      printf("MACHINERY-FAULT: property=%s index=%llu rule=%s minimised plan is not deterministic\n", p->id.c_str(), (unsigned long long)f.index, f.v.rule.c_str());
      rc = std::max(rc, 2);
      continue;
    }
    Violation mv;
    for (auto &v : a.res.violations) if (v.rule == f.v.rule && v.sig == sig) { mv = v; break; }
    // does the minimised form match a known finding? (sig may only be decidable on the minimised history)
    Known *k = match_known(known, mv);
    if (k) {
      known_hits++;
      if (!k->hit) { k->hit = true; printf("KNOWN-FINDING: property=%s %s [rule=%s first_index=%llu]\n", p->id.c_str(), k->what.c_str(), mv.rule.c_str(), (unsigned long long)f.index); }
      continue;
    }
    minp["expect"] = json{{"verdict", "violation"}, {"rule", mv.rule}, {"sig", mv.sig}, {"detail", mv.detail.substr(0, 1500)},
                          {"trace_hash", strfmt("%016llx", (unsigned long long)a.res.trace_hash)}, {"found_at_index", f.index}, {"base_seed", seed},
                          {"minimise_reruns", reruns}};
    std::string dir = std::string(VERIF_DIR) + "/replays/" + p->id;
    mkdir(dir.c_str(), 0755);
    std::string path = strfmt("%s/%s-%016llx.json", dir.c_str(), std::regex_replace(mv.rule, std::regex("[^A-Za-z0-9_.-]"), "_").c_str(),
                              (unsigned long long)mix64(a.res.trace_hash ^ std::hash<std::string>()(minp.dump())));
    { std::ofstream o(path); o << minp.dump(1, ' ', false, json::error_handler_t::replace) << "\n"; }
    // fresh-process gate
    std::string cmd = strfmt("timeout 300 %s/build/simcheck %s --replay %s >/dev/null 2>&1", VERIF_DIR, p->id.c_str(), path.c_str());   // a hang must not hang the batch
    int sc = system(cmd.c_str());
    int ec = WIFEXITED(sc) ? WEXITSTATUS(sc) : -1;
    if (!(ec == 1 || (crash && (ec == 77 || ec == -1 || ec == 134)))) {
      printf("MACHINERY-FAULT: property=%s replay %s did not reproduce in a fresh process (exit %d)\n", p->id.c_str(), path.c_str(), ec);
      rc = std::max(rc, 2);
      continue;
    }
    printf("VIOLATION property=%s replay=%s\n", p->id.c_str(), path.c_str());
    printf("  rule=%s sig=%s\n  %s\n", mv.rule.c_str(), mv.sig.c_str(), mv.detail.substr(0, 1200).c_str());
    viol_report.push_back(json{{"rule", mv.rule}, {"sig", mv.sig}, {"replay", path}, {"index", f.index}});
    reported++;
    rc = std::max(rc, 1);
  }
  if (mismatches) {
    printf("MACHINERY-FAULT: property=%s %llu plans gave a different trace when re-executed\n", p->id.c_str(), (unsigned long long)mismatches);
    rc = std::max(rc, 2);
  }

  // ---- evidence
  if (write_evidence) {
    json ev;
    ev["property_id"] = p->id;
    ev["tier"] = thorough ? "thorough" : "quick";
    ev["seed"] = (int64_t)(seed & 0x7fffffffffffffffull);
    ev["level"] = p->level;
    json cov;
    cov["evaluations"] = evaluations;
    cov["distinct_nontrivial"] = distinct_nt.size();
    cov["rule"] = p->rule_text;
    json samples = json::array();
    if (sample_idx.empty() && evaluations) sample_idx.push_back(0);
    for (uint64_t i : sample_idx) {
      json s = p->generate(seed, i, thorough);
      std::string d = s.dump();
      if (d.size() > 6000) { json t; t["index"] = i; t["plan_truncated"] = d.substr(0, 6000); samples.push_back(t); }
      else { s["index"] = i; samples.push_back(s); }
    }
    cov["samples"] = samples;
    cov["trace_hash_distinct"] = distinct_all.size();
    cov["runs_per_hour"] = wall > 0 ? (uint64_t)(evaluations * 3600.0 / wall) : 0;
    cov["sim_seconds_covered"] = total_sim_us / 1e6;
    cov["sim_events"] = total_events;
    json ff = json::object(), pr = json::object(), cfg = json::object(), other = json::object();
    for (auto &kv : counters) {
      if (kv.first.rfind("fault.", 0) == 0) ff[kv.first.substr(6)] = kv.second;
      else if (kv.first.rfind("probe.", 0) == 0) pr[kv.first.substr(6)] = kv.second;
      else if (kv.first.rfind("cfg.", 0) == 0) cfg[kv.first.substr(4)] = kv.second;
      else other[kv.first] = kv.second;
    }
    cov["faults_fired"] = ff;
    cov["probes"] = pr;
    cov["configs_seen"] = cfg;
    cov["corpus_plans_rerun"] = corpus_done;
    if (fam) cov["systematic_family"] = json{{"name", p->family_name()}, {"size", fam}, {"completed", fam_done}};
    // fault_enumeration checks: the systematic family (every fault index of every scenario) was completed in this run
    cov["exhaustive"] = fam > 0 && fam_done >= fam && p->level == "fault_enumeration";
    cov["components"] = json{{"real", p->real_components}, {"stub", p->stub_components}};
    cov["determinism"] = json{{"reran", counters.count("determinism.reran") ? counters["determinism.reran"] : 0}, {"mismatches", mismatches}};
    cov["worker_deaths"] = crashes;
    cov["known_findings_hit"] = known_hits;
    cov["violations_reported"] = viol_report;
    cov["jobs"] = jobs;
    ev["coverage"] = cov;
    ev["assumptions"] = p->assumptions;
    ev["wall_s"] = wall;
    ev["violations"] = (int)viol_report.size();
    std::string path = std::string(VERIF_DIR) + "/evidence/" + p->id + ".json";
    std::string tmp = path + ".tmp";
    { std::ofstream o(tmp); o << ev.dump(1) << "\n"; }
    rename(tmp.c_str(), path.c_str());
  }
  printf("%s %s: %llu runs (%zu distinct non-trivial traces, %zu distinct traces), %.1f sim-s, %.1f s wall, %d violation(s), %llu known-finding hit(s), exit %d\n",
         p->id.c_str(), thorough ? "thorough" : "quick", (unsigned long long)evaluations, distinct_nt.size(), distinct_all.size(), total_sim_us / 1e6, wall,
         (int)viol_report.size(), (unsigned long long)known_hits, rc);
  return rc;
}

// determinism self test: run N plans twice in-process and once in a child, compare full logs
static int selftest(Property *p, uint64_t seed, uint64_t n) {
  uint64_t bad = 0;
  for (uint64_t i = 0; i < n; i++) {
    json plan = p->generate(seed, i, false);
    ChildOutcome a = run_in_child(p, plan, true);
    ChildOutcome b = run_in_child(p, plan, true);
    if (a.crashed || b.crashed) continue;
    if (a.res.trace_hash != b.res.trace_hash || a.res.log != b.res.log) {
      bad++;
      printf("selftest %s: index %llu differs between two executions\n", p->id.c_str(), (unsigned long long)i);
      for (size_t k = 0; k < std::min(a.res.log.size(), b.res.log.size()); k++)
        if (a.res.log[k] != b.res.log[k]) { printf("  first difference at line %zu:\n   A: %s\n   B: %s\n", k, a.res.log[k].c_str(), b.res.log[k].c_str()); break; }
    }
  }
  printf("selftest %s: %llu plans, %llu mismatches\n", p->id.c_str(), (unsigned long long)n, (unsigned long long)bad);
  return bad ? 2 : 0;
}

int runner_main(int argc, char **argv) {
  setvbuf(stdout, nullptr, _IOLBF, 0);
  if (argc < 2) {
    fprintf(stderr, "usage: simcheck <Cxx> quick|thorough [--jobs N] [--budget S] [--runs N] [--no-evidence]\n"
                    "       simcheck <Cxx> --replay <plan.json> [-v]\n"
                    "       simcheck <Cxx> --index <i> [-v] [--thorough]\n"
                    "       simcheck <Cxx> --selftest [N]\n       simcheck --list\n");
    return 2;
  }
  std::string a1 = argv[1];
  if (a1 == "--list") { for (auto *p : props()) printf("%s\n", p->id.c_str()); return 0; }
  Property *p = find_property(a1);
  if (!p) { fprintf(stderr, "unknown property %s\n", a1.c_str()); return 2; }
  uint64_t seed = 20260926;
  if (const char *s = getenv("VERIF_SEED")) seed = strtoull(s, nullptr, 10);
  int jobs = 16;
  if (const char *s = getenv("VERIF_JOBS")) jobs = atoi(s);
  bool thorough = false, verbose = false, evidence = true, plan_only = false;
  double budget = -1;
  uint64_t runs = 0;
  std::string mode, replay;
  uint64_t index = 0, stn = 200;
  for (int i = 2; i < argc; i++) {
    std::string a = argv[i];
    if (a == "quick") mode = "batch";
    else if (a == "thorough") { mode = "batch"; thorough = true; }
    else if (a == "--thorough") thorough = true;
    else if (a == "--replay" && i + 1 < argc) { mode = "replay"; replay = argv[++i]; }
    else if (a == "--index" && i + 1 < argc) { mode = "index"; index = strtoull(argv[++i], nullptr, 10); }
    else if (a == "--selftest") { mode = "selftest"; if (i + 1 < argc && argv[i + 1][0] != '-') stn = strtoull(argv[++i], nullptr, 10); }
    else if (a == "--jobs" && i + 1 < argc) jobs = atoi(argv[++i]);
    else if (a == "--budget" && i + 1 < argc) budget = atof(argv[++i]);
    else if (a == "--runs" && i + 1 < argc) runs = strtoull(argv[++i], nullptr, 10);
    else if (a == "--seed" && i + 1 < argc) seed = strtoull(argv[++i], nullptr, 10);
    else if (a == "--no-evidence") evidence = false;
    else if (a == "--plan-only") plan_only = true;
    else if (a == "--from" && i + 1 < argc) g_from = strtoull(argv[++i], nullptr, 10);
    else if (a == "-v") verbose = true;
  }
  if (const char *s = getenv("VERIF_TIER")) { if (mode == "batch" && std::string(s) == "thorough") thorough = true; }
  if (jobs < 1) jobs = 1;
  if (jobs > 64) jobs = 64;
  mkdirs();
  if (mode == "replay") return do_replay(p, replay, true);
  if (mode == "index") {
    json plan = p->generate(seed, index, thorough);
    if (plan_only) { printf("%s\n", plan.dump(1).c_str()); return 0; }
    if (verbose) printf("%s\n", plan.dump(1).c_str());
    RunResult r;
    p->execute(plan, r, true);
    if (verbose) for (auto &l : r.log) printf("%s\n", l.c_str());
    printf("index %llu: events=%llu sim_ms=%.3f hash=%016llx nontrivial=%d violations=%zu\n", (unsigned long long)index, (unsigned long long)r.events,
           r.sim_us / 1000.0, (unsigned long long)r.trace_hash, r.nontrivial, r.violations.size());
    for (auto &v : r.violations) printf("  rule=%s sig=%s\n    %s\n", v.rule.c_str(), v.sig.c_str(), v.detail.c_str());
    for (auto &kv : r.counters) printf("  %s=%llu\n", kv.first.c_str(), (unsigned long long)kv.second);
    return r.violations.empty() ? 0 : 1;
  }
  if (mode == "selftest") return selftest(p, seed, stn);
  if (mode == "batch") {
    if (budget < 0) budget = thorough ? p->thorough_budget_s : p->quick_budget_s;
    uint64_t maxr = runs ? runs : (thorough ? p->thorough_max_runs : p->quick_max_runs);
    return run_batch(p, thorough, seed, jobs, budget, maxr, evidence);
  }
  fprintf(stderr, "nothing to do\n");
  return 2;
}
