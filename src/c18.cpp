// C18 — any single allocation failure is survived: clean error, no leak, endpoint still works.
// Fault enumeration: for every scenario of a fixed catalogue and every index k of an allocation made through libcoap's
// allocator funnel (coap_malloc_type / coap_realloc_type, wrapped at link time) the scenario is re-run with exactly the
// k-th allocation failing (thorough: pairs).
#include "runner.h"
#include "world.h"
#include "coapx.h"

extern "C" void __sanitizer_print_stack_trace(void);

namespace {

struct S18 {
  World w;
  RunResult *res = nullptr;
  coap_context_t *cctx = nullptr, *sctx = nullptr;
  coap_session_t *sess = nullptr;
  coap_resource_t *obs = nullptr;
  int responses = 0, good = 0, bad_data = 0, nacks = 0, notifications = 0;
  int canary_ok = 0;
  int released = 0, submitted = 0;
  std::vector<coap_async_t *> asyncs;
};
S18 *g = nullptr;

uint8_t pat(size_t i) { return (uint8_t)(i * 37 + 11); }
bool check_pat(const uint8_t *d, size_t off, size_t n) { for (size_t i = 0; i < n; i++) if (d[i] != pat(off + i)) return false; return true; }
static uint8_t BODY[1500];

void release_cb(coap_session_t *, void *) { g->released++; }

void hnd_get(coap_resource_t *, coap_session_t *, const coap_pdu_t *, const coap_string_t *, coap_pdu_t *response) {
  coap_pdu_set_code(response, COAP_RESPONSE_CODE_CONTENT);
  coap_add_data(response, 16, BODY);
}
void hnd_big(coap_resource_t *resource, coap_session_t *session, const coap_pdu_t *request, const coap_string_t *query, coap_pdu_t *response) {
  coap_pdu_set_code(response, COAP_RESPONSE_CODE_CONTENT);
  g->submitted++;
  if (!coap_add_data_large_response(resource, session, request, response, query, COAP_MEDIATYPE_APPLICATION_OCTET_STREAM, -1, 0x42, sizeof BODY, BODY, release_cb, nullptr))
    coap_pdu_set_code(response, COAP_RESPONSE_CODE_INTERNAL_ERROR);
}
void hnd_put(coap_resource_t *, coap_session_t *, const coap_pdu_t *request, const coap_string_t *, coap_pdu_t *response) {
  size_t size = 0, offset = 0, total = 0;
  const uint8_t *data = nullptr;
  if (coap_get_data_large(request, &size, &data, &offset, &total) && size && !check_pat(data, offset, size)) g->bad_data++;
  coap_pdu_set_code(response, COAP_RESPONSE_CODE_CHANGED);
}
void hnd_obs(coap_resource_t *, coap_session_t *, const coap_pdu_t *, const coap_string_t *, coap_pdu_t *response) {
  coap_pdu_set_code(response, COAP_RESPONSE_CODE_CONTENT);
  coap_add_data(response, 8, BODY);
}
// The application serves a 48-byte body in 16-byte blocks itself and does not announce the total size (no Size2, RFC 7959 section 4):
// the client's re-assembly buffer has to grow block by block.
void hnd_appblk(coap_resource_t *, coap_session_t *, const coap_pdu_t *request, const coap_string_t *, coap_pdu_t *response) {
  coap_opt_iterator_t oi;
  coap_opt_t *o = coap_check_option(request, COAP_OPTION_BLOCK2, &oi);
  unsigned num = o ? coap_opt_block_num(o) : 0;
  if (num > 2) { coap_pdu_set_code(response, COAP_RESPONSE_CODE_BAD_OPTION); return; }
  coap_pdu_set_code(response, COAP_RESPONSE_CODE_CONTENT);
  uint8_t buf[4];
  uint8_t etag = 0x33;
  coap_add_option(response, COAP_OPTION_ETAG, 1, &etag);
  coap_add_option(response, COAP_OPTION_BLOCK2, coap_encode_var_safe(buf, sizeof buf, (num << 4) | ((num < 2) << 3) | 0), buf);
  coap_add_data(response, 16, BODY + 16 * num);
}
void hnd_async(coap_resource_t *, coap_session_t *session, const coap_pdu_t *request, const coap_string_t *, coap_pdu_t *response) {
  coap_bin_const_t t = coap_pdu_get_token(request);
  if (!coap_find_async(session, t)) {
    if (coap_register_async(session, request, 50)) return;
    coap_pdu_set_code(response, COAP_RESPONSE_CODE_SERVICE_UNAVAILABLE);
    return;
  }
  coap_pdu_set_code(response, COAP_RESPONSE_CODE_CONTENT);
  coap_add_data(response, 16, BODY);
}
coap_response_t resp_cb(coap_session_t *, const coap_pdu_t *, const coap_pdu_t *rcv, const coap_mid_t) {
  g->responses++;
  size_t size = 0, offset = 0, total = 0;
  const uint8_t *data = nullptr;
  int code = (int)coap_pdu_get_code(rcv);
  Bytes tok = cx::tok_of(rcv);
  bool have = coap_get_data_large(rcv, &size, &data, &offset, &total) != 0;
  if (!tok.empty() && tok[0] == 0xCA) { if (code == 0x45 && have && size == 16 && check_pat(data, 0, 16)) g->canary_ok++; return COAP_RESPONSE_OK; }
  if ((code >> 5) == 2) {
    if (have && size && code == 0x45) {
      // link-format listing is text; everything else carries the pattern
      bool text = data[0] == '<';
      if (!text && !check_pat(data, offset, size)) g->bad_data++;
    }
    g->good++;
  }
  return COAP_RESPONSE_OK;
}
void nack_cb(coap_session_t *, const coap_pdu_t *, const coap_nack_reason_t, const coap_mid_t) { g->nacks++; }

const char *SCEN[] = {"udp_get", "udp_put_block1", "udp_get_block2", "observe", "tcp_get", "uri_helpers", "async", "wellknown", "setup_teardown", "non_get", "ws_get",
                      "wellknown_big", "app_block2"};
const int NSCEN = 13;
const uint64_t KMAX = 260;      // larger than the allocation count of every scenario (29..70 + canary)

// returns false when set-up could not be completed (allocation failed early): nothing more to drive
bool setup(S18 &s, const std::string &sc) {
  World &w = s.w;
  w.add_node(nullptr);
  w.add_node(nullptr);
  s.sctx = cx::new_context(w, 1);
  s.cctx = cx::new_context(w, 0);
  if (!s.sctx || !s.cctx) return false;
  coap_proto_t proto = sc == "tcp_get" ? COAP_PROTO_TCP : sc == "ws_get" ? COAP_PROTO_WS : COAP_PROTO_UDP;
  {
    World::AsNode as(1);
    coap_context_set_block_mode(s.sctx, COAP_BLOCK_USE_LIBCOAP | COAP_BLOCK_SINGLE_BODY);
    struct { const char *name; coap_request_t m; coap_method_handler_t h; } rs[] = {
        {"get", COAP_REQUEST_GET, hnd_get}, {"big", COAP_REQUEST_GET, hnd_big}, {"put", COAP_REQUEST_PUT, hnd_put}, {"obs", COAP_REQUEST_GET, hnd_obs}, {"async", COAP_REQUEST_GET, hnd_async},
        {"appblk", COAP_REQUEST_GET, hnd_appblk}};
    for (auto &r : rs) {
      coap_resource_t *x = coap_resource_init(coap_make_str_const(r.name), 0);
      if (!x) return false;      // clean failure of the set-up: the application knows and stops here
      coap_register_request_handler(x, r.m, r.h);
      if (std::string(r.name) == "obs") { coap_resource_set_get_observable(x, 1); s.obs = x; }
      coap_add_attr(x, coap_make_str_const("rt"), coap_make_str_const("\"t\""), 0);
      coap_add_resource(s.sctx, x);
    }
    if (sc == "wellknown_big") {
      // a directory that needs several Block2 blocks: lg_xmit, skeletal PDU and PDU growth all allocate inside the large-response set-up
      static char names[40][24];
      for (int i = 0; i < 40; i++) {
        snprintf(names[i], sizeof names[i], "sensors/room%02d/temp", i);
        coap_resource_t *x = coap_resource_init(coap_make_str_const(names[i]), 0);
        if (!x) return false;
        coap_register_request_handler(x, COAP_REQUEST_GET, hnd_get);
        coap_add_attr(x, coap_make_str_const("rt"), coap_make_str_const("\"temperature-c\""), 0);
        coap_add_resource(s.sctx, x);
      }
    }
  }
  if (!cx::new_endpoint(w, 1, s.sctx, 5683, proto)) return false;
  {
    World::AsNode as(0);
    coap_context_set_block_mode(s.cctx, COAP_BLOCK_USE_LIBCOAP | COAP_BLOCK_SINGLE_BODY);
    coap_register_response_handler(s.cctx, resp_cb);
    coap_register_nack_handler(s.cctx, nack_cb);
  }
  s.sess = cx::new_client(w, 0, s.cctx, World::node_addr(1, 5683), proto);
  if (s.sess && proto == COAP_PROTO_WS) { World::AsNode as(0); coap_ws_set_host_request(s.sess, coap_make_str_const("10.0.0.2")); }
  return s.sess != nullptr;
}

// every PDU handed to coap_send is consumed by libcoap, also on failure: the harness never frees it
void request(S18 &s, int code, const char *path, uint8_t tok0, bool observe, int obs_val, size_t body, bool con = true) {
  World::AsNode as(0);
  coap_pdu_t *p = coap_new_pdu(con ? COAP_MESSAGE_CON : COAP_MESSAGE_NON, (coap_pdu_code_t)code, s.sess);
  if (!p) return;
  uint8_t tok[4] = {tok0, 0x18, 0x01, 0x02};
  int ok = coap_add_token(p, 4, tok);
  if (observe) { uint8_t v = (uint8_t)obs_val; ok &= coap_add_option(p, COAP_OPTION_OBSERVE, obs_val ? 1 : 0, &v) != 0; }
  for (const char *seg = path; *seg;) {       // one Uri-Path option per segment
    const char *e = strchr(seg, '/');
    size_t n = e ? (size_t)(e - seg) : strlen(seg);
    ok &= coap_add_option(p, COAP_OPTION_URI_PATH, n, (const uint8_t *)seg) != 0;
    seg += n + (e ? 1 : 0);
  }
  if (body) {
    s.submitted++;
    if (!coap_add_data_large_request(s.sess, p, body, BODY, release_cb, nullptr)) { coap_delete_pdu(p); return; }   // documented: release already called on failure? judged by counters
  }
  if (!ok) { coap_delete_pdu(p); return; }
  coap_send(s.sess, p);
}

void drive(S18 &s, const std::string &sc) {
  World &w = s.w;
  if (sc == "udp_get" || sc == "tcp_get" || sc == "ws_get") { request(s, 1, "get", 1, false, 0, 0); w.run_for_ms(3000); }
  else if (sc == "non_get") { request(s, 1, "get", 1, false, 0, 0, false); w.run_for_ms(3000); }
  else if (sc == "udp_put_block1") { request(s, 3, "put", 2, false, 0, sizeof BODY); w.run_for_ms(120000); }
  else if (sc == "udp_get_block2") { request(s, 1, "big", 3, false, 0, 0); w.run_for_ms(120000); }
  else if (sc == "observe") {
    request(s, 1, "obs", 4, true, 0, 0);
    w.run_for_ms(500);
    for (int i = 0; i < 2; i++) { { World::AsNode as(1); if (s.obs) coap_resource_notify_observers(s.obs, nullptr); } w.run_for_ms(500); }
    request(s, 1, "obs", 4, true, 1, 0);
    w.run_for_ms(3000);
  } else if (sc == "uri_helpers") {
    World::AsNode as(0);
    const char *u = "coap://10.0.0.2/get?a=1&b=2";
    coap_uri_t uri;
    if (coap_split_uri((const uint8_t *)u, strlen(u), &uri) == 0) {
      coap_optlist_t *ol = nullptr;
      coap_address_t dst;
      World::to_coap_addr(World::node_addr(1, 5683), &dst);
      int ok = coap_uri_into_optlist(&uri, &dst, &ol, 1);
      coap_pdu_t *p = coap_new_pdu(COAP_MESSAGE_CON, COAP_REQUEST_CODE_GET, s.sess);
      if (p) {
        uint8_t tok[4] = {6, 0x18, 1, 2};
        coap_add_token(p, 4, tok);
        if (ok && ol) coap_add_optlist_pdu(p, &ol);
        if (ok) coap_send(s.sess, p); else coap_delete_pdu(p);
      }
      coap_delete_optlist(ol);
    }
    w.run_for_ms(3000);
  } else if (sc == "async") { request(s, 1, "async", 7, false, 0, 0); w.run_for_ms(5000); }
  else if (sc == "wellknown") { request(s, 1, ".well-known/core", 8, false, 0, 0); w.run_for_ms(3000); }
  else if (sc == "wellknown_big") { request(s, 1, ".well-known/core", 8, false, 0, 0); w.run_for_ms(120000); }
  else if (sc == "app_block2") { request(s, 1, "appblk", 9, false, 0, 0); w.run_for_ms(120000); }
  else if (sc == "setup_teardown") { w.run_for_ms(100); }
}

struct C18 : Property {
  C18() {
    id = "C18";
    level = "fault_enumeration";
    technique = "fault enumeration inside deterministic simulation: every allocation index of every scenario of a fixed catalogue fails in turn (link-time wrap of coap_malloc_type/coap_realloc_type); sanitizers, allocator ledger and a canary exchange as oracle";
    rule_text = "plan = (scenario of the catalogue, index k): the scenario (set-up, exchange, canary exchange with memory available, tear-down) is executed with exactly the k-th allocation made through coap_malloc_type/coap_realloc_type failing; indices 0..(scenarios x 260) enumerate all k for every scenario (k beyond the scenario's allocation count = fault-free control run), thorough adds seeded pairs (k, k'). Non-trivial: the injected failure actually fired; distinct = distinct (scenario, k) with a fired failure. A run = one evaluation.";
    real_components = {"libcoap: coap_mem.c funnel and every caller - coap_net.c, coap_pdu.c, coap_session.c, coap_resource.c, coap_block.c, coap_subscribe.c, coap_async.c, coap_uri.c, coap_str.c, coap_option.c, coap_io.c, coap_tcp.c, coap_ws.c"};
    stub_components = {"simk allocator wrapper (failure injection, live-object ledger), network, clock"};
    assumptions = {"direct malloc() calls inside uthash (hash table bucket growth) are not part of the funnel named by the property and are not failed here (uthash calls exit(-1) on OOM)",
                   "OSCORE and persistence scenarios are exercised under allocation failure in the C14/C17 worlds only in their fault-free form"};
    quick_budget_s = 60;
    thorough_budget_s = 600;
    quick_max_runs = (uint64_t)NSCEN * KMAX;
  }
  uint64_t family_size(bool) override { return (uint64_t)NSCEN * KMAX; }
  std::string family_name() override { return "all (scenario, k) with k <= 260 for the 13 scenarios of the catalogue (allocation counts per scenario are 29..240; larger k are fault-free control runs)"; }

  json generate(uint64_t base, uint64_t index, bool) override {
    json p;
    p["property"] = "C18";
    p["seed"] = base;
    p["index"] = index;
    p["sched_salt"] = 18;
    uint64_t fam = (uint64_t)NSCEN * KMAX;
    if (index < fam) {
      p["config"] = {{"scenario", SCEN[index % NSCEN]}};
      p["faults"] = json::array({json{{"fail_alloc", (int64_t)(index / NSCEN) + 1}}});
    } else {
      Rng r(mix3(base, 0xC18, index));
      p["config"] = {{"scenario", SCEN[r.below(NSCEN)]}};
      int64_t a = r.range(1, 400), b = a + r.range(1, 200);
      p["faults"] = json::array({json{{"fail_alloc", a}}, json{{"fail_alloc", b}}});
    }
    p["ops"] = json::array();
    return p;
  }
  std::vector<std::string> shrink_keys() override { return {}; }

  void execute(const json &plan, RunResult &res, bool verbose) override {
    for (size_t i = 0; i < sizeof BODY; i++) BODY[i] = pat(i);
    S18 s;
    g = &s;
    s.res = &res;
    World &w = s.w;
    w.begin(plan.value("sched_salt", 18ull), &res, verbose, false);
    w.trace_wire = false;
    std::string sc = plan["config"].value("scenario", "udp_get");
    std::set<int64_t> fail;
    for (auto &f : plan["faults"]) if (f.contains("fail_alloc")) fail.insert(f["fail_alloc"].get<int64_t>());
    int64_t seen = 0, fired = 0;
    simk::alloc_reset();
    simk::K().hooks.fail_alloc = [&](int, size_t) {
      if (fail.count(++seen)) {
        fired++;
        if (getenv("VERIF_ALLOC_TRACE")) { fprintf(stderr, "=== failing allocation #%lld here:\n", (long long)seen); __sanitizer_print_stack_trace(); }
        return true;
      }
      return false;
    };
    bool up = setup(s, sc);
    if (up) drive(s, sc);
    simk::K().hooks.fail_alloc = nullptr;       // memory is available again
    int64_t allocs_in_scenario = seen;
    // canary: the next operation with memory available succeeds
    bool canary_possible = up && s.sess && s.cctx && s.sctx;
    if (canary_possible) {
      World::AsNode as(0);
      coap_pdu_t *p = coap_new_pdu(COAP_MESSAGE_CON, COAP_REQUEST_CODE_GET, s.sess);
      if (p) {
        uint8_t tok[4] = {0xCA, 0x18, 0xAA, 0x55};
        coap_add_token(p, 4, tok);
        coap_add_option(p, COAP_OPTION_URI_PATH, 3, (const uint8_t *)"get");
        coap_send(s.sess, p);
      }
    }
    if (canary_possible) w.run_for_ms(200000);
    std::string ctx = strfmt("scenario %s, allocation #%s of %lld failed", sc.c_str(), fail.empty() ? "-" : std::to_string(*fail.begin()).c_str(), (long long)allocs_in_scenario);
    if (w.aborted) res.violate("M-live.abort", w.abort_why, ctx + ": run did not terminate: " + w.abort_why);
    if (s.bad_data) res.violate("C18.wrong_data", sc, ctx + ": an operation completed with wrong data instead of failing");
    if (canary_possible && !w.aborted && !s.canary_ok) {
      // a session that could not be established because of the failure (TCP connect / CSM) is a clean failure of that session:
      // the canary then runs on a fresh session
      World::AsNode as(0);
      coap_proto_t proto = sc == "tcp_get" ? COAP_PROTO_TCP : sc == "ws_get" ? COAP_PROTO_WS : COAP_PROTO_UDP;
      coap_session_t *s2 = cx::new_client(w, 0, s.cctx, World::node_addr(1, 5683), proto);
      if (s2 && proto == COAP_PROTO_WS) coap_ws_set_host_request(s2, coap_make_str_const("10.0.0.2"));
      if (s2) {
        coap_pdu_t *p = coap_new_pdu(COAP_MESSAGE_CON, COAP_REQUEST_CODE_GET, s2);
        if (p) {
          uint8_t tok[4] = {0xCA, 0x18, 0xAA, 0x56};
          coap_add_token(p, 4, tok);
          coap_add_option(p, COAP_OPTION_URI_PATH, 3, (const uint8_t *)"get");
          coap_send(s2, p);
        }
        w.run_for_ms(200000);
        coap_session_release(s2);
      }
      if (!s.canary_ok) res.violate("C18.canary_failed", sc, ctx + ": with memory available again a plain GET is not answered any more");
    }
    {
      World::AsNode a0(0);
      if (s.sess) coap_session_release(s.sess);
      if (s.cctx) coap_free_context(s.cctx);
    }
    {
      World::AsNode a1(1);
      if (s.sctx) coap_free_context(s.sctx);
    }
    int64_t live_before_cleanup = simk::K().alloc.live;
    w.end();   // coap_cleanup()
    int64_t live = simk::K().alloc.live;
    if (live != 0 && !w.aborted) {
      std::string types;
      for (int t = 0; t < 32; t++) if (simk::K().alloc.live_by_type[t]) types += strfmt(" type%d:%lld", t, (long long)simk::K().alloc.live_by_type[t]);
      res.violate("C18.leak", sc, ctx + strfmt(": %lld objects allocated by libcoap are still live after the contexts were freed (%lld before coap_cleanup):%s", (long long)live, (long long)live_before_cleanup, types.c_str()));
    }
    if (s.released > s.submitted) res.violate("C18.release_twice", sc, ctx + strfmt(": release callback ran %d times for %d submissions", s.released, s.submitted));
    res.nontrivial = fired > 0;
    res.counters["probe.allocations_in_scenario." + sc] = (uint64_t)allocs_in_scenario;
    if (fired) res.counters["fault.alloc_failed"] += (uint64_t)fired;
    res.trace_hash = mix3(std::hash<std::string>()(sc), (uint64_t)(fail.empty() ? 0 : *fail.begin()), (uint64_t)fired) ^ (fail.size() > 1 ? mix64((uint64_t)*fail.rbegin()) : 0);
    g = nullptr;
  }
};

struct Reg { Reg() { register_property(new C18()); } } reg;

}  // namespace
