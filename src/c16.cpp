// C16 — URI text and CoAP options convert both ways without loss, confusion or over-read.
// A client node converts generated URI byte strings (exact-size heap buffers, no NUL) into options the way coap-client does
// and sends the request over the simulated wire; a server reconstructs path/query from received options. Reference: R10.
#include "runner.h"
#include "world.h"
#include "coapx.h"
#include "r10.h"

namespace {

struct C16World {
  World w;
  std::vector<std::pair<std::string, std::string>> server_saw;   // (reconstructed path, reconstructed query) per request, by order
  std::vector<Bytes> server_tokens;
};
C16World *g = nullptr;

void hnd_unknown(coap_resource_t *, coap_session_t *, const coap_pdu_t *request, const coap_string_t *query, coap_pdu_t *response) {
  coap_string_t *p = coap_get_uri_path(request);
  g->server_saw.push_back({p ? std::string((const char *)p->s, p->length) : std::string("<null>"), query ? std::string((const char *)query->s, query->length) : std::string()});
  g->server_tokens.push_back(cx::tok_of(request));
  if (p) coap_delete_string(p);
  coap_pdu_set_code(response, COAP_RESPONSE_CODE_CONTENT);
}

// exact-size heap copy (no terminator): any over-read is an ASan report
struct Exact {
  uint8_t *p;
  size_t n;
  explicit Exact(const Bytes &b) : p((uint8_t *)malloc(b.size() ? b.size() : 1)), n(b.size()) { if (n) memcpy(p, b.data(), n); }
  ~Exact() { free(p); }
};

Bytes S(const std::string &s) { return Bytes(s.begin(), s.end()); }

std::string gen_uri(Rng &r) {
  static const char *schemes[] = {"coap", "coap", "coap", "coaps", "coap+tcp", "coaps+tcp", "coap+ws", "coaps+ws"};
  static const char *hosts[] = {"example.com", "h", "10.0.0.2", "[::1]", "[2001:db8::2:1]", "a-b.c", "EXAMPLE.org", "x%41y", "127.0.0.1"};
  static const char *segs[] = {"a", "b", "temp", ".", "..", "%2E", "%2e%2e", "a%2Fb", "x%20y", "%41", "~s", "", "s&t", "q=1", "(x)", "%C3%A4", "a:b", "@", "%25", "long-segment-0123456789"};
  std::string u = schemes[r.below(8)];
  u += "://";
  u += hosts[r.below(9)];
  double x = (r.next() >> 11) * (1.0 / 9007199254740992.0);
  if (x < 0.3) u += ":" + std::to_string(r.pick(std::vector<int>{5683, 5684, 80, 1, 65535, 61616}));
  else if (x < 0.36) u += std::string(":") + r.pick(std::vector<const char *>{"65536", "65540", "70000", "99999", "100000", "655350", "655358", "655360", "6553500000", "4294967301", "18446744073709551621", "65535"});   // out of range, also with 65535 as a prefix
  int n = (int)r.range(0, 5);
  if (n || r.chance(0.5)) u += "/";
  for (int i = 0; i < n; i++) { if (i) u += "/"; u += segs[r.below(20)]; }
  if (r.chance(0.4)) {
    u += "?";
    int q = (int)r.range(0, 3);
    static const char *qs[] = {"a=1", "b", "", "x%26y", "p/q", "a=%20", "?", "k=v=w", "%3D"};
    for (int i = 0; i < q; i++) { if (i) u += "&"; u += qs[r.below(9)]; }
  }
  return u;
}

std::string mutate_uri(Rng &r, std::string u) {
  if (u.empty()) return u;
  size_t pos = (size_t)r.below(u.size());
  switch ((int)r.below(9)) {
  case 8: {   // damage the scheme: strict prefix, empty, one char too many
    size_t c = u.find("://");
    if (c != std::string::npos) {
      std::string sch = u.substr(0, c);
      int k = (int)r.below(3);
      if (k == 0) sch = sch.substr(0, (size_t)r.below(sch.size()));
      else if (k == 1) sch += "x";
      else sch = sch.substr(0, sch.size() - 1) + "z";
      u = sch + u.substr(c);
    }
    break;
  }
  case 0: u.resize(pos); break;
  case 1: u[pos] = "%/?#:[]@ &=.\x7f"[r.below(14)]; break;
  case 2: u.insert(pos, 1, "%/?#:[]@ &=."[r.below(13)]); break;
  case 3: u.erase(pos, 1); break;
  case 4: u += "%"; break;
  case 5: u += "%4"; break;
  case 6: u += "/%"; break;
  case 7: u.insert(pos, "%zz"); break;
  }
  return u;
}

struct C16 : Property {
  C16() {
    id = "C16";
    technique = "model-based generation inside deterministic simulation runs: URI strings in exact-size heap buffers converted to options by the real client-side helpers and sent over the simulated wire; the server's reconstructed path/query and the options on the wire compared with the RFC 3986 / RFC 7252 6.4-6.5 reference (R10); ASan judges every read";
    rule_text = "plan = 100..300 URI byte strings (grammar-generated over all schemes, reg-name/IPv4/IPv6 hosts, explicit/default ports, segments with percent-escapes, dot segments written literally and percent-encoded, empty segments, reserved characters, queries with empty arguments and escaped '&'; plus single-step mutations: truncation, reserved-character substitution/insertion, dangling '%', '%4', '%zz') and 20..60 segment lists over the full byte alphabet for the reverse direction. Each string / list is one oracle evaluation (probes.uris_judged, probes.lists_judged). Non-trivial: at least one URI rejected by the reference, one with dot segments and one with percent-escapes were seen; distinct = distinct trace hash. Apart from the wire trip of accepted URIs there is no schedule or fault in this property: it is a pure function hosted in the simulator and claimed at exploration level with that note.";
    real_components = {"libcoap: coap_uri.c (coap_split_uri, coap_uri_into_optlist, coap_split_path, coap_split_query, coap_get_uri_path, coap_get_query), coap_option.c (optlist), coap_net.c / coap_resource.c (unknown-resource dispatch sees the reconstructed strings)"};
    stub_components = {"simk UDP", "R10 URI reference"};
    assumptions = {"host case folding, IDNA and Uri-Host/Uri-Port elision rules are not judged (only scheme, port value, path and query decomposition and the reverse composition)",
                   "a '#' fragment makes a CoAP URI invalid (RFC 7252 6.1); URIs with a fragment are generated but reported under their own signature"};
    quick_budget_s = 25;
    thorough_budget_s = 400;
  }

  json generate(uint64_t base, uint64_t index, bool) override {
    Rng r(mix3(base, 0xC16, index));
    json p;
    p["property"] = "C16";
    p["seed"] = base;
    p["index"] = index;
    p["sched_salt"] = r.next() & 0xffffffff;
    json ops = json::array(), lists = json::array();
    int n = (int)r.range(100, 300);
    for (int i = 0; i < n; i++) {
      std::string u = gen_uri(r);
      if (r.chance(0.35)) u = mutate_uri(r, u);
      ops.push_back(hex(S(u)));
    }
    int m = (int)r.range(20, 60);
    for (int i = 0; i < m; i++) {
      json l = json::array();
      int k = (int)r.range(0, 4);
      for (int q = 0; q < k; q++) {
        Bytes s;
        int len = (int)r.range(0, 6);
        for (int z = 0; z < len; z++) s.push_back(r.chance(0.6) ? (uint8_t)("ab/%&?#. =+~"[r.below(12)]) : (uint8_t)r.below(256));
        l.push_back(hex(s));
      }
      lists.push_back(l);
    }
    // output-buffer sweep for coap_split_path / coap_split_query: segment lengths on both sides of the option-header forms
    json splits = json::array();
    int ns = (int)r.range(1, 3);
    for (int i = 0; i < ns; i++) {
      json lens = json::array();
      int k = (int)r.range(1, 3);
      static const int L[] = {0, 1, 2, 11, 12, 13, 14, 100, 267, 268, 269, 270, 300, 777};
      for (int q = 0; q < k; q++) lens.push_back(r.chance(0.8) ? L[r.below(14)] : (int)r.range(0, 400));
      splits.push_back({{"query", r.chance(0.4)}, {"lens", lens}, {"enc", r.chance(0.25)}});
    }
    p["config"] = json::object();
    p["ops"] = ops;
    p["lists"] = lists;
    p["splits"] = splits;
    p["faults"] = json::array();
    return p;
  }
  std::vector<std::string> shrink_keys() override { return {"ops", "lists", "splits"}; }

  void execute(const json &plan, RunResult &res, bool verbose) override {
    C16World cw;
    g = &cw;
    World &w = cw.w;
    w.begin(plan.value("sched_salt", 1ull), &res, verbose, false);
    w.trace_wire = false;
    w.add_node(nullptr);
    w.add_node(nullptr);
    coap_context_t *cctx = cx::new_context(w, 0), *sctx = cx::new_context(w, 1);
    {
      World::AsNode as(1);
      coap_resource_t *u = coap_resource_unknown_init2(hnd_unknown, 0);
      coap_register_request_handler(u, COAP_REQUEST_GET, hnd_unknown);
      coap_add_resource(sctx, u);
    }
    cx::new_endpoint(w, 1, sctx, 5683, COAP_PROTO_UDP);
    coap_session_t *sess = cx::new_client(w, 0, cctx, World::node_addr(1, 5683), COAP_PROTO_UDP);
    std::vector<r1::Msg> wire;
    w.taps.push_back([&](const WireEv &e) {
      if (e.kind != WireEv::SEND || e.from != 0) return;
      r1::Msg m;
      if (r1::decode_udp(e.d->data, m) == r1::ACCEPT && m.code == 1) wire.push_back(m);
    });
    w.pollers.push_back([]() {});
    bool saw_reject = false, saw_dot = false, saw_pct = false;
    size_t idx = 0;
    for (auto &op : plan["ops"]) {
      Bytes in = unhex(op.get<std::string>());
      std::string text(in.begin(), in.end());
      std::string ctx = strfmt("URI #%zu '%s'", idx, text.substr(0, 120).c_str());
      r10::Uri want;
      std::string why;
      bool frag = false;
      bool ok = r10::split_uri(in, want, &why, &frag);
      std::vector<Bytes> wsegs, wq;
      bool pok = ok && r10::path_to_segments(want.path, wsegs, &why) && r10::query_to_segments(want.query, wq, &why);
      if (text.find("/.") != std::string::npos || text.find("%2E") != std::string::npos || text.find("%2e") != std::string::npos) saw_dot = true;
      if (text.find('%') != std::string::npos) saw_pct = true;
      if (!ok) saw_reject = true;
      w.count("probe.uris_judged");
      w.tr.mixbytes(in.data(), in.size());
      coap_uri_t uri;
      int rc;
      coap_optlist_t *ol = nullptr;
      int orc = 0;
      {
        Exact ex(in);
        World::AsNode as(0);
        rc = coap_split_uri(ex.p, ex.n, &uri);
        if (rc == 0) {
          // the older helper pair, as used by applications that build options themselves: exact-size inputs again
          if (uri.path.length < 400 && uri.query.length < 400) {
            Exact pe(Bytes(uri.path.s, uri.path.s + uri.path.length)), qe(Bytes(uri.query.s, uri.query.s + uri.query.length));
            unsigned char sb[4096];
            size_t sl = sizeof sb;
            int np = coap_split_path(pe.p, pe.n, sb, &sl);
            sl = sizeof sb;
            int nq = coap_split_query(qe.p, qe.n, sb, &sl);
            (void)np;
            (void)nq;
            w.count("probe.split_path_query_calls");
          }
          coap_address_t dst;
          World::to_coap_addr(World::node_addr(1, 5683), &dst);
          orc = coap_uri_into_optlist(&uri, &dst, &ol, 1);
          // compare parsed fields while the buffer is alive
          if (ok && !frag && want.scheme != r10::NONE) {   // (a reference without scheme is a path for the default scheme in libcoap's API)
            if ((int)uri.port != want.port) res.violate("R10.port", "port", ctx + strfmt(": port %d, reference %d", (int)uri.port, want.port));
            static const r10::Scheme map[] = {r10::COAP, r10::COAPS, r10::COAP_TCP, r10::COAPS_TCP, r10::HTTP, r10::HTTPS, r10::COAP_WS, r10::COAPS_WS};
            if ((int)uri.scheme < 8 && map[(int)uri.scheme] != want.scheme) res.violate("R10.scheme", "scheme", ctx + strfmt(": scheme %d, reference %s", (int)uri.scheme, r10::scheme_name(want.scheme)));
          }
        }
      }
      bool lib_ok = rc == 0 && orc != 0;
      std::string whycls = why.substr(0, why.find(':'));
      if (frag) {
        if (lib_ok) res.violate("R10.accepts_fragment", "fragment", ctx + ": accepted although a CoAP URI must not carry a fragment (RFC 7252 6.1/6.4 step 4)");
      } else if (!ok || !pok) {
        if (lib_ok) res.violate("R10.accepts_malformed", whycls, ctx + ": accepted, reference rejects: " + why);
      } else if (!lib_ok) {
        size_t auth = text.find("://");
        bool q_after_auth = auth != std::string::npos && text.find('?', auth + 3) != std::string::npos && text.find('/', auth + 3) > text.find('?', auth + 3);
        res.violate("R10.rejects_wellformed", rc != 0 ? (q_after_auth ? "query_directly_after_authority" : "split_uri") : "into_optlist", ctx + strfmt(": rejected (coap_split_uri=%d) although well-formed", rc));
      } else {
        // options derived by libcoap
        std::vector<Bytes> gp, gq;
        for (coap_optlist_t *o = ol; o; o = o->next) {
          if (o->number == COAP_OPTION_URI_PATH) gp.push_back(Bytes(o->data, o->data + o->length));
          if (o->number == COAP_OPTION_URI_QUERY) gq.push_back(Bytes(o->data, o->data + o->length));
        }
        auto show = [](const std::vector<Bytes> &v) { std::string s = "["; for (auto &b : v) s += "'" + std::string(b.begin(), b.end()) + "' "; return s + "]"; };
        if (gp != wsegs) {
          bool dots = false;
          for (auto &s : gp) dots |= (s == S(".") || s == S(".."));
          res.violate("R10.path_options", dots ? "dot_segment_emitted" : (text.find("/.") != std::string::npos || text.find("%2E") != std::string::npos || text.find("%2e") != std::string::npos) ? "with_dot_segments" : "plain",
                      ctx + ": Uri-Path " + show(gp) + " reference " + show(wsegs));
        }
        if (gq != wq) res.violate("R10.query_options", want.query.empty() ? "empty_query" : "query", ctx + ": Uri-Query " + show(gq) + " reference " + show(wq));
        // send it: what the server reconstructs must be the canonical composition of the options on the wire
        if (gp == wsegs && gq == wq && in.size() < 300) {
          World::AsNode as(0);
          coap_pdu_t *p = coap_new_pdu(COAP_MESSAGE_NON, COAP_REQUEST_CODE_GET, sess);
          if (p) {
            uint8_t tok[3] = {0x16, (uint8_t)(idx >> 8), (uint8_t)idx};
            coap_add_token(p, 3, tok);
            coap_add_optlist_pdu(p, &ol);
            size_t before = cw.server_saw.size();
            coap_send(sess, p);
            w.run_for_ms(5);
            if (cw.server_saw.size() == before + 1) {
              std::string wantp = r10::segments_to_path(wsegs), wantq = r10::segments_to_query(wq);
              if (cw.server_saw.back().first != wantp) res.violate("R10.reconstructed_path", "path", ctx + ": server reconstructs '" + cw.server_saw.back().first + "' reference '" + wantp + "'");
              if (cw.server_saw.back().second != wantq) res.violate("R10.reconstructed_query", wantq.find("%26") != std::string::npos ? "ampersand_inside_argument" : "query", ctx + ": server reconstructs query '" + cw.server_saw.back().second + "' reference '" + wantq + "'");
              w.count("probe.wire_trips");
            }
          }
        }
      }
      {
        World::AsNode as(0);
        coap_delete_optlist(ol);
      }
      idx++;
    }
    // reverse direction: segment lists -> options -> reconstructed strings -> split again
    size_t li = 0;
    std::map<std::string, std::vector<Bytes>> seen_paths;
    for (auto &jl : plan["lists"]) {
      std::vector<Bytes> segs;
      for (auto &s : jl) segs.push_back(unhex(s.get<std::string>()));
      w.count("probe.lists_judged");
      World::AsNode as(0);
      coap_pdu_t *p = coap_pdu_init(COAP_MESSAGE_CON, COAP_REQUEST_CODE_GET, 1, 1152);
      if (!p) continue;
      for (auto &s : segs) coap_add_option(p, COAP_OPTION_URI_PATH, s.size(), s.data());
      coap_string_t *ps = coap_get_uri_path(p);
      std::string got = ps ? std::string((const char *)ps->s, ps->length) : "<null>";
      std::vector<Bytes> norm = segs;
      if (norm.size() == 1 && norm[0].empty()) norm.clear();
      std::string want = r10::segments_to_path(norm);
      std::string ctx = strfmt("segment list #%zu", li);
      if (got != want) res.violate("R10.compose_path", "compose", ctx + ": coap_get_uri_path gives '" + got + "' reference '" + want + "'");
      // injectivity over everything seen in this run
      auto it = seen_paths.find(got);
      if (it != seen_paths.end() && it->second != norm) res.violate("R10.not_injective", "path", ctx + ": two different segment lists reconstruct to '" + got + "'");
      seen_paths[got] = norm;
      // feed back
      if (ps && got == want) {
        Exact ex(S(got));
        unsigned char buf[2048];
        size_t bl = sizeof buf;
        int n = coap_split_path(ex.p, ex.n, buf, &bl);
        std::vector<Bytes> back;
        const unsigned char *q = buf;
        for (int k = 0; k < n; k++) {
          back.push_back(Bytes(coap_opt_value(q), coap_opt_value(q) + coap_opt_length(q)));
          q += coap_opt_size(q);
        }
        // dot segments are resolved on the way back: lists containing "." / ".." cannot round-trip and are skipped
        bool has_dots = false;
        for (auto &s : norm) has_dots |= (s == S(".") || s == S(".."));
        if (!has_dots && back != norm && !(norm.empty() && back.size() == 1 && back[0].empty()))
          res.violate("R10.feed_back", "path", ctx + strfmt(": '%s' splits back into %zu segments, expected %zu", got.c_str(), back.size(), norm.size()));
      }
      if (ps) coap_delete_string(ps);
      coap_delete_pdu(p);
      li++;
    }
    // "all output buffer sizes": every size from 0 to what the full result needs + 3, each in an exact-size heap block (ASan sees one
    // byte too many); whatever is returned must lie inside the buffer and be a subsequence of the full result
    for (auto &sp : plan.value("splits", json::array())) {
      bool isq = sp.value("query", false), enc = sp.value("enc", false);
      std::string text;
      int si = 0;
      for (auto &jl : sp["lens"]) {
        if (si) text += isq ? '&' : '/';
        int len = std::max(0, std::min(1000, jl.get<int>()));
        for (int z = 0; z < len; z++) { if (enc && z % 7 == 3) text += strfmt("%%%02X", 0x61 + (si + z) % 26); else text += (char)('a' + (si * 5 + z) % 26); }
        si++;
      }
      Exact in(S(text));
      World::AsNode as(0);
      std::vector<unsigned char> fullbuf(text.size() + 64 + 4 * (size_t)si);
      size_t fl = fullbuf.size();
      int nfull = isq ? coap_split_query(in.p, in.n, fullbuf.data(), &fl) : coap_split_path(in.p, in.n, fullbuf.data(), &fl);
      std::vector<Bytes> full;
      { const unsigned char *q = fullbuf.data(); for (int k = 0; k < nfull; k++) { size_t sz = coap_opt_size(q); full.push_back(Bytes(q, q + sz)); q += sz; } }
      for (size_t k = 0; k <= fl + 3; k++) {
        unsigned char *ob = (unsigned char *)malloc(k ? k : 1);
        size_t bl = k;
        int n = isq ? coap_split_query(in.p, in.n, ob, &bl) : coap_split_path(in.p, in.n, ob, &bl);
        w.count("probe.split_output_sizes_swept");
        std::string ctx2 = strfmt("%s of %zu bytes (%d segments) into a %zu-byte buffer", isq ? "coap_split_query" : "coap_split_path", text.size(), si, k);
        if (bl > k) res.violate("R10.split_buffer", "used_exceeds_buffer", ctx2 + strfmt(": reports %zu bytes used", bl));
        else if (n < 0 || n > nfull) res.violate("R10.split_buffer", "count", ctx2 + strfmt(": returns %d options, the full result has %d", n, nfull));
        else {
          size_t off = 0, fi = 0;
          bool okseq = true;
          for (int j = 0; j < n && okseq; j++) {
            if (off >= bl) { okseq = false; break; }
            size_t room = bl - off, need = 1;
            // header bytes must lie inside the used region before coap_opt_size may look at them
            if ((ob[off] & 0x0f) == 13) need = 2; else if ((ob[off] & 0x0f) == 14) need = 3;
            if (room < need) { okseq = false; break; }
            size_t sz = coap_opt_size(ob + off);
            if (sz == 0 || sz > room) { okseq = false; break; }
            Bytes o(ob + off, ob + off + sz);
            while (fi < full.size() && full[fi] != o) fi++;
            if (fi == full.size()) okseq = false; else fi++;
            off += sz;
          }
          if (!okseq || off != bl) res.violate("R10.split_buffer", "not_a_subsequence", ctx2 + strfmt(": the %d options returned (%zu bytes) are not options of the full result in order", n, bl));
          if (k >= fl && n != nfull) res.violate("R10.split_buffer", "enough_room_but_incomplete", ctx2 + strfmt(": %d of %d options although the full result needs %zu bytes", n, nfull, fl));
        }
        free(ob);
      }
    }
    res.nontrivial = saw_reject && saw_dot && saw_pct;
    {
      World::AsNode as(0);
      coap_session_release(sess);
      coap_free_context(cctx);
    }
    {
      World::AsNode as(1);
      coap_free_context(sctx);
    }
    w.end();
    g = nullptr;
  }
};

struct Reg { Reg() { register_property(new C16()); } } reg;

}  // namespace
