// C06 — Confirmable messages are retransmitted on schedule and end in one outcome.
// World: libcoap client context (node 0, 1..3 sessions sharing one send queue) against a scripted raw peer (node 1).
#include "runner.h"
#include "world.h"
#include "coapx.h"
#include "mon_r3.h"

namespace {

struct C06World {
  World w;
  RunResult *res = nullptr;
  R3Monitor *r3 = nullptr;
  coap_context_t *ctx = nullptr;
  std::vector<coap_session_t *> sess;
  std::vector<int> peer_fd;
  std::vector<int> rx_count;
  json replies;
  coap_session_t *failing = nullptr;     // set while coap_session_disconnected() runs for that session
  std::set<coap_session_t *> failed;
};
C06World *g = nullptr;

void nack_cb(coap_session_t *s, const coap_pdu_t *sent, const coap_nack_reason_t reason, const coap_mid_t mid) {
  g->w.log("NACK sess=%s mid=%04x reason=%d sent=%d", cx::remote_of(s).str().c_str(), (unsigned)mid & 0xffff, (int)reason, sent != nullptr);
  // A NACK without the sent PDU is libcoap's notification of a Reset that matched nothing it tracks (e.g. RST of a NON,
  // or a late RST for a message already concluded); it is not an outcome of a tracked Confirmable and is not judged.
  if (!sent) { g->w.count("probe.nack_unmatched_rst"); return; }
  // COAP_NACK_ICMP_ISSUE is libcoap's report that the network signalled "unreachable" for this session (documented as
  // informational; the message stays queued and goes on being retransmitted): not an outcome either, the exchange must still end
  // in exactly one of ACK / RST / TOO_MANY_RETRIES on the unchanged schedule.
  if (reason == COAP_NACK_ICMP_ISSUE) { g->w.count("probe.nack_icmp_issue"); return; }
  // a request already acknowledged by an Empty ACK that still waits for its response is reported when its session fails: that
  // NACK concerns the pending response, not the concluded transmission
  if (g->failing == s && g->r3->acked(0, s, mid)) { g->w.count("probe.nack_for_pending_response"); return; }
  g->r3->on_nack(0, s, mid, reason);
}
coap_response_t resp_cb(coap_session_t *s, const coap_pdu_t *, const coap_pdu_t *rcv, const coap_mid_t mid) {
  g->w.log("RESP sess=%s mid=%04x code=%d", cx::remote_of(s).str().c_str(), (unsigned)mid & 0xffff, (int)coap_pdu_get_code(rcv));
  return COAP_RESPONSE_OK;
}

struct C06 : Property {
  C06() {
    id = "C06";
    technique = "deterministic simulation: real libcoap client on simulated clock/UDP, scripted raw peer, seeded loss/dup/delay + systematic drop-subset family, wire-level retransmission-clock oracle (R3)";
    rule_text = "plan = transmission parameters x 1..6 CON submissions on 1..3 sessions of one context x peer reply script (ack/rst/none/late/duplicate/foreign) x datagram faults (drop/dup/delay per link index); first 1024 indices enumerate every drop subset of the first 10 datagrams of one exchange. A run is non-trivial when at least one fault or non-default reply fired and at least one retransmission happened; distinct = distinct event-trace hash.";
    real_components = {"libcoap: coap_net.c (send queue, coap_retransmit, coap_dispatch ACK/RST), coap_io.c (coap_io_process, timer arming), coap_session.c, coap_time.c, coap_pdu.c"};
    stub_components = {"simk clock/UDP/epoll/timerfd", "raw peer (harness)", "R1 header decode"};
    assumptions = {"ACK_TIMEOUT and ACK_RANDOM_FACTOR are read back through the public getters; T may deviate from the real-number interval by libcoap's Q6 fixed-point quantisation (<= 9 ms tolerated above, 2 ms below)",
                   "timing is judged on the simulated clock with millisecond ticks; tolerance 2 ms per gap"};
    quick_budget_s = 30;
    thorough_budget_s = 600;
  }
  uint64_t family_size(bool) override { return 1024; }
  std::string family_name() override { return "every drop subset of the first 10 datagrams (both directions) of one CON exchange, peer ACKs every copy"; }

  json generate(uint64_t base, uint64_t index, bool) override {
    Rng r(mix3(base, 0xC06, index));
    json p;
    p["property"] = "C06";
    p["seed"] = base;
    p["index"] = index;
    p["sched_salt"] = r.next() & 0xffffffff;
    json cfg;
    json ops = json::array(), replies = json::array(), faults = json::array();
    if (index < 1024) {
      cfg = {{"at_milli", 2000}, {"rf_milli", 1500}, {"max_rtx", 4}, {"nstart", 1}, {"n_sess", 1}};
      ops.push_back({{"t_ms", 0}, {"sess", 0}});
      for (int b = 0; b < 10; b++)
        if (index >> b & 1) faults.push_back({{"link", "-1>-1"}, {"idx", b}, {"act", "drop"}});
    } else {
      static const int fr[] = {0, 125, 250, 375, 500, 625, 750, 875};
      int at = (int)r.range(1, 8) * 1000 + fr[r.below(8)];
      if (at > 8000) at = 8000;
      if (r.chance(0.15)) at = (int)r.range(1000, 8000);
      int rf = 1000 + 125 * (int)r.range(0, 16);
      if (r.chance(0.15)) rf = (int)r.range(1000, 3000);
      if (r.chance(0.2)) rf = 1000;
      int n_sess = (int)r.range(1, 3);
      cfg = {{"at_milli", at}, {"rf_milli", rf}, {"max_rtx", r.range(1, 6)}, {"nstart", r.range(1, 3)}, {"n_sess", n_sess}};
      bool same_mid = r.chance(0.25);
      int n_ops = (int)r.range(1, 6);
      int base_mid = (int)r.range(1, 0xfff0);
      int per_sess[3] = {0, 0, 0};
      for (int i = 0; i < n_ops; i++) {
        int si = (int)r.below((uint64_t)n_sess);
        json op = {{"t_ms", r.chance(0.3) ? 0 : r.range(0, at * 3)}, {"sess", si}};
        if (same_mid) op["mid"] = base_mid + per_sess[si]++;   // sessions share mids, one session never repeats one
        ops.push_back(op);
      }
      for (int s = 0; s < n_sess; s++)
        for (int k = 0; k < 8; k++) {
          double x = (r.next() >> 11) * (1.0 / 9007199254740992.0);
          if (x < 0.40) replies.push_back({{"sess", s}, {"rx", k}, {"kind", "none"}});
          else if (x < 0.47) replies.push_back({{"sess", s}, {"rx", k}, {"kind", "rst"}, {"delay_us", r.range(0, 50000)}});
          else if (x < 0.62) {
            int64_t d;
            if (rf == 1000 && r.chance(0.5)) d = (int64_t)at * 1000 * (1 << r.below(3)) - 2 * 1000 + r.range(-1500, 1500);   // around a deadline
            else d = r.range(0, (int64_t)at * 3000);
            replies.push_back({{"sess", s}, {"rx", k}, {"kind", "ack"}, {"delay_us", d < 0 ? 0 : d}});
          } else if (x < 0.66) replies.push_back({{"sess", s}, {"rx", k}, {"kind", "ack_dup"}, {"delay_us", r.range(0, 30000)}});
          else if (x < 0.70) replies.push_back({{"sess", s}, {"rx", k}, {"kind", "ack_foreign"}});
          else if (x < 0.73) replies.push_back({{"sess", s}, {"rx", k}, {"kind", "ack_wrong_mid"}});
          else if (x < 0.80) replies.push_back({{"sess", s}, {"rx", k}, {"kind", r.chance(0.5) ? "sep_con" : "sep_non"}, {"delay_us", r.range(0, (int64_t)at * 1500)}});
          else if (x < 0.83) replies.push_back({{"sess", s}, {"rx", k}, {"kind", "non_same_mid"}, {"delay_us", r.range(0, 100000)}});
          else if (x < 0.88) replies.push_back({{"sess", s}, {"rx", k}, {"kind", "icmp"}, {"delay_us", r.range(0, (int64_t)at * 2500)}});
        }
      for (int dir = 0; dir < 2; dir++)
        for (int k = 0; k < 12; k++) {
          double x = (r.next() >> 11) * (1.0 / 9007199254740992.0);
          const char *link = dir ? "1>0" : "0>1";
          if (x < 0.10) faults.push_back({{"link", link}, {"idx", k}, {"act", "drop"}});
          else if (x < 0.15) faults.push_back({{"link", link}, {"idx", k}, {"act", "dup"}, {"n", r.range(1, 2)}, {"delay_us", {r.range(0, 3000000), r.range(0, 100000)}}});
          else if (x < 0.20) faults.push_back({{"link", link}, {"idx", k}, {"act", "delay"}, {"delay_us", {r.range(0, (int64_t)at * 2000)}}});
        }
    }
    // "several messages and sessions sharing one send queue": a session of the context may fail (the application, or a transport
    // layer, calls coap_session_disconnected) while the others still have Confirmables queued - theirs stay on schedule
    json fails = json::array();
    if (index >= 1024 && cfg.value("n_sess", 1) > 1 && r.chance(0.3))
      fails.push_back({{"t_ms", r.chance(0.5) ? r.range(0, 3000) : r.range(3000, (int64_t)cfg.value("at_milli", 2000) * 6)}, {"sess", r.below((uint64_t)cfg.value("n_sess", 1))}});
    p["fails"] = fails;
    // A fifth of the random plans put libcoap in the server role: the Confirmable is a notification that libcoap creates itself
    // inside its I/O loop (one observer, one change per exchange), subject to the same schedule, outcome and wake-up rules.
    if (index >= 1024 && r.chance(0.2)) {
      cfg["role"] = "server";
      cfg["n_sess"] = 1;
      json nops = json::array();
      int64_t t = 100;
      int k = (int)r.range(1, 3);
      for (int i = 0; i < k; i++) { nops.push_back({{"t_ms", t}, {"sess", 0}}); t += 400000; }   // far apart: one notification outstanding at a time
      ops = nops;
    }
    p["config"] = cfg;
    p["ops"] = ops;
    p["replies"] = replies;
    p["faults"] = faults;
    return p;
  }

  std::vector<std::string> shrink_keys() override { return {"faults", "replies", "ops", "fails"}; }

  static void hnd_obs(coap_resource_t *, coap_session_t *, const coap_pdu_t *, const coap_string_t *, coap_pdu_t *response) {
    coap_pdu_set_code(response, COAP_RESPONSE_CODE_CONTENT);
    coap_add_data(response, 2, (const uint8_t *)"ok");
  }

  void execute_server(const json &plan, RunResult &res, bool verbose) {
    C06World cw;
    g = &cw;
    cw.res = &res;
    World &w = cw.w;
    w.begin(plan.value("sched_salt", 1ull), &res, verbose, false);
    w.max_sim_ns = 60000ull * 1000000000ull;
    simk::K().icmp_recv_only = true;
    R3Monitor r3(w, res);
    cw.r3 = &r3;
    const json &cfg = plan["config"];
    w.add_node(nullptr);   // 0: libcoap server
    w.add_node(nullptr);   // 1: raw observer
    cw.ctx = cx::new_context(w, 0);
    coap_resource_t *obs = nullptr;
    {
      World::AsNode as(0);
      coap_register_nack_handler(cw.ctx, nack_cb);
      obs = coap_resource_init(coap_make_str_const("o"), COAP_RESOURCE_FLAGS_NOTIFY_CON);
      coap_register_request_handler(obs, COAP_REQUEST_GET, hnd_obs);
      coap_resource_set_get_observable(obs, 1);
      coap_add_resource(cw.ctx, obs);
      // the transmission parameters of server sessions are the defaults unless set on the session: set them when it appears
    }
    static const json *s_cfg;
    s_cfg = &cfg;
    static R3Monitor *s_r3;
    s_r3 = &r3;
    coap_register_event_handler(cw.ctx, [](coap_session_t *s, const coap_event_t ev) -> int {
      if (ev != COAP_EVENT_SERVER_SESSION_NEW) return 0;
      cx::set_fixed(s, coap_session_set_ack_timeout, s_cfg->value("at_milli", 2000));
      cx::set_fixed(s, coap_session_set_ack_random_factor, s_cfg->value("rf_milli", 1500));
      coap_session_set_max_retransmit(s, (uint16_t)s_cfg->value("max_rtx", 4));
      s_r3->set_params_from_session(0, s);
      return 0;
    });
    cx::new_endpoint(w, 0, cw.ctx, 5683, COAP_PROTO_UDP);
    for (auto &f : plan["faults"]) w.faults.push_back(f.get<Fault>());
    cw.replies = plan.value("replies", json::array());
    r3.watch(0, R3Monitor::Params());
    r3.attach();
    simk::Addr pa = World::node_addr(1, 5683);
    int pfd = simk::raw_udp_socket(1, pa);
    int rx = 0;
    w.nodes[0].after_step = [&]() { r3.check_wait(0); };
    w.pollers.push_back([&]() {
      simk::Datagram d;
      while (simk::raw_recv(pfd, d)) {
        if (d.data.size() < 4) continue;
        int type = (d.data[0] >> 4) & 3, mid = d.data[2] << 8 | d.data[3];
        if (type != 0) continue;     // only Confirmable notifications are answered (the registration's piggybacked response is an ACK)
        int k = rx++;
        std::string kind = "ack";
        int64_t delay = 0;
        for (auto &rp : cw.replies)
          if (rp.value("sess", 0) == 0 && rp.value("rx", 0) == k) { kind = rp.value("kind", "ack"); delay = rp.value("delay_us", (int64_t)0); w.count("fault.reply_" + kind); break; }
        simk::Addr to = d.src;
        auto send = [&w, to, pfd](int t, int m, int64_t dl) {
          Bytes b = {(uint8_t)(0x40 | t << 4), 0, (uint8_t)(m >> 8), (uint8_t)m};
          w.after_us(dl, [pfd, to, b]() { simk::raw_sendto(pfd, to, b); });
        };
        if (kind == "icmp") { simk::Datagram copy = d; w.after_us(delay, [copy]() { simk::deliver_icmp_unreach(copy); }); }
        else if (kind == "ack") send(2, mid, delay);
        else if (kind == "rst") send(3, mid, delay);
        else if (kind == "ack_dup") { send(2, mid, delay); send(2, mid, delay + 700); }
        else if (kind == "ack_wrong_mid") send(2, (mid + 1) & 0xffff, delay);
        // every other scripted kind: no reply
      }
    });
    // registration
    {
      r1::Msg reg;
      reg.type = 0;
      reg.code = 1;
      reg.mid = 0x1000;
      reg.token = {0xC0, 0x06, 0x5E};
      reg.opts.push_back({r1::O_OBSERVE, {}});
      reg.opts.push_back({r1::O_URI_PATH, Bytes{'o'}});
      simk::raw_sendto(pfd, World::node_addr(0, 5683), r1::encode_udp(reg));
    }
    for (auto &op : plan["ops"])
      w.at_ns(w.now() + (uint64_t)op.value("t_ms", 100) * 1000000ull, [&]() {
        coap_resource_notify_observers(obs, nullptr);
        w.count("probe.server_role_notify");
        w.log("NOTIFY");
      }, 0);
    w.run();
    if (w.aborted) res.violate("M-live.abort", w.abort_why, "run did not quiesce: " + w.abort_why);
    else r3.finish();
    res.nontrivial = res.counters.count("probe.retransmission") && (!plan["faults"].empty() || !cw.replies.empty());
    {
      World::AsNode as(0);
      coap_free_context(cw.ctx);
    }
    w.end();
    g = nullptr;
  }

  void execute(const json &plan, RunResult &res, bool verbose) override {
    if (plan["config"].value("role", "client") == "server") { execute_server(plan, res, verbose); return; }
    C06World cw;
    g = &cw;
    cw.res = &res;
    World &w = cw.w;
    w.begin(plan.value("sched_salt", 1ull), &res, verbose, false);
    w.max_sim_ns = 60000ull * 1000000000ull;
    simk::K().icmp_recv_only = true;
    R3Monitor r3(w, res);
    cw.r3 = &r3;
    const json &cfg = plan["config"];
    int n_sess = cfg.value("n_sess", 1);
    w.add_node(nullptr);   // 0: client
    w.add_node(nullptr);   // 1: raw peer
    cw.ctx = cx::new_context(w, 0);
    coap_register_nack_handler(cw.ctx, nack_cb);
    coap_register_response_handler(cw.ctx, resp_cb);
    for (auto &f : plan["faults"]) w.faults.push_back(f.get<Fault>());
    cw.replies = plan.value("replies", json::array());
    r3.watch(0, R3Monitor::Params());
    r3.attach();
    for (int i = 0; i < n_sess; i++) {
      simk::Addr pa = World::node_addr(1, (uint16_t)(5683 + i));
      cw.peer_fd.push_back(simk::raw_udp_socket(1, pa));
      cw.rx_count.push_back(0);
      coap_session_t *s = cx::new_client(w, 0, cw.ctx, pa, COAP_PROTO_UDP);
      cx::set_fixed(s, coap_session_set_ack_timeout, cfg.value("at_milli", 2000));
      cx::set_fixed(s, coap_session_set_ack_random_factor, cfg.value("rf_milli", 1500));
      coap_session_set_max_retransmit(s, (uint16_t)cfg.value("max_rtx", 4));
      coap_session_set_nstart(s, (uint16_t)cfg.value("nstart", 1));
      r3.set_params_from_session(0, s);
      cw.sess.push_back(s);
    }
    int foreign_fd = simk::raw_udp_socket(1, World::node_addr(1, 7000));
    w.nodes[0].after_step = [&]() { r3.check_wait(0); };
    // raw peer behaviour
    w.pollers.push_back([&]() {
      for (size_t i = 0; i < cw.peer_fd.size(); i++) {
        simk::Datagram d;
        while (simk::raw_recv(cw.peer_fd[i], d)) {
          int k = cw.rx_count[i]++;
          if (d.data.size() < 4) continue;
          int type = (d.data[0] >> 4) & 3, mid = d.data[2] << 8 | d.data[3];
          if (type != 0) continue;
          std::string kind = "ack";
          int64_t delay = 0;
          for (auto &rp : cw.replies)
            if (rp.value("sess", 0) == (int)i && rp.value("rx", 0) == k) { kind = rp.value("kind", "ack"); delay = rp.value("delay_us", (int64_t)0); w.count("fault.reply_" + kind); break; }
          if (kind == "none") continue;
          int fd = cw.peer_fd[i];
          simk::Addr to = d.src;
          auto send = [&w, to](int from_fd, int t, int m, int64_t dl) {
            Bytes b = {(uint8_t)(0x40 | t << 4), 0, (uint8_t)(m >> 8), (uint8_t)m};
            w.after_us(dl, [from_fd, to, b]() { simk::raw_sendto(from_fd, to, b); });
          };
          if (kind == "sep_con" || kind == "sep_non") {
            // separate response without a preceding empty ACK: echoes the request's token
            r1::Msg rq, rs;
            if (r1::decode_udp(d.data, rq) != r1::ACCEPT) continue;
            rs.type = kind == "sep_con" ? 0 : 1;
            rs.code = 0x45;
            rs.mid = (0x7000 + k + 64 * (int)i) & 0xffff;
            rs.token = rq.token;
            rs.payload = {'o', 'k'};
            Bytes b = r1::encode_udp(rs);
            w.after_us(delay, [fd, to, b]() { simk::raw_sendto(fd, to, b); });
            continue;
          }
          if (kind == "non_same_mid") {
            // the peer's own Non-confirmable message (its message ids are an independent number space) happens to carry
            // the same message id as our Confirmable: it must not conclude anything
            r1::Msg nm;
            nm.type = 1;
            nm.code = 0x45;
            nm.mid = mid;
            nm.token = {0x99, (uint8_t)k};
            nm.payload = {'z'};
            Bytes b = r1::encode_udp(nm);
            w.after_us(delay, [fd, to, b]() { simk::raw_sendto(fd, to, b); });
            continue;
          }
          if (kind == "icmp") {
            // nothing listens for this datagram after all (the peer process is restarting): the network answers with ICMP port
            // unreachable, which the client's connected socket reports as ECONNREFUSED on its next read
            simk::Datagram copy = d;
            w.after_us(delay, [copy]() { simk::deliver_icmp_unreach(copy); });
            continue;
          }
          if (kind == "ack") send(fd, 2, mid, delay);
          else if (kind == "rst") send(fd, 3, mid, delay);
          else if (kind == "ack_dup") { send(fd, 2, mid, delay); send(fd, 2, mid, delay + 700); }
          else if (kind == "ack_foreign") send(foreign_fd, 2, mid, delay);       // right mid, wrong peer: must not conclude anything
          else if (kind == "ack_wrong_mid") send(fd, 2, (mid + 1) & 0xffff, delay);
        }
      }
      simk::Datagram junk;
      while (simk::raw_recv(foreign_fd, junk)) {}
    });
    for (auto &f : plan.value("fails", json::array())) {
      int si = f.value("sess", 0) % n_sess;
      w.at_ns(w.now() + (uint64_t)f.value("t_ms", 0) * 1000000ull + 1, [&cw, &w, si]() {
        coap_session_t *s = cw.sess[(size_t)si];
        if (cw.failed.count(s)) return;
        cw.failed.insert(s);
        w.count("fault.session_failed");
        w.log("FAIL session %d", si);
        cw.failing = s;
        coap_session_disconnected(s, COAP_NACK_NOT_DELIVERABLE);
        cw.failing = nullptr;
      }, 0);
    }
    // workload
    int opn = 0;
    for (auto &op : plan["ops"]) {
      int si = op.value("sess", 0) % n_sess;
      int my = opn++;
      json o = op;
      w.at_ns(w.now() + (uint64_t)op.value("t_ms", 0) * 1000000ull, [&cw, &w, si, my, o]() {
        coap_session_t *s = cw.sess[(size_t)si];
        coap_pdu_t *p = coap_new_pdu(COAP_MESSAGE_CON, COAP_REQUEST_CODE_GET, s);
        if (!p) return;
        if (o.contains("mid")) coap_pdu_set_mid(p, (coap_mid_t)o["mid"].get<int>());
        uint8_t tok[4] = {0xC0, 0x06, (uint8_t)si, (uint8_t)my};
        coap_add_token(p, 4, tok);
        coap_add_option(p, COAP_OPTION_URI_PATH, 1, (const uint8_t *)"x");
        coap_mid_t mid = coap_send(s, p);
        w.log("SEND op=%d sess=%d mid=%04x", my, si, (unsigned)mid & 0xffff);
      }, 0);
    }
    bool ok = w.run();
    if (!ok && !w.aborted) {}
    if (w.aborted) res.violate("M-live.abort", w.abort_why, "run did not quiesce: " + w.abort_why);
    else r3.finish();
    res.nontrivial = res.counters.count("probe.retransmission") && (!plan["faults"].empty() || !cw.replies.empty());
    {
      World::AsNode as(0);
      for (auto *s : cw.sess) coap_session_release(s);
      coap_free_context(cw.ctx);
    }
    w.end();
    g = nullptr;
  }
};

struct Reg { Reg() { register_property(new C06()); } } reg;

}  // namespace
