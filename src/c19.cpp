// C19 — (D)TLS sessions exchange application data only after an authenticated handshake.
// World: libcoap client (node 1) <-> libcoap server (node 0) over DTLS (simulated UDP) or TLS (simulated TCP) with the real
// GnuTLS, PSK credentials from a generated matrix; requests with a canary payload are queued before / during the handshake;
// loss / duplication / delay of datagrams; an attacker (node 2, and spoofing the client's address) injects cleartext CoAP.
#include "runner.h"
#include "world.h"
#include "coapx.h"
#include <sys/wait.h>
#include <unistd.h>

namespace {

struct Req {
  Bytes token;
  bool con = true;
  int64_t t_ms = 0;
  int handled = 0, responses = 0, nacks = 0;
  bool submitted = false;
};

struct C19World {
  World w;
  RunResult *res = nullptr;
  bool should_establish = false;
  std::string why_not;
  // server key table
  std::vector<std::pair<Bytes, Bytes>> table;
  Bytes hint, default_key;
  // client
  Bytes identity, key, accept_hint;   // accept_hint: the client's callback only accepts this hint (empty = any)
  bool hint_cb = false;
  coap_dtls_cpsk_info_t cinfo{};
  coap_bin_const_t srv_key{};
  std::vector<Req> reqs;
  std::vector<int> server_order, submit_order;
  int connected_events[2] = {0, 0};
  int attacker_handled = 0;
  bool released = false;
};
C19World *g = nullptr;

Bytes canary(int i) { Bytes b = {'C', 'A', 'N', 'A', 'R', 'Y', '-', 's', 'e', 'c', 'r', 'e', 't', '-', (uint8_t)('0' + i), '!'}; return b; }

int req_index(const Bytes &tok) { return tok.size() == 3 && tok[0] == 0xC1 && tok[1] == 0x90 ? tok[2] : -1; }

void hnd(coap_resource_t *, coap_session_t *, const coap_pdu_t *request, const coap_string_t *, coap_pdu_t *response) {
  Bytes tok = cx::tok_of(request);
  int i = req_index(tok);
  g->w.log("SERVER-HANDLER tok=%s", hex(tok).c_str());
  if (i >= 0 && i < (int)g->reqs.size()) { g->reqs[(size_t)i].handled++; g->server_order.push_back(i); }
  else g->attacker_handled++;
  if (!g->should_establish) g->res->violate("T.handler_without_authentication", "server_request_handler," + g->why_not, strfmt("the server's request handler ran (token %s) although the credentials do not match (%s)", hex(tok).c_str(), g->why_not.c_str()));
  else if (i < 0) g->res->violate("T.cleartext_accepted", "server_request_handler", strfmt("the server's request handler ran for a cleartext datagram injected at the (D)TLS endpoint (token %s)", hex(tok).c_str()));
  coap_pdu_set_code(response, COAP_RESPONSE_CODE_CONTENT);
  Bytes c = canary(9);
  coap_add_data(response, c.size(), c.data());
}

coap_response_t resp_cb(coap_session_t *, const coap_pdu_t *, const coap_pdu_t *rcv, const coap_mid_t) {
  Bytes tok = cx::tok_of(rcv);
  int i = req_index(tok);
  g->w.log("CLIENT-RESPONSE tok=%s code=%d", hex(tok).c_str(), (int)coap_pdu_get_code(rcv));
  if (i >= 0 && i < (int)g->reqs.size()) g->reqs[(size_t)i].responses++;
  if (!g->should_establish) g->res->violate("T.handler_without_authentication", "client_response_handler," + g->why_not, strfmt("the client's response handler ran (token %s) although the credentials do not match (%s)", hex(tok).c_str(), g->why_not.c_str()));
  else if (i < 0) g->res->violate("T.cleartext_accepted", "client_response_handler", strfmt("the client's response handler ran for a message that was never sent under (D)TLS (token %s)", hex(tok).c_str()));
  return COAP_RESPONSE_OK;
}

void nack_cb(coap_session_t *, const coap_pdu_t *sent, const coap_nack_reason_t reason, const coap_mid_t) {
  if (!sent) return;
  Bytes tok = cx::tok_of(sent);
  int i = req_index(tok);
  g->w.log("CLIENT-NACK tok=%s reason=%d", hex(tok).c_str(), (int)reason);
  if (i >= 0 && i < (int)g->reqs.size()) g->reqs[(size_t)i].nacks++;
}

int ev_server(coap_session_t *, const coap_event_t ev) {
  if (ev == COAP_EVENT_DTLS_CONNECTED) { g->connected_events[0]++; g->w.log("SERVER-EVENT connected"); }
  return 0;
}
int ev_client(coap_session_t *, const coap_event_t ev) {
  if (ev == COAP_EVENT_DTLS_CONNECTED) { g->connected_events[1]++; g->w.log("CLIENT-EVENT connected"); }
  return 0;
}

const coap_bin_const_t *id_cb(coap_bin_const_t *identity, coap_session_t *, void *) {
  Bytes id(identity->s, identity->s + identity->length);
  for (auto &e : g->table)
    if (e.first == id) { g->srv_key.s = e.second.data(); g->srv_key.length = e.second.size(); return &g->srv_key; }
  return nullptr;
}

const coap_dtls_cpsk_info_t *ih_cb(coap_str_const_t *hint, coap_session_t *, void *) {
  Bytes h(hint->s, hint->s + hint->length);
  if (!g->accept_hint.empty() && h != g->accept_hint) return nullptr;
  return &g->cinfo;
}

struct C19 : Property {
  C19() {
    id = "C19";
    technique = "deterministic simulation with fault injection: real libcoap client and server with the real GnuTLS (DTLS over simulated UDP, TLS over simulated TCP; GnuTLS randomness and clocks from the simulator), PSK credential matrix, requests with canary payloads queued before and during the handshake, loss/duplication/delay of every datagram, cleartext CoAP injected at both (D)TLS endpoints (also from the client's own address); handlers, events, NACKs and every byte on the wire checked";
    rule_text = "plan = transport DTLS|TLS x server key table (1-3 identities) + hint x client credentials in relation {equal, other key of same length, shorter, longer, prefix of the right key, right key + suffix, unknown identity, identity differing in case/length, hint rejected by the client's callback} x SNI on/off x 0-5 CON/NON requests queued at 0..3000 ms x drop/dup/delay faults on the first 30 datagrams per direction (DTLS) x 0-3 injected cleartext datagrams x session release at a generated instant in some plans. Non-trivial: credentials differ or a fault/injection hit during the handshake; distinct = distinct trace hash.";
    real_components = {"libcoap coap_gnutls.c (PSK callbacks, handshake driving, timers), coap_session.c (delay queue, connected/disconnected/failed paths), coap_net.c; GnuTLS 3.7 itself"};
    stub_components = {"simk clock/UDP/TCP, getrandom() and time() served by the simulator"};
    assumptions = {"with matching credentials and any fault, a Confirmable request may legitimately end in a NACK (handshake or exchange given up); order and exactly-once are only judged in plans without faults and injections",
                   "the canary is a 16-byte application payload; it must never appear in any datagram/segment on the wire"};
    quick_budget_s = 40;
    thorough_budget_s = 600;
    run_timeout_s = 120;
  }

  json generate(uint64_t base, uint64_t index, bool) override {
    Rng r(mix3(base, 0xC19, index));
    json p;
    p["property"] = "C19";
    p["seed"] = base;
    p["index"] = index;
    p["sched_salt"] = r.next() & 0xffffffff;
    bool tls = r.chance(0.25);
    p["tls"] = tls;
    int nid = (int)r.range(1, 3);
    json table = json::array();
    std::vector<std::pair<std::string, Bytes>> tb;
    static const char *const ids[] = {"client-a", "sensor42", "Bob"};
    for (int i = 0; i < nid; i++) {
      Bytes k((size_t)r.range(4, 32));
      for (auto &b : k) b = (uint8_t)r.range(1, 255);
      tb.push_back({ids[i], k});
      table.push_back({{"id", ids[i]}, {"key", hex(k)}});
    }
    p["table"] = table;
    p["hint"] = r.chance(0.7) ? "hint-1" : "";
    static const char *const rels[] = {"equal", "equal", "equal", "other_key", "shorter", "longer", "prefix", "suffix", "unknown_identity", "identity_case", "hint_rejected", "one_bit"};
    std::string rel = rels[r.below(12)];
    auto &pick = tb[r.below(tb.size())];
    std::string cid = pick.first;
    Bytes ck = pick.second;
    if (rel == "other_key") { for (auto &b : ck) b = (uint8_t)r.range(1, 255); if (ck == pick.second) ck[0] ^= 1; }
    else if (rel == "shorter" || rel == "prefix") ck.resize(std::max<size_t>(1, ck.size() - (size_t)r.range(1, 3)));
    else if (rel == "longer" || rel == "suffix") ck.push_back((uint8_t)r.range(1, 255));
    else if (rel == "one_bit") ck[r.below(ck.size())] ^= (uint8_t)(1u << r.below(7));
    else if (rel == "unknown_identity") cid = "stranger";
    else if (rel == "identity_case") cid = cid == "Bob" ? "bob" : cid + "x";
    if (rel == "one_bit" && ck == pick.second) ck[0] ^= 2;
    for (auto &b : ck) if (b == 0) b = 1;
    p["client"] = {{"id", cid}, {"key", hex(ck)}, {"rel", rel}, {"hint_cb", rel == "hint_rejected" || r.chance(0.3)}, {"accept_hint", rel == "hint_rejected" ? "some-other-hint" : (r.chance(0.5) ? "" : p["hint"].get<std::string>())}, {"sni", r.chance(0.3) ? "srv.example" : ""}};
    if (rel == "hint_rejected" && p["hint"].get<std::string>().empty()) p["hint"] = "hint-1";
    json reqs = json::array();
    int n = (int)r.range(0, 5);
    for (int i = 0; i < n; i++) reqs.push_back({{"t_ms", r.chance(0.5) ? 0 : r.range(0, 3000)}, {"con", r.chance(0.7)}});
    p["reqs"] = reqs;
    json faults = json::array();
    if (!tls && r.chance(0.6))
      for (int dir = 0; dir < 2; dir++)
        for (int k = 0; k < 30; k++) {
          if (!r.chance(0.08)) continue;
          std::string link = dir ? "0>1" : "1>0";
          double x = (r.next() >> 11) * (1.0 / 9007199254740992.0);
          if (x < 0.5) faults.push_back({{"link", link}, {"idx", k}, {"act", "drop"}});
          else if (x < 0.8) faults.push_back({{"link", link}, {"idx", k}, {"act", "dup"}, {"n", 1}, {"delay_us", {r.range(0, 2000000)}}});
          else faults.push_back({{"link", link}, {"idx", k}, {"act", "delay"}, {"delay_us", {r.range(0, 2000000)}}});
        }
    p["faults"] = faults;
    json inj = json::array();
    int ni = tls ? 0 : (r.chance(0.5) ? (int)r.range(1, 3) : 0);
    for (int i = 0; i < ni; i++) inj.push_back({{"t_ms", r.range(0, 4000)}, {"to", r.chance(0.7) ? "server" : "client"}, {"spoof", r.chance(0.6)}, {"kind", r.chance(0.7) ? "get" : (r.chance(0.5) ? "response" : "junk")}});
    p["inject"] = inj;
    if (r.chance(0.15)) p["release_ms"] = r.range(0, 5000);
    return p;
  }

  // GnuTLS keeps process-wide state (its DRBG, lazily seeded from getrandom()) that cannot be reset between runs, so every
  // run gets a process of its own: the child starts from the worker's never-used GnuTLS, which makes a run a function of its
  // plan only - in a batch, in the re-execution check and in a fresh-process replay alike.
  void execute(const json &plan, RunResult &res, bool verbose) override {
    int pfd[2];
    if (pipe(pfd) != 0) { res.violate("M-machinery", "pipe", "pipe() failed"); return; }
    fflush(stdout);
    fflush(stderr);
    pid_t pid = fork();
    if (pid == 0) {
      close(pfd[0]);
      RunResult r;
      execute_here(plan, r, verbose);
      json j;
      j["violations"] = r.violations;
      j["trace_hash"] = r.trace_hash;
      j["events"] = r.events;
      j["sim_us"] = r.sim_us;
      j["nontrivial"] = r.nontrivial;
      j["counters"] = r.counters;
      j["log"] = r.log;
      std::string out = j.dump(-1, ' ', false, json::error_handler_t::replace);
      size_t off = 0;
      while (off < out.size()) { ssize_t n = write(pfd[1], out.data() + off, out.size() - off); if (n <= 0) break; off += (size_t)n; }
      fflush(stdout);
      _exit(0);
    }
    close(pfd[1]);
    std::string in;
    char buf[65536];
    ssize_t n;
    while ((n = read(pfd[0], buf, sizeof buf)) > 0) in.append(buf, (size_t)n);
    close(pfd[0]);
    int st = 0;
    while (waitpid(pid, &st, 0) < 0 && errno == EINTR) {}
    if (!WIFEXITED(st) || WEXITSTATUS(st) != 0) {
      // the run died (sanitizer report is on stderr): die the same way so that the runner records the crash
      fflush(stderr);
      if (WIFSIGNALED(st)) { signal(WTERMSIG(st), SIG_DFL); raise(WTERMSIG(st)); }
      _exit(WIFEXITED(st) ? WEXITSTATUS(st) : 70);
    }
    try {
      json j = json::parse(in);
      res.violations = j["violations"].get<std::vector<Violation>>();
      res.trace_hash = j["trace_hash"].get<uint64_t>();
      res.events = j["events"].get<uint64_t>();
      res.sim_us = j["sim_us"].get<uint64_t>();
      res.nontrivial = j["nontrivial"].get<bool>();
      res.counters = j["counters"].get<Counters>();
      res.log = j["log"].get<std::vector<std::string>>();
    } catch (...) { res.violate("M-machinery", "result_pipe", "could not read the result of the isolated run"); }
  }

  void execute_here(const json &plan, RunResult &res, bool verbose) {
    C19World cw;
    g = &cw;
    cw.res = &res;
    World &w = cw.w;
    w.begin(plan.value("sched_salt", 1ull), &res, verbose, false);
    w.max_sim_ns = 2000ull * 1000000000ull;
    bool tls = plan.value("tls", false);
    coap_proto_t proto = tls ? COAP_PROTO_TLS : COAP_PROTO_DTLS;
    for (auto &e : plan["table"]) { std::string i = e.value("id", std::string("x")); cw.table.push_back({Bytes(i.begin(), i.end()), unhex(e.value("key", std::string("01")))}); }
    if (cw.table.empty()) cw.table.push_back({Bytes{'x'}, Bytes{1, 2, 3, 4}});
    { std::string h = plan.value("hint", std::string()); cw.hint = Bytes(h.begin(), h.end()); }
    const json &cj = plan["client"];
    { std::string i = cj.value("id", std::string("x")); cw.identity = Bytes(i.begin(), i.end()); }
    cw.key = unhex(cj.value("key", std::string("01")));
    cw.hint_cb = cj.value("hint_cb", false);
    { std::string a = cj.value("accept_hint", std::string()); cw.accept_hint = Bytes(a.begin(), a.end()); }
    std::string sni = cj.value("sni", std::string());
    // ground truth
    cw.should_establish = false;
    cw.why_not = "identity_unknown";
    for (auto &e : cw.table) if (e.first == cw.identity) { cw.should_establish = e.second == cw.key; cw.why_not = cw.should_establish ? "" : "key_differs"; }
    if (cw.hint_cb && !cw.accept_hint.empty() && cw.accept_hint != cw.hint && !cw.hint.empty()) { cw.should_establish = false; cw.why_not = "hint_rejected"; }
    // (a client whose callback is never called because the server sends no hint uses its configured credentials)
    w.add_node(nullptr);
    w.add_node(nullptr);
    w.add_node(nullptr);   // attacker
    coap_context_t *sctx = cx::new_context(w, 0);
    {
      World::AsNode as(0);
      coap_dtls_spsk_t sp;
      memset(&sp, 0, sizeof sp);
      sp.version = COAP_DTLS_SPSK_SETUP_VERSION;
      sp.validate_id_call_back = id_cb;
      sp.psk_info.hint.s = cw.hint.data();
      sp.psk_info.hint.length = cw.hint.size();
      cw.default_key = cw.table[0].second;
      sp.psk_info.key.s = cw.default_key.data();
      sp.psk_info.key.length = cw.default_key.size();
      if (!coap_context_set_psk2(sctx, &sp)) w.count("probe.server_psk_refused");
      coap_register_event_handler(sctx, ev_server);
      coap_resource_t *r = coap_resource_init(coap_make_str_const("r"), 0);
      coap_register_request_handler(r, COAP_REQUEST_GET, hnd);
      coap_register_request_handler(r, COAP_REQUEST_PUT, hnd);
      coap_add_resource(sctx, r);
    }
    cx::new_endpoint(w, 0, sctx, 5684, proto);
    coap_context_t *cctx = cx::new_context(w, 1);
    coap_session_t *sess = nullptr;
    {
      World::AsNode as(1);
      coap_register_response_handler(cctx, resp_cb);
      coap_register_nack_handler(cctx, nack_cb);
      coap_register_event_handler(cctx, ev_client);
      coap_dtls_cpsk_t cp;
      memset(&cp, 0, sizeof cp);
      cp.version = COAP_DTLS_CPSK_SETUP_VERSION;
      cw.cinfo.identity.s = cw.identity.data();
      cw.cinfo.identity.length = cw.identity.size();
      cw.cinfo.key.s = cw.key.data();
      cw.cinfo.key.length = cw.key.size();
      cp.psk_info = cw.cinfo;
      if (cw.hint_cb) cp.validate_ih_call_back = ih_cb;
      // (libcoap's GnuTLS backend reads client_sni again when the TLS session is set up after the TCP connect, i.e. after
      //  coap_new_client_session_psk2() has returned, although the header only asks for validity during the call)
      cp.client_sni = sni.empty() ? nullptr : &sni[0];
      coap_address_t a;
      World::to_coap_addr(World::node_addr(0, 5684), &a);
      sess = coap_new_client_session_psk2(cctx, nullptr, &a, proto, &cp);
    }
    if (!sess) w.count("probe.client_session_refused");
    // session state, looked at after every I/O pass (the GnuTLS backend raises no DTLS-connected event for datagram sessions)
    bool est[2] = {false, false};
    w.nodes[1].after_step = [&]() { if (sess && !cw.released && coap_session_get_state(sess) == COAP_SESSION_STATE_ESTABLISHED) est[1] = true; };
    simk::Addr seen_client{};
    bool have_seen_client = false;
    w.taps.push_back([&](const WireEv &e) { if (e.kind == WireEv::SEND && e.from == 1 && !have_seen_client) { seen_client = e.d->src; have_seen_client = true; } });
    w.nodes[0].after_step = [&]() {
      if (!have_seen_client) return;
      coap_address_t a;
      World::to_coap_addr(seen_client, &a);
      coap_session_t *ss = coap_session_get_by_peer(sctx, &a, 0);
      if (ss && coap_session_get_state(ss) == COAP_SESSION_STATE_ESTABLISHED) est[0] = true;
    };
    for (auto &f : plan["faults"]) w.faults.push_back(f.get<Fault>());
    bool fault_free = plan["faults"].empty() && plan["inject"].empty() && !plan.contains("release_ms");
    // every byte on the wire: no canary, no parsable cleartext CoAP carrying one of our tokens
    auto inspect = [&](const Bytes &data, const char *what) {
      for (int i = 0; i <= 9; i++) {
        Bytes c = canary(i);
        if (std::search(data.begin(), data.end(), c.begin(), c.begin() + 14) != data.end()) {
          res.violate("T.cleartext_on_wire", cw.should_establish ? "credentials_match" : cw.why_not, strfmt("application payload (canary) is readable in a %s on the wire", what));
          return;
        }
      }
    };
    w.taps.push_back([&](const WireEv &e) {
      if (e.kind != WireEv::SEND || e.from > 1) return;
      inspect(e.d->data, "datagram");
      r1::Msg m;
      if (r1::decode_udp(e.d->data, m) == r1::ACCEPT && req_index(m.token) >= 0)
        res.violate("T.cleartext_on_wire", "coap_message_with_application_token", "a cleartext CoAP message with an application token left a (D)TLS endpoint: " + m.str());
    });
    w.stream_taps.push_back([&](int, int, const Bytes &b) { inspect(b, "TCP segment"); });
    // requests
    int k = 0;
    for (auto &rq : plan["reqs"]) {
      Req q;
      q.token = {0xC1, 0x90, (uint8_t)k};
      q.con = rq.value("con", true);
      q.t_ms = rq.value("t_ms", (int64_t)0);
      cw.reqs.push_back(q);
      k++;
    }
    std::stable_sort(cw.reqs.begin(), cw.reqs.end(), [](const Req &a, const Req &b) { return a.t_ms < b.t_ms; });
    for (size_t i = 0; i < cw.reqs.size(); i++) cw.reqs[i].token[2] = (uint8_t)i;
    uint64_t t0 = w.now();
    for (size_t i = 0; i < cw.reqs.size() && sess; i++) {
      w.at_ns(t0 + (uint64_t)cw.reqs[i].t_ms * 1000000ull, [&, i]() {
        if (cw.released) return;
        coap_pdu_t *p = coap_new_pdu(cw.reqs[i].con ? COAP_MESSAGE_CON : COAP_MESSAGE_NON, COAP_REQUEST_CODE_PUT, sess);
        if (!p) return;
        coap_add_token(p, 3, cw.reqs[i].token.data());
        coap_add_option(p, COAP_OPTION_URI_PATH, 1, (const uint8_t *)"r");
        Bytes c = canary((int)i);
        coap_add_data(p, c.size(), c.data());
        cw.submit_order.push_back((int)i);     // (a call blocked in the first exchange lets later calls overtake: the order of the coap_send() calls counts)
        cw.reqs[i].submitted = coap_send(sess, p) != COAP_INVALID_MID;
        w.log("CLIENT-SEND %zu %s", i, cw.reqs[i].con ? "CON" : "NON");
      }, 1);
    }
    // the attacker
    int atk_fd = simk::raw_udp_socket(2, World::node_addr(2, 50000));
    simk::Addr client_addr{};
    bool have_client_addr = false;
    w.taps.push_back([&](const WireEv &e) { if (e.kind == WireEv::SEND && e.from == 1 && !have_client_addr) { client_addr = e.d->src; have_client_addr = true; } });
    int ik = 0;
    for (auto &in : plan["inject"]) {
      json o = in;
      int my = ik++;
      w.at_ns(t0 + (uint64_t)o.value("t_ms", (int64_t)0) * 1000000ull, [&, o, my]() {
        r1::Msg m;
        std::string kind = o.value("kind", "get");
        m.type = kind == "response" ? 1 : 0;
        m.code = kind == "response" ? 69 : 1;
        m.mid = 0x7000 + my;
        m.token = kind == "response" && !cw.reqs.empty() ? cw.reqs[0].token : Bytes{0xA7, 0x7A, (uint8_t)my};
        if (kind != "response") m.opts.push_back({11, Bytes{'r'}});
        if (kind == "response") m.payload = {'f', 'a', 'k', 'e'};
        Bytes b = kind == "junk" ? Bytes{0x16, 0xfe, 0xfd, 0, 0, 0, 0, 0, 0, 0, 0, 0, 5, 1, 2, 3, 4, 5} : r1::encode_udp(m);
        bool to_server = o.value("to", std::string("server")) == "server";
        simk::Addr dst = to_server ? World::node_addr(0, 5684) : client_addr;
        if (!to_server && !have_client_addr) return;
        if (o.value("spoof", false) && (have_client_addr || !to_server)) simk::raw_send_from(2, to_server ? client_addr : World::node_addr(0, 5684), dst, b);
        else simk::raw_sendto(atk_fd, dst, b);
        w.count("fault.cleartext_injected");
      }, -1);
    }
    if (plan.contains("release_ms") && sess)
      w.at_ns(t0 + (uint64_t)plan.value("release_ms", (int64_t)0) * 1000000ull, [&]() {
        if (cw.released) return;
        cw.released = true;
        coap_session_release(sess);
        w.log("CLIENT-RELEASE");
      }, 1);
    w.run();
    if (w.aborted) res.violate("M-live.abort", w.abort_why, "run did not quiesce: " + w.abort_why);
    // the application lets go of the session: "at the latest when the session is released" every queued CON has its NACK
    if (sess && !cw.released) {
      World::AsNode as(1);
      cw.released = true;
      coap_session_release(sess);
    }
    w.run(w.now() + 1000000000ull);
    if (!w.aborted) {
      if (!cw.should_establish) {
        if (cw.connected_events[0] || cw.connected_events[1] || est[0] || est[1])
          res.violate("T.established_without_authentication", ((cw.connected_events[0] || est[0]) ? std::string("server,") : std::string("client,")) + cw.why_not, strfmt("a session became established (connected events: server %d, client %d; state ESTABLISHED seen: server %d, client %d) although the credentials do not match (%s)", cw.connected_events[0], cw.connected_events[1], (int)est[0], (int)est[1], cw.why_not.c_str()));
        for (auto &q : cw.reqs)
          if (q.submitted && q.con && q.nacks != 1)
            res.violate("T.nack_count", q.nacks == 0 ? "no_nack" : "several_nacks", strfmt("Confirmable request %s queued on a session that can never be established (%s) was reported by %d NACKs", hex(q.token).c_str(), cw.why_not.c_str(), q.nacks));
      } else {
        for (auto &q : cw.reqs) {
          if (!q.submitted) continue;
          if (q.nacks > 1) res.violate("T.nack_count", "several_nacks", strfmt("request %s was reported by %d NACKs", hex(q.token).c_str(), q.nacks));
          if (q.responses > 0 && q.nacks > 0 && fault_free) res.violate("T.nack_count", "nack_and_response", strfmt("request %s got a response and a NACK", hex(q.token).c_str()));
          if (q.con && q.responses == 0 && q.nacks == 0 && !plan.contains("release_ms")) res.violate("T.request_lost", fault_free ? "fault_free" : "with_faults", strfmt("Confirmable request %s queued %s has neither a response nor a NACK at the end", hex(q.token).c_str(), "during/after the handshake"));
          if (fault_free && q.handled != 1) res.violate("T.not_exactly_once", q.handled == 0 ? "never_delivered" : "delivered_twice", strfmt("with matching credentials and no fault, request %s reached the server handler %d times", hex(q.token).c_str(), q.handled));
        }
        if (fault_free && cw.server_order != cw.submit_order)
          res.violate("T.order", "queued_messages_reordered", "with matching credentials and no fault the queued requests reached the server out of submission order");
      }
    }
    bool fired = !plan["inject"].empty();
    for (auto &f : w.faults) if (f.fired) fired = true;
    res.nontrivial = !cw.should_establish || fired;
    w.count(cw.should_establish ? "probe.plan_credentials_match" : "probe.plan_credentials_differ_" + cw.why_not);
    if (cw.connected_events[1] || est[1]) w.count("probe.client_established");
    if (est[0]) w.count("probe.server_established");
    {
      World::AsNode as(1);
      coap_free_context(cctx);
    }
    {
      World::AsNode as(0);
      coap_free_context(sctx);
    }
    w.end();
    g = nullptr;
  }
};

struct Reg { Reg() { register_property(new C19()); } } reg;

}  // namespace
