#include "coapx.h"
#include <algorithm>

namespace cx {

coap_context_t *new_context(World &w, int node) {
  World::AsNode as(node);
  coap_context_t *ctx = coap_new_context(nullptr);
  if (ctx) w.set_ctx(node, ctx);
  return ctx;
}

coap_endpoint_t *new_endpoint(World &, int node, coap_context_t *ctx, uint16_t port, coap_proto_t proto, uint32_t ip) {
  World::AsNode as(node);
  coap_address_t a;
  World::to_coap_addr(simk::Addr{ip ? ip : simk::ip4(10, 0, 0, 1 + node), port}, &a);
  return coap_new_endpoint(ctx, &a, proto);
}

coap_session_t *new_client(World &, int node, coap_context_t *ctx, simk::Addr dst, coap_proto_t proto) {
  World::AsNode as(node);
  coap_address_t a;
  World::to_coap_addr(dst, &a);
  return coap_new_client_session(ctx, nullptr, &a, proto);
}

coap_pdu_t *pdu_from_msg(coap_session_t *s, const r1::Msg &m, bool set_mid, bool insert_order, int *refused) {
  if (refused) *refused = 0;
  coap_pdu_t *p = coap_new_pdu((coap_pdu_type_t)m.type, (coap_pdu_code_t)m.code, s);
  if (!p) { if (refused) *refused = -3; return nullptr; }
  if (set_mid) coap_pdu_set_mid(p, (coap_mid_t)m.mid);
  if (!m.token.empty() && !coap_add_token(p, m.token.size(), m.token.data())) {
    if (refused) *refused = -1;
    coap_delete_pdu(p);
    return nullptr;
  }
  std::vector<r1::Opt> o = m.opts;
  if (!insert_order) std::stable_sort(o.begin(), o.end(), [](const r1::Opt &a, const r1::Opt &b) { return a.num < b.num; });
  for (size_t i = 0; i < o.size(); i++) {
    size_t r = insert_order ? coap_insert_option(p, (coap_option_num_t)o[i].num, o[i].val.size(), o[i].val.data())
                            : coap_add_option(p, (coap_option_num_t)o[i].num, o[i].val.size(), o[i].val.data());
    if (!r) {
      if (refused) *refused = (int)i + 1;
      coap_delete_pdu(p);
      return nullptr;
    }
  }
  if (!m.payload.empty() && !coap_add_data(p, m.payload.size(), m.payload.data())) {
    if (refused) *refused = -2;
    coap_delete_pdu(p);
    return nullptr;
  }
  return p;
}

r1::Msg msg_from_pdu(const coap_pdu_t *pdu) {
  r1::Msg m;
  m.type = (int)coap_pdu_get_type(pdu);
  m.code = (int)coap_pdu_get_code(pdu);
  m.mid = (int)coap_pdu_get_mid(pdu) & 0xffff;
  coap_bin_const_t t = coap_pdu_get_token(pdu);
  m.token.assign(t.s, t.s + t.length);
  coap_opt_iterator_t oi;
  coap_option_iterator_init(pdu, &oi, COAP_OPT_ALL);
  coap_opt_t *o;
  while ((o = coap_option_next(&oi))) {
    r1::Opt x;
    x.num = oi.number;
    const uint8_t *v = coap_opt_value(o);
    uint32_t l = coap_opt_length(o);
    if (v && l) x.val.assign(v, v + l);
    m.opts.push_back(x);
  }
  size_t len = 0;
  const uint8_t *d = nullptr;
  if (coap_get_data(pdu, &len, &d) && d && len) m.payload.assign(d, d + len);
  return m;
}

void set_fixed(coap_session_t *s, void (*setter)(coap_session_t *, coap_fixed_point_t), int milli) {
  coap_fixed_point_t f;
  f.integer_part = (uint16_t)(milli / 1000);
  f.fractional_part = (uint16_t)(milli % 1000);
  setter(s, f);
}

}  // namespace cx
