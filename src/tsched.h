// Deterministic thread scheduler (C13): real pthreads, one baton. Only the baton holder runs; at every intercepted point
// (libcoap's pthread_mutex_lock/trylock/unlock, blocking epoll_wait/select, every wrapped allocation and socket call, harness
// yields) the holder may hand the baton to another runnable thread chosen from the plan's PRNG. Mutex ownership is modelled
// here (the real mutexes are never touched while the scheduler is active), simulated time only advances when no thread is
// runnable. What is real: the threads, their stacks, libcoap's code. What is not: the choice of who runs.
#pragma once
#include "common.h"
#include <functional>

namespace tsched {

struct Stats {
  uint64_t switches = 0, yields = 0, lock_ops = 0, contended = 0, time_advances = 0;
  uint64_t unlock_not_owner = 0;     // pthread_mutex_unlock by a thread that does not hold the mutex
  uint64_t schedule_hash = 0;
};

void start(uint64_t seed, double preempt_prob,
           std::function<uint64_t()> now_ns,
           std::function<uint64_t()> next_timer_ns,            // earliest kernel timer that can make a waiter ready (0 = none)
           std::function<bool(uint64_t limit_ns)> advance);    // run the next world event due by limit / move the clock to limit
int spawn(const std::string &name, std::function<void()> body);   // before run()
bool run(std::string *why_stuck);      // true = every thread finished; false = nobody can run any more (deadlock)
void stop();                           // after run(): forget everything (threads that are stuck stay stuck: the process must exit)
bool active();
int self();                            // id of the calling simulated thread, -1 for others
void yield(const char *why);
void wait(std::function<bool()> ready, int64_t timeout_ms);
uint64_t lock_ops_of(int tid);
int locks_held_by(int tid);
int locks_held_total();
Stats stats();

}  // namespace tsched
