// C08 — NSTART bounds in-flight Confirmables; held messages go out in order, none lost.
// World: libcoap client (node 0, 1..2 sessions) against a raw peer (node 1) that only ACKs/RSTs datagrams it received.
#include "runner.h"
#include "world.h"
#include "coapx.h"
#include "mon_r3.h"

namespace {

struct Sub {            // one submission
  int sess = 0;
  bool con = true;
  Bytes token;
  int mid = -1;
  uint64_t t_submit = 0, t_first_tx = 0;
  int first_tx_count = 0;     // wire transmissions (all copies incl. retransmissions)
  int nacks = 0;
  bool acked = false, rst = false;
  bool send_failed = false;
  bool submitted = false;
  int submit_seq = -1;        // order of the coap_send() calls as the application really made them
};

struct C08World {
  World w;
  RunResult *res = nullptr;
  R3Monitor *r3 = nullptr;
  coap_context_t *ctx = nullptr;
  std::vector<coap_session_t *> sess;
  std::vector<int> peer_fd;
  std::vector<int> rx_count;
  std::vector<int> nstart;
  std::vector<std::set<int>> inflight;      // per session: mids of CONs sent, not yet ACKed/RST/given up
  int tcp_calls = 0;
  int failing_session = -1;                 // set while coap_session_disconnected() runs for that session
  bool exceeded_reported = false;           // only the first exceedance of a run is reported (later ones are consequences)
  std::vector<int> last_started;            // per session: last submission whose first transmission was seen
  std::vector<std::string> last_release;    // per session: what released an NSTART slot last
  std::vector<Sub> subs;
  json replies;
};
C08World *g = nullptr;

int find_sub_by_token(const Bytes &t) {
  for (size_t i = 0; i < g->subs.size(); i++) if (g->subs[i].token == t) return (int)i;
  return -1;
}
int sess_index(coap_session_t *s) {
  for (size_t i = 0; i < g->sess.size(); i++) if (g->sess[i] == s) return (int)i;
  return -1;
}

void nack_cb(coap_session_t *s, const coap_pdu_t *sent, const coap_nack_reason_t reason, const coap_mid_t mid) {
  g->w.log("NACK sess=%d mid=%04x reason=%d sent=%d", sess_index(s), (unsigned)mid & 0xffff, (int)reason, sent != nullptr);
  if (!sent) { g->w.count("probe.nack_unmatched_rst"); return; }
  int i = find_sub_by_token(cx::tok_of(sent));
  // A request that was acknowledged (Empty ACK) and still waits for its separate response is reported when its session fails:
  // that NACK concerns the pending response, not the concluded Confirmable transmission, and R3 does not judge it.
  if (g->failing_session >= 0 && g->failing_session == sess_index(s) && i >= 0 && g->subs[(size_t)i].acked) g->w.count("probe.nack_for_pending_response");
  else g->r3->on_nack(0, s, mid, reason);
  if (i < 0) return;
  g->subs[(size_t)i].nacks++;
  int si = sess_index(s);
  if (si >= 0 && g->inflight[(size_t)si].erase((int)mid & 0xffff)) g->last_release[(size_t)si] = "after_giveup";
}
coap_response_t resp_cb(coap_session_t *, const coap_pdu_t *, const coap_pdu_t *, const coap_mid_t) { return COAP_RESPONSE_OK; }

struct C08 : Property {
  C08() {
    id = "C08";
    technique = "deterministic simulation: real libcoap client on simulated clock/UDP, raw peer that only ACKs/RSTs what it received, seeded bursts x reply scripts x loss/dup/delay, wire-level in-flight counter and ordering oracle";
    rule_text = "plan = NSTART 1..4 x 1..2 sessions x burst of 1..20 CON/NON submissions (clustered instants) x peer reply per received datagram (ack/rst/none/late, RST of NON) x datagram faults on both links. Non-trivial: some message was held by the NSTART limit and a fault or non-default reply fired; distinct = distinct event-trace hash.";
    real_components = {"libcoap client: coap_net.c (coap_send_internal, coap_wait_ack, coap_retransmit, coap_dispatch ACK/RST, con_active accounting), coap_session.c (delay queue, coap_session_connected, coap_session_delay_pdu), coap_io.c"};
    stub_components = {"simk clock/UDP/epoll/timerfd", "raw peer (harness)", "R1 decode"};
    assumptions = {"the raw peer never acknowledges or resets a message id it did not receive (precondition of the property, enforced by construction)",
                   "a message counts as acknowledged/reset at the instant the ACK/RST datagram reaches the client's socket"};
    quick_budget_s = 30;
    thorough_budget_s = 600;
  }

  json generate(uint64_t base, uint64_t index, bool) override {
    Rng r(mix3(base, 0xC08, index));
    json p;
    p["property"] = "C08";
    p["seed"] = base;
    p["index"] = index;
    p["sched_salt"] = r.next() & 0xffffffff;
    if (index % 4 == 3) return generate_tcp(r, p);
    int n_sess = r.chance(0.7) ? 1 : 2;
    json cfg = {{"nstart", r.range(1, 4)}, {"n_sess", n_sess}, {"max_rtx", r.range(1, 4)}, {"at_milli", 1000 + 250 * r.range(0, 8)}};
    json ops = json::array(), replies = json::array(), faults = json::array();
    int n = (int)r.range(1, 20);
    if (r.chance(0.4)) n = (int)r.range(1, 6);
    int64_t t = 0;
    for (int i = 0; i < n; i++) {
      if (!r.chance(0.65)) t += r.chance(0.5) ? r.range(1, 200) : r.range(200, 6000);
      ops.push_back({{"t_ms", t}, {"sess", r.below((uint64_t)n_sess)}, {"type", r.chance(0.75) ? "CON" : "NON"}});
    }
    for (int s = 0; s < n_sess; s++)
      for (int k = 0; k < 30; k++) {
        double x = (r.next() >> 11) * (1.0 / 9007199254740992.0);
        if (x < 0.15) replies.push_back({{"sess", s}, {"rx", k}, {"kind", "none"}});
        else if (x < 0.27) replies.push_back({{"sess", s}, {"rx", k}, {"kind", "rst"}, {"delay_us", r.range(0, 300000)}});
        else if (x < 0.45) replies.push_back({{"sess", s}, {"rx", k}, {"kind", "ack"}, {"delay_us", r.range(0, 4000000)}});
        else if (x < 0.50) replies.push_back({{"sess", s}, {"rx", k}, {"kind", "ack_dup"}, {"delay_us", r.range(0, 300000)}});
        else if (x < 0.54) replies.push_back({{"sess", s}, {"rx", k}, {"kind", "rst_dup"}, {"delay_us", r.range(0, 300000)}});
      }
    double rate = r.chance(0.3) ? 0.2 : 0.07;
    for (int dir = 0; dir < 2; dir++)
      for (int k = 0; k < 40; k++) {
        if (!r.chance(rate)) continue;
        const char *link = dir ? "1>0" : "0>1";
        double x = (r.next() >> 11) * (1.0 / 9007199254740992.0);
        if (x < 0.12 && dir == 0) faults.push_back({{"link", link}, {"idx", k}, {"act", "senderr"}});     // the client's send() fails (ENOBUFS)
        else if (x < 0.5) faults.push_back({{"link", link}, {"idx", k}, {"act", "drop"}});
        else if (x < 0.75) faults.push_back({{"link", link}, {"idx", k}, {"act", "dup"}, {"n", 1}, {"delay_us", {r.range(0, 2000000)}}});
        else faults.push_back({{"link", link}, {"idx", k}, {"act", "delay"}, {"delay_us", {r.range(0, 2000000)}}});
      }
    // "if the session fails instead": the application tells libcoap that the session has failed (public
    // coap_session_disconnected(), what the (D)TLS and stream layers call themselves) while messages are in flight and held
    json fails = json::array();
    if (r.chance(0.2)) fails.push_back({{"t_ms", r.chance(0.5) ? r.range(0, 50) : r.range(50, t + 3000)}, {"sess", r.below((uint64_t)n_sess)}});
    p["config"] = cfg;
    p["ops"] = ops;
    p["replies"] = replies;
    p["faults"] = faults;
    p["fails"] = fails;
    return p;
  }
  std::vector<std::string> shrink_keys() override { return {"faults", "replies", "ops", "write_cuts", "stalls", "fails"}; }

  // ---- reliable-transport flavour: "anything submitted before the session is established is held ... if the session fails
  // instead, each held Confirmable is reported by exactly one NACK". A TCP client session against a raw stream peer whose accept,
  // CSM and close the plan decides; short writes and EAGAIN on the client's socket make libcoap hold messages mid-stream.
  json generate_tcp(Rng &r, json p) {
    json cfg = {{"proto", "tcp"},
                {"connect_delay_us", r.chance(0.5) ? r.range(0, 3000) : r.range(3000, 2500000)},
                {"connect_ok", !r.chance(0.12)},
                {"csm", r.chance(0.75) ? "send" : "never"},
                {"csm_delay_us", r.chance(0.6) ? r.range(0, 5000) : r.range(5000, 1500000)},
                {"csm_timeout_ms", r.range(300, 2500)}};
    // how the session fails, if it does: the peer closes (FIN) or resets after it has read `close_after_bytes` bytes or at a time
    if (r.chance(0.45)) {
      cfg["close"] = r.chance(0.5) ? "fin" : "rst";
      if (r.chance(0.5)) cfg["close_after_bytes"] = r.range(0, 1500);
      else cfg["close_at_ms"] = r.range(0, 4000);
    }
    json ops = json::array(), cuts = json::array();
    int n = (int)r.range(1, 20);
    if (r.chance(0.4)) n = (int)r.range(1, 6);
    int64_t t = 0;
    for (int i = 0; i < n; i++) {
      if (!r.chance(0.65)) t += r.chance(0.6) ? r.range(1, 50) : r.range(50, 3000);
      ops.push_back({{"t_ms", t}, {"sess", 0}, {"type", r.chance(0.75) ? "CON" : "NON"}, {"len", r.chance(0.5) ? r.range(0, 20) : r.range(20, 700)}});
    }
    if (r.chance(0.7)) {
      int k = (int)r.range(1, 40);
      for (int i = 0; i < k; i++) cuts.push_back(r.chance(0.35) ? 0 : r.chance(0.5) ? r.range(1, 8) : r.range(8, 400));
    }
    // windows in which the client's socket takes no bytes at all (peer's receive window closed): messages pile up in libcoap
    json stalls = json::array();
    if (r.chance(0.6)) {
      int k = (int)r.range(1, 3);
      for (int i = 0; i < k; i++) stalls.push_back({{"from_ms", r.range(0, 3500)}, {"dur_ms", r.chance(0.5) ? r.range(1, 300) : r.range(300, 5000)}});
    }
    p["config"] = cfg;
    p["ops"] = ops;
    p["write_cuts"] = cuts;
    p["stalls"] = stalls;
    p["faults"] = json::array();
    p["replies"] = json::array();
    return p;
  }

  void execute_tcp(const json &plan, RunResult &res, bool verbose) {
    C08World cw;
    g = &cw;
    cw.res = &res;
    World &w = cw.w;
    w.begin(plan.value("sched_salt", 1ull), &res, verbose, false);
    w.max_sim_ns = 600ull * 1000000000ull;
    R3Monitor r3(w, res);     // not attached: no datagrams in this world; the NACK callback reports to it harmlessly
    cw.r3 = &r3;
    const json &cfg = plan["config"];
    w.add_node(nullptr);
    w.add_node(nullptr);
    cw.ctx = cx::new_context(w, 0);
    coap_register_nack_handler(cw.ctx, nack_cb);
    coap_register_response_handler(cw.ctx, resp_cb);
    {
      World::AsNode as(0);
      coap_context_set_csm_timeout_ms(cw.ctx, (unsigned)cfg.value("csm_timeout_ms", 1000));
    }
    bool connect_ok = cfg.value("connect_ok", true);
    int64_t connect_delay = cfg.value("connect_delay_us", (int64_t)1000);
    simk::K().hooks.on_connect = [&w, connect_ok, connect_delay](int fd, simk::Addr) {
      w.after_us(connect_delay, [fd, connect_ok]() { simk::complete_connect(fd, connect_ok); });
    };
    if (!connect_ok) w.count("fault.connect_refused");
    int lfd = simk::raw_listen(1, World::node_addr(1, 5683));
    int sfd = -1;
    bool csm_sent = false, peer_closed = false;
    uint64_t t_accept = 0;
    Bytes tx;                 // everything the client wrote on the stream (seen at the write, whether or not the peer still reads)
    size_t consumed = 0;
    std::vector<int> wire_order;      // submission indices in the order their complete messages appeared on the stream
    bool session_failed = false;
    std::string close_kind = cfg.value("close", "");
    int64_t close_after_bytes = cfg.value("close_after_bytes", (int64_t)-1), close_at_ms = cfg.value("close_at_ms", (int64_t)-1);
    std::string csm_mode = cfg.value("csm", "send");
    int64_t csm_delay = cfg.value("csm_delay_us", (int64_t)0);
    if (csm_mode == "never") w.count("fault.csm_never");
    uint64_t t0 = w.now();
    w.stream_taps.push_back([&](int, int side, const Bytes &b) { if (side == 0) tx.insert(tx.end(), b.begin(), b.end()); });
    auto do_close = [&]() {
      if (peer_closed || sfd < 0) return;
      peer_closed = true;
      w.count("fault.peer_" + close_kind);
      if (close_kind == "rst") {
        simk::Fd *f = simk::get(sfd);
        if (f && f->st) { simk::Stream *st = f->st; w.after_us(w.base_latency_us, [st]() { simk::deliver_fin(st, 0, true); }); }
      }
      simk::raw_close(sfd);
    };
    w.pollers.push_back([&]() {
      if (sfd < 0) {
        sfd = simk::raw_accept(lfd);
        if (sfd >= 0) {
          t_accept = w.now();
          if (csm_mode == "send")
            w.after_us(csm_delay, [&]() {
              if (peer_closed) return;
              r1::Msg csm;
              csm.code = 0xE1;
              csm.opts.push_back({2, r1::encode_uint(8192)});
              simk::raw_stream_write(sfd, r1::encode_tcp(csm));
              csm_sent = true;
            });
        }
      }
      if (sfd >= 0 && !peer_closed) {
        Bytes sink;
        simk::raw_stream_read(sfd, sink);
        if (!close_kind.empty()) {
          if (close_after_bytes >= 0 && (int64_t)tx.size() >= close_after_bytes) do_close();
          if (close_at_ms >= 0 && w.now() >= t0 + (uint64_t)close_at_ms * 1000000ull) do_close();
        }
      }
      // parse what the client has written so far
      while (consumed < tx.size()) {
        r1::Msg m;
        r1::Verdict v;
        std::string why;
        bool too_big = false;
        size_t n = r1::take_tcp(tx.data() + consumed, tx.size() - consumed, m, v, &why, 1u << 20, &too_big);
        if (!n) break;
        consumed += n;
        if (v == r1::REJECT) { res.violate("C08.tcp_stream_malformed", "malformed", "malformed message on the TCP stream: " + why); break; }
        if ((m.code >> 5) == 7) continue;
        int i = find_sub_by_token(m.token);
        if (i < 0) { res.violate("C08.unknown_message", "unknown_message_tcp", "client transmitted a message the application never submitted: " + m.str()); continue; }
        Sub &s = cw.subs[(size_t)i];
        s.first_tx_count++;
        w.log("WIRE submission #%d complete on the stream", i);
        if (s.first_tx_count > 1) res.violate("C08.tcp_transmitted_twice", "transmitted_twice", strfmt("submission %d appears %d times on the stream", i, s.first_tx_count));
        if (s.nacks) res.violate("C08.tx_after_nack", "tx_after_nack_tcp", strfmt("submission %d transmitted after it had been NACKed", i));
        // (a coap_send() that blocks while the session comes up defers the application's later calls; what counts is the order in
        //  which the calls were really made)
        if (!wire_order.empty() && cw.subs[(size_t)wire_order.back()].submit_seq > s.submit_seq)
          res.violate("C08.order", "order_tcp", strfmt("submission %d (call #%d) transmitted after submission %d (call #%d)", i, s.submit_seq, wire_order.back(), cw.subs[(size_t)wire_order.back()].submit_seq));
        wire_order.push_back(i);
        if (w.now() > s.t_submit) w.count("probe.tcp_was_held");
      }
    });
    if (close_at_ms >= 0 && !close_kind.empty()) w.at_ns(t0 + (uint64_t)close_at_ms * 1000000ull, []() {}, -1);   // wake the pollers at that instant
    coap_session_t *ss = cx::new_client(w, 0, cw.ctx, World::node_addr(1, 5683), COAP_PROTO_TCP);
    if (!ss) { res.violate("M-live.abort", "no_session", "coap_new_client_session failed for TCP"); w.end(); g = nullptr; return; }
    cw.sess.push_back(ss);
    cw.inflight.emplace_back();
    cw.last_release.push_back("none");
    {
      std::deque<size_t> q;
      for (auto &c : plan.value("write_cuts", json::array())) q.push_back(c.get<size_t>());
      if (!q.empty()) w.write_cuts[{1, 0}] = q;    // first stream of the run, client side
      for (auto &st : plan.value("stalls", json::array())) {
        uint64_t from = t0 + (uint64_t)st.value("from_ms", 0) * 1000000ull;
        w.stall_writes(1, 0, from, from + (uint64_t)st.value("dur_ms", 1) * 1000000ull);
      }
    }
    static auto ev_cb = [](coap_session_t *, const coap_event_t ev) -> int {
      if (!g) return 0;
      g->w.log("EVENT 0x%x", (unsigned)ev);
      if (ev == COAP_EVENT_TCP_FAILED || ev == COAP_EVENT_TCP_CLOSED || ev == COAP_EVENT_SESSION_FAILED || ev == COAP_EVENT_SESSION_CLOSED) g->w.count("probe.tcp_session_failed_event");
      if (ev == COAP_EVENT_SESSION_CONNECTED) g->w.count("probe.tcp_session_connected");
      return 0;
    };
    coap_register_event_handler(cw.ctx, ev_cb);
    for (auto &op : plan["ops"]) {
      Sub s;
      s.con = op.value("type", "CON") == "CON";
      size_t i = cw.subs.size();
      s.token = {0xC0, 0x08, 0x7c, (uint8_t)i, (uint8_t)(0x30 + i)};
      cw.subs.push_back(s);
    }
    for (size_t i = 0; i < cw.subs.size(); i++) {
      int64_t t_ms = plan["ops"][i].value("t_ms", (int64_t)0);
      size_t len = (size_t)plan["ops"][i].value("len", 0);
      w.at_ns(w.now() + (uint64_t)t_ms * 1000000ull, [&cw, &w, i, len, ss]() {
        Sub &s = cw.subs[i];
        coap_pdu_t *p = coap_pdu_init(s.con ? COAP_MESSAGE_CON : COAP_MESSAGE_NON, COAP_REQUEST_CODE_POST, coap_new_message_id(ss), 1024);
        if (!p) { s.send_failed = true; return; }
        coap_add_token(p, s.token.size(), s.token.data());
        coap_add_option(p, COAP_OPTION_URI_PATH, 1, (const uint8_t *)"x");
        Bytes body(len, (uint8_t)(0x41 + i));
        if (len) coap_add_data(p, len, body.data());
        s.submitted = true;
        s.t_submit = w.now();
        s.submit_seq = ++cw.tcp_calls;
        w.log("SUBMIT #%zu %s len=%zu state=%d", i, s.con ? "CON" : "NON", len, (int)coap_session_get_state(ss));
        coap_mid_t mid = coap_send(ss, p);
        w.log("SUBMIT #%zu returned mid=%d", i, (int)mid);
        if (mid == COAP_INVALID_MID) { s.send_failed = true; w.count("probe.tcp_send_refused"); }
      }, 0);
    }
    w.run();
    session_failed = coap_session_get_state(ss) != COAP_SESSION_STATE_ESTABLISHED;
    // A Confirmable that is still held when the session has failed may be reported as late as the release of the session
    // (the reading C19's statement spells out); the ledger is therefore closed after the application has released the session.
    std::vector<int> nacks_before_release;
    for (auto &s : cw.subs) nacks_before_release.push_back(s.nacks);
    {
      World::AsNode as(0);
      coap_session_release(ss);
      coap_free_context(cw.ctx);
    }
    if (w.aborted) res.violate("M-live.abort", w.abort_why, "run did not quiesce: " + w.abort_why);
    else {
      for (size_t i = 0; i < cw.subs.size(); i++) {
        Sub &s = cw.subs[i];
        if (!s.submitted || s.send_failed) continue;
        const char *ty = s.con ? "CON" : "NON";
        if (s.nacks > 1) res.violate("C08.double_nack", "double_nack_tcp", strfmt("submission %zu NACKed %d times", i, s.nacks));
        if (s.first_tx_count && s.nacks) res.violate("C08.tcp_tx_and_nack", "tx_and_nack", strfmt("submission %zu (%s) was transmitted completely and also NACKed", i, ty));
        if (!s.first_tx_count && !s.nacks) {
          if (!session_failed) res.violate("C08.lost", "lost_tcp", strfmt("submission %zu (%s) accepted by coap_send() was never transmitted although the session is established", i, ty));
          else if (s.con) res.violate("C08.lost", "lost_tcp_session_failed", strfmt("submission %zu (CON) accepted by coap_send() was neither transmitted nor NACKed, not even when the failed session was released", i));
        }
        if (s.nacks && !session_failed) res.violate("C08.tcp_nack_without_failure", "nack_without_failure", strfmt("submission %zu NACKed although the session never failed", i));
        if (s.nacks) w.count("probe.tcp_held_nacked");
        if (s.nacks && !nacks_before_release[i]) w.count("probe.tcp_nacked_only_at_release");
      }
    }
    bool any = !plan.value("write_cuts", json::array()).empty() || !plan.value("stalls", json::array()).empty() || !close_kind.empty() || !connect_ok || csm_mode == "never";
    res.nontrivial = any && (res.counters.count("probe.tcp_was_held") || res.counters.count("probe.tcp_held_nacked"));
    w.end();
    g = nullptr;
  }

  void execute(const json &plan, RunResult &res, bool verbose) override {
    if (plan["config"].value("proto", "udp") == "tcp") { execute_tcp(plan, res, verbose); return; }
    C08World cw;
    g = &cw;
    cw.res = &res;
    World &w = cw.w;
    w.begin(plan.value("sched_salt", 1ull), &res, verbose, false);
    w.max_sim_ns = 60000ull * 1000000000ull;
    R3Monitor r3(w, res);
    cw.r3 = &r3;
    const json &cfg = plan["config"];
    int n_sess = cfg.value("n_sess", 1);
    w.add_node(nullptr);
    w.add_node(nullptr);
    cw.ctx = cx::new_context(w, 0);
    coap_register_nack_handler(cw.ctx, nack_cb);
    coap_register_response_handler(cw.ctx, resp_cb);
    for (auto &f : plan["faults"]) w.faults.push_back(f.get<Fault>());
    cw.replies = plan.value("replies", json::array());
    r3.watch(0, R3Monitor::Params());
    r3.attach();
    for (int i = 0; i < n_sess; i++) {
      simk::Addr pa = World::node_addr(1, (uint16_t)(5683 + i));
      cw.peer_fd.push_back(simk::raw_udp_socket(1, pa));
      cw.rx_count.push_back(0);
      coap_session_t *s = cx::new_client(w, 0, cw.ctx, pa, COAP_PROTO_UDP);
      cx::set_fixed(s, coap_session_set_ack_timeout, cfg.value("at_milli", 2000));
      coap_session_set_max_retransmit(s, (uint16_t)cfg.value("max_rtx", 4));
      coap_session_set_nstart(s, (uint16_t)cfg.value("nstart", 1));
      r3.set_params_from_session(0, s);
      cw.sess.push_back(s);
      cw.nstart.push_back((int)coap_session_get_nstart(s));
      cw.inflight.emplace_back();
      cw.last_started.push_back(-1);
      cw.last_release.push_back("none");
    }
    w.nodes[0].after_step = [&]() { r3.check_wait(0); };
    // subs
    for (auto &op : plan["ops"]) {
      Sub s;
      s.sess = op.value("sess", 0) % n_sess;
      s.con = op.value("type", "CON") == "CON";
      size_t i = cw.subs.size();
      s.token = {0xC0, 0x08, (uint8_t)s.sess, (uint8_t)i, (uint8_t)(0x30 + i)};
      cw.subs.push_back(s);
    }
    // wire monitor
    w.taps.push_back([&](const WireEv &e) {
      const Bytes &b = e.d->data;
      if (b.size() < 4) return;
      int type = (b[0] >> 4) & 3, mid = b[2] << 8 | b[3];
      if (e.kind == WireEv::SEND && e.from == 0 && (type == 0 || type == 1) && b[1] != 0) {
        r1::Msg m;
        if (r1::decode_udp(b, m) != r1::ACCEPT) return;
        int i = find_sub_by_token(m.token);
        if (i < 0) { res.violate("C08.unknown_message", "unknown_message", "client transmitted a message the application never submitted: " + m.str()); return; }
        Sub &s = cw.subs[(size_t)i];
        s.first_tx_count++;
        if (s.first_tx_count == 1) {
          s.t_first_tx = e.t_ns;
          s.mid = mid;
          if (s.nacks) res.violate("C08.tx_after_nack", "tx_after_nack", strfmt("submission %d first transmitted after it had been NACKed", i));
          if (s.con) {
            auto &fl = cw.inflight[(size_t)s.sess];
            fl.insert(mid);
            cw.last_started[(size_t)s.sess] = i;
            // order among Confirmables of this session
            for (int j = 0; j < i; j++) {
              Sub &o = cw.subs[(size_t)j];
              if (o.sess == s.sess && o.con && o.submitted && !o.send_failed && o.first_tx_count == 0 && !o.nacks)
                res.violate("C08.order", "order", strfmt("session %d: submission %d transmitted before earlier Confirmable submission %d", s.sess, i, j));
            }
            if (e.t_ns > s.t_submit) w.count("probe.con_was_held");
          } else {
            if (e.t_ns != s.t_submit) res.violate("C08.non_delayed", "non_delayed", strfmt("NON submission %d transmitted %.3f ms after it was submitted", i, (e.t_ns - s.t_submit) / 1e6));
          }
        }
      }
      if (e.kind == WireEv::DELIVER && e.to == 0 && (type == 2 || type == 3)) {
        for (size_t si = 0; si < cw.sess.size(); si++) {
          if (e.d->src != World::node_addr(1, (uint16_t)(5683 + si))) continue;
          bool was = cw.inflight[si].erase(mid) > 0;
          cw.last_release[si] = was ? (type == 2 ? "after_ack" : "after_rst") : (type == 2 ? "after_unmatched_ack" : "after_unmatched_rst");
          for (auto &s : cw.subs)
            if (s.sess == (int)si && s.mid == mid && s.con && s.first_tx_count) { if (type == 2) s.acked = true; else s.rst = true; }
        }
      }
    });
    // The NSTART bound is evaluated whenever the client has finished an I/O step or an application call, not in the
    // middle of one: on give-up libcoap releases the slot and sends the next held message before it reports the NACK.
    w.pollers.push_back([&]() {
      for (size_t si = 0; si < cw.inflight.size(); si++)
        if ((int)cw.inflight[si].size() > cw.nstart[si] && !cw.exceeded_reported)
          cw.exceeded_reported = true, res.violate("C08.nstart_exceeded", cw.last_release[si], strfmt("session %zu: %zu Confirmables in flight after first transmission of submission %d, NSTART=%d (last slot release: %s)", si, cw.inflight[si].size(), cw.last_started[si], cw.nstart[si], cw.last_release[si].c_str()));
    });
    // raw peer: replies only to what it received
    w.pollers.push_back([&]() {
      for (size_t i = 0; i < cw.peer_fd.size(); i++) {
        simk::Datagram d;
        while (simk::raw_recv(cw.peer_fd[i], d)) {
          int k = cw.rx_count[i]++;
          if (d.data.size() < 4) continue;
          int type = (d.data[0] >> 4) & 3, mid = d.data[2] << 8 | d.data[3];
          if (type > 1) continue;
          std::string kind = type == 0 ? "ack" : "none";
          int64_t delay = 0;
          for (auto &rp : cw.replies)
            if (rp.value("sess", 0) == (int)i && rp.value("rx", 0) == k) { kind = rp.value("kind", "ack"); delay = rp.value("delay_us", (int64_t)0); break; }
          if (type == 1 && (kind == "ack" || kind == "ack_dup")) kind = "none";    // nobody ACKs a NON
          if (kind != (type == 0 ? "ack" : "none")) w.count("fault.reply_" + kind + (type == 1 ? "_to_non" : ""));
          if (kind == "none") continue;
          int fd = cw.peer_fd[i];
          simk::Addr to = d.src;
          auto send = [&w, to, fd](int t, int m, int64_t dl) {
            Bytes b = {(uint8_t)(0x40 | t << 4), 0, (uint8_t)(m >> 8), (uint8_t)m};
            w.after_us(dl, [fd, to, b]() { simk::raw_sendto(fd, to, b); });
          };
          if (kind == "ack") send(2, mid, delay);
          else if (kind == "rst") send(3, mid, delay);
          else if (kind == "ack_dup") { send(2, mid, delay); send(2, mid, delay + 900); }
          else if (kind == "rst_dup") { send(3, mid, delay); send(3, mid, delay + 900); }
        }
      }
    });
    // session failures
    std::vector<bool> failed((size_t)n_sess, false);
    for (auto &f : plan.value("fails", json::array())) {
      size_t si = (size_t)(f.value("sess", 0) % n_sess);
      w.at_ns(w.now() + (uint64_t)f.value("t_ms", 0) * 1000000ull + 1, [&cw, &w, &failed, &res, si]() {
        if (failed[si]) return;
        failed[si] = true;
        size_t held = 0, flying = cw.inflight[si].size();
        std::set<int> fl = cw.inflight[si];
        std::vector<int> before;
        for (auto &s : cw.subs) { before.push_back(s.nacks); if (s.sess == (int)si && s.con && s.submitted && !s.send_failed && !s.first_tx_count && !s.nacks) held++; }
        w.log("FAIL session %zu (%zu in flight, %zu held)", si, flying, held);
        w.count("fault.session_failed");
        if (held) w.count("probe.session_failed_with_held");
        if (flying) w.count("probe.session_failed_with_inflight");
        cw.failing_session = (int)si;
        coap_session_disconnected(cw.sess[si], COAP_NACK_NOT_DELIVERABLE);
        cw.failing_session = -1;
        // every Confirmable of this session that was held or in flight has now been reported, exactly once
        for (size_t i = 0; i < cw.subs.size(); i++) {
          Sub &s = cw.subs[i];
          if (s.sess != (int)si || !s.con || !s.submitted || s.send_failed) continue;
          bool was_held = !s.first_tx_count && !before[i];
          bool was_flying = s.first_tx_count && fl.count(s.mid) && !before[i];
          if ((was_held || was_flying) && s.nacks - before[i] != 1)
            res.violate("C08.session_failure_nacks", was_held ? (s.nacks == before[i] ? "held_not_nacked" : "held_nacked_twice") : (s.nacks == before[i] ? "inflight_not_nacked" : "inflight_nacked_twice"),
                        strfmt("session %zu failed: submission %zu (%s) was reported by %d NACKs instead of one", si, i, was_held ? "held" : "in flight", s.nacks - before[i]));
        }
        cw.inflight[si].clear();
        cw.last_release[si] = "after_session_failure";
      }, 0);
    }
    // workload
    for (size_t i = 0; i < cw.subs.size(); i++) {
      int64_t t_ms = plan["ops"][i].value("t_ms", (int64_t)0);
      w.at_ns(w.now() + (uint64_t)t_ms * 1000000ull, [&cw, &w, i]() {
        Sub &s = cw.subs[i];
        coap_session_t *ss = cw.sess[(size_t)s.sess];
        coap_pdu_t *p = coap_new_pdu(s.con ? COAP_MESSAGE_CON : COAP_MESSAGE_NON, COAP_REQUEST_CODE_GET, ss);
        if (!p) { s.send_failed = true; return; }
        coap_add_token(p, s.token.size(), s.token.data());
        coap_add_option(p, COAP_OPTION_URI_PATH, 1, (const uint8_t *)"x");
        s.submitted = true;
        s.t_submit = w.now();
        coap_mid_t mid = coap_send(ss, p);
        w.log("SUBMIT #%zu sess=%d %s mid=%04x", i, s.sess, s.con ? "CON" : "NON", (unsigned)mid & 0xffff);
        if (mid == COAP_INVALID_MID) {
          s.send_failed = true;
          if (s.first_tx_count == 1) {      // the socket refused the first transmission (send-error fault) and the caller was told: never accepted
            cw.r3->first_send_refused(0, ss, s.mid);
            cw.inflight[(size_t)s.sess].erase(s.mid);
            w.count("probe.first_send_refused");
          }
        }
      }, 0);
    }
    w.run();
    if (w.aborted) res.violate("M-live.abort", w.abort_why, "run did not quiesce: " + w.abort_why);
    else {
      r3.finish();
      for (size_t i = 0; i < cw.subs.size(); i++) {
        Sub &s = cw.subs[i];
        if (!s.submitted || s.send_failed) continue;
        if (s.first_tx_count == 0 && !(s.con && s.nacks == 1))
          res.violate("C08.lost", "lost", strfmt("submission %zu (%s, session %d) was never transmitted and %d NACKs were reported", i, s.con ? "CON" : "NON", s.sess, s.nacks));
        if (s.con && s.nacks > 1) res.violate("C08.double_nack", "double_nack", strfmt("submission %zu NACKed %d times", i, s.nacks));
      }
    }
    bool any_fault = !cw.replies.empty();
    for (auto &f : w.faults) any_fault |= f.fired;
    res.nontrivial = any_fault && res.counters.count("probe.con_was_held");
    {
      World::AsNode as(0);
      for (auto *s : cw.sess) coap_session_release(s);
      coap_free_context(cw.ctx);
    }
    w.end();
    g = nullptr;
  }
};

struct Reg { Reg() { register_property(new C08()); } } reg;

}  // namespace
