#include "fsim.h"
#include <cstdarg>
#include <cstdio>
#include <cstring>
#include <dirent.h>
#include <sys/stat.h>
#include <unistd.h>

extern "C" {
FILE *__real_fopen(const char *path, const char *mode);
int __real_fclose(FILE *fp);
int __real_fflush(FILE *fp);
size_t __real_fwrite(const void *p, size_t sz, size_t n, FILE *fp);
int __real_rename(const char *a, const char *b);
int __real_remove(const char *a);
}

namespace fsim {

static Hooks g_hooks;
static std::string g_dir;
static std::map<FILE *, std::string> g_open;    // tracked streams -> path

Hooks &hooks() { return g_hooks; }
void arm(const std::string &dir) {
  g_dir = dir;
  if (dir.empty()) g_open.clear();
}
static bool inside(const char *p) { return !g_dir.empty() && p && strncmp(p, g_dir.c_str(), g_dir.size()) == 0; }
static void pt(const char *op, const std::string &a, const std::string &b, bool after) {
  if (g_hooks.point) g_hooks.point(op, a, b, after);
}

std::map<std::string, Bytes> read_dir(const std::string &dir) {
  std::map<std::string, Bytes> out;
  DIR *d = opendir(dir.c_str());
  if (!d) return out;
  while (struct dirent *e = readdir(d)) {
    if (e->d_name[0] == '.') continue;
    std::string p = dir + "/" + e->d_name;
    FILE *f = __real_fopen(p.c_str(), "rb");
    if (!f) continue;
    Bytes b;
    uint8_t buf[4096];
    size_t n;
    while ((n = fread(buf, 1, sizeof buf, f)) > 0) b.insert(b.end(), buf, buf + n);
    __real_fclose(f);
    out[e->d_name] = b;
  }
  closedir(d);
  return out;
}

void restore_dir(const std::string &dir, const std::map<std::string, Bytes> &img) {
  DIR *d = opendir(dir.c_str());
  if (d) {
    while (struct dirent *e = readdir(d)) {
      if (e->d_name[0] == '.') continue;
      __real_remove((dir + "/" + e->d_name).c_str());
    }
    closedir(d);
  }
  for (auto &kv : img) {
    FILE *f = __real_fopen((dir + "/" + kv.first).c_str(), "wb");
    if (!f) continue;
    if (!kv.second.empty()) __real_fwrite(kv.second.data(), 1, kv.second.size(), f);
    __real_fclose(f);
  }
}

std::string scratch_dir(const char *tag) {
  std::string base = "/verif/build/scratch";
  mkdir(base.c_str(), 0755);
  std::string d = base + "/" + tag + "." + std::to_string((long)getpid());
  mkdir(d.c_str(), 0755);
  restore_dir(d, {});
  return d;
}

}  // namespace fsim

using namespace fsim;

extern "C" {

FILE *__wrap_fopen(const char *path, const char *mode) {
  bool in = inside(path);
  bool writes = mode && (strchr(mode, 'w') || strchr(mode, 'a') || strchr(mode, '+'));
  if (in && writes) pt("fopen", path, mode, false);
  FILE *f = __real_fopen(path, mode);
  if (in && f) g_open[f] = path;
  if (in && writes) pt("fopen", path, mode, true);
  return f;
}

int __wrap_fclose(FILE *fp) {
  auto it = g_open.find(fp);
  if (it == g_open.end()) return __real_fclose(fp);
  std::string p = it->second;
  pt("fclose", p, "", false);
  g_open.erase(fp);
  int r = __real_fclose(fp);
  pt("fclose", p, "", true);
  return r;
}

int __wrap_fflush(FILE *fp) {
  auto it = fp ? g_open.find(fp) : g_open.end();
  if (it == g_open.end()) return __real_fflush(fp);
  std::string p = it->second;
  pt("fflush", p, "", false);
  int r = __real_fflush(fp);
  pt("fflush", p, "", true);
  return r;
}

size_t __wrap_fwrite(const void *b, size_t sz, size_t n, FILE *fp) {
  auto it = g_open.find(fp);
  if (it == g_open.end()) return __real_fwrite(b, sz, n, fp);
  std::string p = it->second;
  pt("fwrite", p, "", false);
  size_t r = __real_fwrite(b, sz, n, fp);
  pt("fwrite", p, "", true);
  return r;
}

int __wrap_fprintf(FILE *fp, const char *fmt, ...) {
  va_list ap;
  va_start(ap, fmt);
  auto it = g_open.find(fp);
  int r;
  if (it == g_open.end()) r = vfprintf(fp, fmt, ap);
  else {
    std::string p = it->second;
    pt("fprintf", p, "", false);
    r = vfprintf(fp, fmt, ap);
    pt("fprintf", p, "", true);
  }
  va_end(ap);
  return r;
}

int __wrap_rename(const char *a, const char *b) {
  if (!inside(a) && !inside(b)) return __real_rename(a, b);
  pt("rename", a, b, false);
  int r = __real_rename(a, b);
  pt("rename", a, b, true);
  return r;
}

int __wrap_remove(const char *a) {
  if (!inside(a)) return __real_remove(a);
  pt("remove", a, "", false);
  int r = __real_remove(a);
  pt("remove", a, "", true);
  return r;
}

}  // extern "C"
