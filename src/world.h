// World: discrete-event loop over libcoap contexts ("nodes") and raw peers on simk.
#pragma once
#include "common.h"
#include "simk.h"
#include <queue>
#include <functional>
#include <set>

extern "C" {
#include <coap3/coap.h>
}

struct Fault {
  enum Act { DROP, DUP, DELAY, CORRUPT, SENDERR } act = DROP;   // SENDERR: the send syscall itself fails (ENOBUFS), nothing leaves
  int from = 0, to = 0;     // node ids (link from>to)
  int idx = 0;              // k-th datagram on that link (0-based)
  int n = 1;                // DUP: extra copies
  std::vector<int64_t> delay_us;  // DELAY: [d]; DUP: delay of each extra copy
  int byte = 0, mask = 0;   // CORRUPT: xor data[byte % len] with mask
  bool fired = false;
};
void to_json(json &j, const Fault &f);
void from_json(const json &j, Fault &f);

struct WireEv {
  enum Kind { SEND, DELIVER, DROP, NOSOCK } kind;
  uint64_t t_ns;
  const simk::Datagram *d;
  int from, to;       // node ids (to = -1 unknown/multicast)
  int link_idx;       // index of the original datagram on its link
  int copy;           // 0 = original, 1.. = duplicate copies
};

struct World {
  Rng rng{1};                 // scheduling / tie-break stream
  Rng lib_rng{2};             // bytes handed to libcoap via coap_set_prng
  Trace tr;
  RunResult *res = nullptr;
  bool trace_wire = true;     // hash+log every datagram

  struct Ev {
    uint64_t t, seq;
    int node;
    std::function<void()> fn;
  };
  struct EvCmp { bool operator()(const Ev &a, const Ev &b) const { return a.t != b.t ? a.t > b.t : a.seq > b.seq; } };
  std::priority_queue<Ev, std::vector<Ev>, EvCmp> q;
  uint64_t seq = 0;

  struct NodeRec {
    coap_context_t *ctx = nullptr;
    bool blocked = false, dead = false;
    uint64_t stall_until_ns = 0;         // node not stepped before this time (stall fault)
    uint64_t steps = 0;
    std::function<void()> after_step;    // monitor hook, runs after each coap_io_process
  };
  std::vector<NodeRec> nodes;
  std::vector<Ev> deferred;              // events for blocked nodes
  std::vector<std::function<void()>> pollers;    // raw peers drain their sockets here
  std::vector<std::function<void(const WireEv &)>> taps;
  std::vector<std::function<void(int stream_id, int side, const Bytes &)>> stream_taps;   // every write on a simulated TCP stream

  // network policy
  int64_t base_latency_us = 1000;
  std::vector<Fault> faults;
  std::map<std::pair<int, int>, int> link_count;
  std::set<std::pair<int, int>> partitioned;     // links currently cut
  // property-specific in-flight tampering: may rewrite the datagram (taps have seen the original as SEND; DELIVER shows the result)
  std::function<bool(simk::Datagram &d, int from, int to, int idx)> rewrite;
  bool icmp_on_nosock = false;
  // stream policy
  std::map<std::pair<uint64_t, int>, std::deque<size_t>> read_cuts;   // (stream id, side) -> sizes of the next reads
  std::map<std::pair<uint64_t, int>, std::deque<size_t>> write_cuts;  // 0 = EAGAIN once
  std::function<std::deque<size_t>(uint64_t stream, int side)> read_cut_source;  // lazily supplies cuts for new streams
  size_t default_read_cut = 0;                                        // applied when the list is empty (0 = none)
  // (stream id, side) -> windows [from_ns, until_ns) during which that side cannot write (EAGAIN, not writable); use stall_writes()
  std::map<std::pair<uint64_t, int>, std::vector<std::pair<uint64_t, uint64_t>>> write_stalls;
  void stall_writes(uint64_t stream, int side, uint64_t from_ns, uint64_t until_ns);
  std::map<std::pair<uint64_t, int>, std::deque<size_t>> deliver_chunks;   // bytes written by (stream, side) arrive in pieces of these sizes, 1 ms apart

  // limits
  uint64_t max_events = 200000;
  uint64_t max_sim_ns = 4000ull * 1000000000ull;
  uint64_t long_sleep_ns = 7200ull * 1000000000ull;   // a wake-up further away than this ends the run as quiescent
  uint64_t events = 0;
  uint64_t max_spin = 20000;     // steps without the clock advancing before the run is declared spinning
  int depth = 0;
  bool aborted = false;        // limits hit or deadlock inside a nested wait
  std::string abort_why;
  uint64_t start_ns = 0;

  // ---- lifecycle
  void begin(uint64_t sched_salt, RunResult *r, bool keep_log, bool echo);   // resets simk + libcoap (coap_startup)
  void end();                                                                 // coap_cleanup, detach hooks
  int add_node(coap_context_t *ctx);     // returns node id; ctx may be nullptr for raw-peer nodes
  void set_ctx(int node, coap_context_t *ctx) { nodes[node].ctx = ctx; }
  // Each node is a process of its own: libcoap's process-wide lock object is swapped with the node (see lockimg.c).
  static void lock_switch(int from, int to);
  struct AsNode {                        // RAII: make `node` current for socket creation / API calls
    int save;
    explicit AsNode(int n) : save(simk::K().cur_node) { lock_switch(save, n); simk::K().cur_node = n; }
    ~AsNode() { lock_switch(simk::K().cur_node, save); simk::K().cur_node = save; }
  };

  // ---- time and events
  uint64_t now() const { return simk::K().now_ns; }
  uint64_t now_us() const { return (simk::K().now_ns - simk::EPOCH_NS) / 1000; }
  void at_ns(uint64_t t_ns, std::function<void()> fn, int node = -1);
  void after_us(int64_t us, std::function<void()> fn, int node = -1) { at_ns(now() + (uint64_t)(us < 0 ? 0 : us) * 1000, std::move(fn), node); }
  // Run until quiescent (no events, no armed timers) or until `until_ns`. false = aborted.
  bool run(uint64_t until_ns = UINT64_MAX);
  bool run_for_ms(uint64_t ms) { return run(now() + ms * 1000000ull); }
  // threaded worlds (C13): the scheduler owns the loop. Execute the next queued event if it is due by limit_ns (moving the
  // clock to it), else move the clock to limit_ns. false = nothing queued and no limit.
  bool advance_one(uint64_t limit_ns);
  uint64_t next_event_ns() const { return q.empty() ? UINT64_MAX : q.top().t; }
  void step_node(int n);
  void count(const std::string &k, uint64_t d = 1) { if (res) res->counters[k] += d; }
  void log(const char *fmt, ...) __attribute__((format(printf, 2, 3)));

  // ---- helpers
  static simk::Addr node_addr(int node, uint16_t port) { return simk::Addr{simk::ip4(10, 0, 0, 1 + node), port}; }
  static int node_of_ip(uint32_t ip) { return (ip >> 8) == (simk::ip4(10, 0, 0, 0) >> 8) ? (int)(ip & 255) - 1 : -1; }
  static void to_coap_addr(const simk::Addr &a, coap_address_t *out);
  static simk::Addr from_coap_addr(const coap_address_t *a);

 private:
  bool loop(const std::function<bool()> &stop, uint64_t until_ns);
  void on_datagram(const simk::Datagram &d, int from_node);
  void block(int node, std::function<bool()> ready, int64_t timeout_ms);
  void send_copy(const simk::Datagram &d, int from, int to, int idx, int copy, int64_t delay_us);
};
