// File-layer seam (C17): link-time wrappers of the stdio / rename calls libcoap's persistence code makes.
// The files are real (a scratch directory owned by the run); the seam numbers every call boundary ("before"/"after" a
// call that can change what is on disk) and lets the run take the disk image a killed process would leave at that point:
// bytes still sitting in a stdio buffer are not in the image, bytes handed to write(2) are.
#pragma once
#include "common.h"
#include <functional>
#include <map>

namespace fsim {

struct Hooks {
  // called before (after=false) and after (after=true) fopen(w/a modes), fwrite, fprintf, fflush, fclose, rename, remove
  // on files inside the armed directory
  std::function<void(const char *op, const std::string &path, const std::string &path2, bool after)> point;
};
Hooks &hooks();
void arm(const std::string &dir);     // calls on paths below dir are reported; "" disarms
std::map<std::string, Bytes> read_dir(const std::string &dir);                    // file name -> content as on disk now
void restore_dir(const std::string &dir, const std::map<std::string, Bytes> &img);   // make the directory equal to the image
std::string scratch_dir(const char *tag);                                          // VERIF_DIR/build/scratch/<tag>.<pid>, created empty

}  // namespace fsim
