// C02 — arbitrary network input never breaks memory safety, liveness or the endpoint.
// World: libcoap server (node 0: UDP + TCP + WS endpoints, block-wise and observable resources) and libcoap client (node 1)
// exchanging valid traffic (block-wise upload/download, observe); an attacker (node 2, raw) injects hostile datagrams at both of
// them - blind bytes, field-aware mutations of the valid datagrams it sees in flight, spoofed from the legitimate peer's address
// or from its own - and hostile TCP/WebSocket streams at the server. Monitors: sanitizers/asserts/hang watchdog/exit trap,
// termination, and a canary exchange that must still work afterwards from a fresh peer and on the victim's own session.
#include "runner.h"
#include "world.h"
#include "coapx.h"

namespace {

struct C02World {
  World w;
  RunResult *res = nullptr;
  int client_responses = 0;
  int canary_ok = 0;
  Bytes canary_token;
  int notifications = 0;
};
C02World *g = nullptr;

uint8_t bb(size_t i) { return (uint8_t)(i * 131 + 7); }

void hnd_big(coap_resource_t *resource, coap_session_t *session, const coap_pdu_t *request, const coap_string_t *query, coap_pdu_t *response) {
  static uint8_t body[3000];
  for (size_t i = 0; i < sizeof body; i++) body[i] = bb(i);
  coap_pdu_set_code(response, COAP_RESPONSE_CODE_CONTENT);
  coap_add_data_large_response(resource, session, request, response, query, COAP_MEDIATYPE_TEXT_PLAIN, -1, 0x77, sizeof body, body, nullptr, nullptr);
}
void hnd_put(coap_resource_t *, coap_session_t *, const coap_pdu_t *request, const coap_string_t *, coap_pdu_t *response) {
  size_t size, offset, total;
  const uint8_t *data;
  (void)coap_get_data_large(request, &size, &data, &offset, &total);
  coap_pdu_set_code(response, COAP_RESPONSE_CODE_CHANGED);
}
void hnd_obs(coap_resource_t *, coap_session_t *, const coap_pdu_t *, const coap_string_t *, coap_pdu_t *response) {
  coap_pdu_set_code(response, COAP_RESPONSE_CODE_CONTENT);
  coap_add_data(response, 4, (const uint8_t *)"tick");
}
void hnd_canary(coap_resource_t *, coap_session_t *, const coap_pdu_t *, const coap_string_t *, coap_pdu_t *response) {
  coap_pdu_set_code(response, COAP_RESPONSE_CODE_CONTENT);
  coap_add_data(response, 6, (const uint8_t *)"canary");
}
coap_response_t resp_cb(coap_session_t *, const coap_pdu_t *, const coap_pdu_t *rcv, const coap_mid_t) {
  g->client_responses++;
  Bytes tok = cx::tok_of(rcv);
  size_t len;
  const uint8_t *d;
  if (tok == g->canary_token && coap_pdu_get_code(rcv) == COAP_RESPONSE_CODE_CONTENT && coap_get_data(rcv, &len, &d) && len == 6 && !memcmp(d, "canary", 6)) g->canary_ok++;
  return COAP_RESPONSE_OK;
}

Bytes mutate(Rng &r, Bytes b) {
  if (b.empty()) return r.bytes((size_t)r.range(0, 12));
  int rounds = (int)r.range(1, 3);
  for (int k = 0; k < rounds; k++) {
    size_t pos = (size_t)r.below(b.size());
    switch ((int)r.below(12)) {
    case 0: b[pos] ^= (uint8_t)(1u << r.below(8)); break;
    case 1: b[pos] = (uint8_t)r.pick(std::vector<int>{0x00, 0xff, 0xd0, 0xe0, 0xf0, 0x0d, 0x0e, 0x0f, 0xdd, 0xee, 0x7f, 0x80}); break;
    case 2: b.resize(pos); break;
    case 3: { Bytes x = r.bytes((size_t)r.range(1, 30)); b.insert(b.end(), x.begin(), x.end()); break; }
    case 4: b[0] = (uint8_t)((b[0] & 0xf0) | r.below(16)); break;
    case 5: if (b.size() > 1) b[1] = (uint8_t)r.pick(std::vector<int>{0x00, 0x01, 0x02, 0x45, 0x5f, 0x44, 0x84, 0x88, 0xa0, 0xe1, 0xe2, 0x20, 0xc0}); break;
    case 6: b.insert(b.begin() + (long)pos, (uint8_t)0xff); break;
    case 7: if (b.size() > 1) b.erase(b.begin() + (long)pos); break;
    case 8: if (b.size() > 4) { size_t q = 4 + (size_t)r.below(b.size() - 4); b[q] = (uint8_t)r.below(256); } break;
    case 9: {   // rewrite a Block/Observe/Size-looking short option value: set all bits
      for (size_t i = 4; i + 1 < b.size(); i++) if ((b[i] & 0x0f) >= 1 && (b[i] & 0x0f) <= 3 && r.chance(0.3)) { b[i + 1] = (uint8_t)r.pick(std::vector<int>{0xff, 0x0f, 0x07, 0x08, 0xf7, 0x00}); break; }
      break;
    }
    case 10: if (b.size() >= 4) { b[2] = (uint8_t)r.below(256); b[3] = (uint8_t)r.below(256); } break;   // other mid
    case 11: b[0] = (uint8_t)((b[0] & 0xcf) | (r.below(4) << 4)); break;                               // other type
    }
    if (b.empty()) break;
  }
  if (b.size() > 1400) b.resize(1400);
  return b;
}

// valid-but-adversarial request built with the reference codec
Bytes crafted(Rng &r) {
  r1::Msg m;
  m.type = (int)r.below(2);
  m.code = (int)r.pick(std::vector<int>{1, 1, 2, 3, 4, 5, 6, 7});
  m.mid = (int)r.below(65536);
  m.token = r.bytes((size_t)r.range(0, 8));
  static const char *paths[] = {"big", "up", "obs", "canary", ".well-known", "core", "", "x"};
  int np = (int)r.range(0, 3);
  for (int i = 0; i < np; i++) { const char *p = paths[r.below(8)]; m.opts.push_back({r1::O_URI_PATH, Bytes(p, p + strlen(p))}); }
  int nq = (int)r.range(0, 3);
  for (int i = 0; i < nq; i++) {
    Bytes q;
    int l = (int)r.range(0, 12);
    static const uint8_t qchars[] = {'/', '?', '&', '%', '=', 'a', 'b', '*', 0x00, 0xff, ' ', 'r', 't', '#', '+'};
    for (int k = 0; k < l; k++) q.push_back(qchars[r.below(sizeof qchars)]);
    m.opts.push_back({r1::O_URI_QUERY, q});
  }
  auto blockval = [&]() { uint32_t v = (uint32_t)(r.chance(0.3) ? r.below(1u << 20) : r.below(40)) << 4 | (uint32_t)r.below(2) << 3 | (uint32_t)r.below(8); return r1::encode_uint(v); };
  if (r.chance(0.4)) m.opts.push_back({r1::O_BLOCK1, blockval()});
  if (r.chance(0.4)) m.opts.push_back({r1::O_BLOCK2, blockval()});
  if (r.chance(0.2)) m.opts.push_back({r1::O_SIZE1, r1::encode_uint((uint32_t)r.pick(std::vector<int>{0, 1, 16, 1000, 65536, 0x7fffffff}))});
  if (r.chance(0.2)) m.opts.push_back({r1::O_OBSERVE, r1::encode_uint((uint32_t)r.pick(std::vector<int>{0, 1, 2, 0xffffff}))});
  if (r.chance(0.15)) m.opts.push_back({r1::O_ETAG, r.bytes((size_t)r.range(1, 8))});
  if (r.chance(0.15)) m.opts.push_back({r1::O_RTAG, r.bytes((size_t)r.range(0, 8))});
  if (r.chance(0.1)) m.opts.push_back({r1::O_IF_NONE_MATCH, {}});
  if (r.chance(0.1)) m.opts.push_back({r1::O_ACCEPT, r1::encode_uint((uint32_t)r.below(70))});
  if (r.chance(0.1)) m.opts.push_back({r1::O_CONTENT_FORMAT, r1::encode_uint((uint32_t)r.below(70))});
  if (r.chance(0.1)) m.opts.push_back({r1::O_NO_RESPONSE, r1::encode_uint((uint32_t)r.below(32))});
  if (r.chance(0.05)) m.opts.push_back({r1::O_ECHO, r.bytes((size_t)r.range(1, 40))});
  if (r.chance(0.05)) m.opts.push_back({r1::O_PROXY_URI, Bytes{'c', 'o', 'a', 'p', ':', '/', '/', '[', ':', ':', '1', ']', '/', '%', '4'}});
  if (r.chance(0.5)) m.payload = r.bytes((size_t)r.pick(std::vector<int>{1, 15, 16, 17, 64, 100, 1024}));
  return r1::encode_udp(m);
}

struct C02 : Property {
  C02() {
    id = "C02";
    technique = "deterministic simulation with a hostile peer: real libcoap client and server in protocol states reached by valid block-wise/observe/stream traffic, seeded attacker injecting blind and field-aware mutated datagrams (spoofed or own address) and hostile TCP/WebSocket streams under random cuts; ASan/UBSan/assert/hang/exit monitors and canary exchanges";
    rule_text = "plan = victim scenario (Block2 download, Block1 upload, observe with notifications, idle; log level incl. DEBUG) x 20..200 hostile datagrams (kind: blind bytes / valid-but-adversarial requests built with the reference codec (special characters in Uri-Query, extreme Block/Size/Observe values, ...) / mutation of the k-th valid datagram seen on the wire / replay of it; target: server or client; source: the legitimate peer's address or the attacker's) injected at seeded instants while the valid traffic runs x optional hostile stream (mutated CSM+requests or mutated WebSocket upgrade+frames, random read sizes) x time advanced past all block/session time-outs. Each hostile input is one evaluation (probes.hostile_inputs). Non-trivial: valid traffic completed at least one block-wise transfer and at least 10 hostile inputs were delivered to a socket; distinct = distinct trace hash.";
    real_components = {"libcoap client and server, whole receive side: coap_io.c, coap_net.c (coap_handle_dgram, coap_dispatch, handle_request/response/signaling), coap_pdu.c, coap_option.c, coap_block.c, coap_resource.c, coap_subscribe.c, coap_session.c, coap_ws.c, coap_tcp.c, coap_debug.c (DEBUG log level walks every PDU), coap_uri.c, coap_cache.c"};
    stub_components = {"simk network/clock/allocator", "attacker and mutators (harness)", "R1 codec to build canaries"};
    assumptions = {"OSCORE-protected traffic as attack surface is covered in C14/C15 worlds; DTLS input in C19",
                   "uninitialised-value use is only visible where it turns into a crash or sanitizer report (no MSan: GnuTLS/libstdc++ are uninstrumented)"};
    run_timeout_s = 20;      // a run takes milliseconds; one that does not come back is a hang
    quick_budget_s = 35;
    thorough_budget_s = 700;

  }

  json generate(uint64_t base, uint64_t index, bool) override {
    Rng r(mix3(base, 0xC02, index));
    json p;
    p["property"] = "C02";
    p["seed"] = base;
    p["index"] = index;
    p["sched_salt"] = r.next() & 0xffffffff;
    p["config"] = {{"scenario", r.below(4)}, {"debug_log", r.chance(0.25)}, {"stream", r.below(3)}};
    json ops = json::array();
    int n = (int)r.range(20, 200);
    for (int i = 0; i < n; i++) {
      double x = (r.next() >> 11) * (1.0 / 9007199254740992.0);
      json op = {{"t_ms", r.range(0, 400)}, {"target", r.chance(0.55) ? "server" : "client"}, {"spoof", r.chance(0.6)}, {"salt", r.next() & 0xffffff}};
      if (x < 0.08) op["kind"] = "blind";
      else if (x < 0.10) op["kind"] = "long_options";     // a datagram near the receive-buffer size whose option area is long and malformed
      else if (x < 0.35) { op["kind"] = "crafted"; op["target"] = "server"; }
      else if (x < 0.9) { op["kind"] = "mutate"; op["k"] = r.range(0, 60); }
      else { op["kind"] = "replay"; op["k"] = r.range(0, 60); }
      ops.push_back(op);
    }
    p["ops"] = ops;
    p["faults"] = json::array();
    return p;
  }
  std::vector<std::string> shrink_keys() override { return {"ops"}; }

  void execute(const json &plan, RunResult &res, bool verbose) override {
    C02World cw;
    g = &cw;
    cw.res = &res;
    World &w = cw.w;
    w.begin(plan.value("sched_salt", 1ull), &res, verbose, false);
    w.trace_wire = verbose;
    w.max_events = 300000;
    const json &cfg = plan["config"];
    int scenario = cfg.value("scenario", 0), stream_kind = cfg.value("stream", 0);
    w.add_node(nullptr);   // 0 server
    w.add_node(nullptr);   // 1 client
    w.add_node(nullptr);   // 2 attacker
    coap_context_t *sctx = cx::new_context(w, 0), *cctx = cx::new_context(w, 1);
    if (cfg.value("debug_log", false)) coap_set_log_level(COAP_LOG_DEBUG);
    coap_resource_t *obs_res = nullptr;
    {
      World::AsNode as(0);
      coap_context_set_block_mode(sctx, COAP_BLOCK_USE_LIBCOAP | COAP_BLOCK_SINGLE_BODY);
      coap_resource_t *r;
      r = coap_resource_init(coap_make_str_const("big"), 0);
      coap_register_request_handler(r, COAP_REQUEST_GET, hnd_big);
      coap_add_resource(sctx, r);
      r = coap_resource_init(coap_make_str_const("up"), 0);
      coap_register_request_handler(r, COAP_REQUEST_PUT, hnd_put);
      coap_register_request_handler(r, COAP_REQUEST_POST, hnd_put);
      coap_add_resource(sctx, r);
      r = coap_resource_init(coap_make_str_const("obs"), 0);
      coap_register_request_handler(r, COAP_REQUEST_GET, hnd_obs);
      coap_resource_set_get_observable(r, 1);
      coap_add_resource(sctx, r);
      obs_res = r;
      r = coap_resource_init(coap_make_str_const("canary"), 0);
      coap_register_request_handler(r, COAP_REQUEST_GET, hnd_canary);
      coap_add_resource(sctx, r);
    }
    cx::new_endpoint(w, 0, sctx, 5683, COAP_PROTO_UDP);
    cx::new_endpoint(w, 0, sctx, 5683, COAP_PROTO_TCP);
    cx::new_endpoint(w, 0, sctx, 8080, COAP_PROTO_WS);
    {
      World::AsNode as(1);
      coap_context_set_block_mode(cctx, COAP_BLOCK_USE_LIBCOAP | COAP_BLOCK_SINGLE_BODY);
      coap_register_response_handler(cctx, resp_cb);
    }
    coap_session_t *sess = cx::new_client(w, 1, cctx, World::node_addr(0, 5683), COAP_PROTO_UDP);
    simk::Addr client_addr = cx::local_of(sess), server_addr = World::node_addr(0, 5683);
    // valid traffic seen on the wire (attacker's raw material)
    std::vector<std::pair<int, Bytes>> seen;   // (direction 0 = to server, 1 = to client, bytes)
    uint64_t delivered_hostile = 0;
    w.taps.push_back([&](const WireEv &e) {
      if (e.kind == WireEv::SEND && e.from != 2 && seen.size() < 400) seen.push_back({e.from == 1 ? 0 : 1, e.d->data});
      if (e.kind == WireEv::DELIVER && e.from == 2) delivered_hostile++;
    });
    // victim workload
    auto send_req = [&](int code, const char *path, bool observe, size_t body, uint8_t tokb) {
      World::AsNode as(1);
      coap_pdu_t *p = coap_new_pdu(COAP_MESSAGE_CON, (coap_pdu_code_t)code, sess);
      if (!p) return;
      uint8_t tok[4] = {0xC2, tokb, 0x11, 0x22};
      coap_add_token(p, 4, tok);
      if (observe) { uint8_t z = 0; coap_add_option(p, COAP_OPTION_OBSERVE, 0, &z); }
      coap_add_option(p, COAP_OPTION_URI_PATH, strlen(path), (const uint8_t *)path);
      if (body) {
        static uint8_t up[2500];
        for (size_t i = 0; i < sizeof up; i++) up[i] = bb(i + 3);
        coap_add_data_large_request(sess, p, body, up, nullptr, nullptr);
      }
      coap_send(sess, p);
    };
    w.at_ns(w.now(), [&]() {
      if (scenario == 0) send_req(1, "big", false, 0, 1);
      else if (scenario == 1) send_req(2, "up", false, 2500, 2);
      else if (scenario == 2) send_req(1, "obs", true, 0, 3);
      else send_req(1, "canary", false, 0, 4);
    }, 1);
    if (scenario == 2)
      for (int k = 1; k <= 6; k++) w.at_ns(w.now() + (uint64_t)k * 60 * 1000000ull, [&]() { World::AsNode as(0); coap_resource_notify_observers(obs_res, nullptr); }, 0);
    else
      w.at_ns(w.now() + 200 * 1000000ull, [&]() { send_req(1, "big", false, 0, 5); }, 1);
    // attacker
    int afd = simk::raw_udp_socket(2, World::node_addr(2, 7000));
    w.pollers.push_back([&]() { simk::Datagram d; while (simk::raw_recv(afd, d)) {} });
    for (auto &op : plan["ops"]) {
      json o = op;
      w.at_ns(w.now() + (uint64_t)op.value("t_ms", 0) * 1000000ull, [&, o]() {
        Rng r(o.value("salt", 1ull));
        bool to_server = o.value("target", "server") == "server";
        Bytes b;
        std::string kind = o.value("kind", "blind");
        if (kind == "crafted") b = crafted(r);
        else if (kind == "long_options") {
          // header (any type, request or response code), optional token, then an option area of 600..1450 bytes: either a run of tiny
          // well-formed options that ends in a malformed one, or a malformed first option followed by filler
          size_t tl = (size_t)r.range(0, 8);
          b = {(uint8_t)(0x40 | r.below(4) << 4 | tl), (uint8_t)(r.chance(0.7) ? r.range(1, 4) : 0x45), (uint8_t)r.below(256), (uint8_t)r.below(256)};
          Bytes tok = r.bytes(tl);
          b.insert(b.end(), tok.begin(), tok.end());
          size_t area = (size_t)r.range(600, 1450), room = 1470 - b.size();
          if (area > room) area = room;
          static const uint8_t bad[] = {0xF1, 0x1F, 0xF0, 0xFF, 0xE1, 0xD0, 0xEE};
          if (r.chance(0.5)) { b.push_back(bad[r.below(7)]); while (area-- > 1) b.push_back(r.chance(0.5) ? (uint8_t)r.below(256) : 0x11); }
          else { uint8_t fill = (uint8_t)r.pick(std::vector<int>{0x00, 0x10, 0x01, 0x11}); while (area > 2) { b.push_back(fill); if (fill & 0x0f) { b.push_back('x'); area--; } area--; } b.push_back(bad[r.below(7)]); b.push_back(0x41); }
        }
        else if (kind == "blind" || seen.empty()) b = r.bytes((size_t)r.range(0, 60));
        else {
          // the k-th datagram seen so far in the direction of the target (else any)
          std::vector<const Bytes *> pool;
          for (auto &s : seen) if (s.first == (to_server ? 0 : 1)) pool.push_back(&s.second);
          if (pool.empty()) for (auto &s : seen) pool.push_back(&s.second);
          b = *pool[(size_t)o.value("k", 0) % pool.size()];
          if (kind == "mutate") b = mutate(r, b);
        }
        simk::Addr dst = to_server ? server_addr : client_addr;
        simk::Addr src = o.value("spoof", false) ? (to_server ? client_addr : server_addr) : World::node_addr(2, 7000);
        w.count("probe.hostile_inputs");
        simk::raw_send_from(2, src, dst, b);
      });
    }
    // hostile stream at the server
    int sfd = -1;
    int stream_canary = 0;      // 1 = TCP, 2 = WebSocket: the stream is entirely well-formed and ends with GET /canary
    Bytes stream;
    if (stream_kind) {
      Rng r(plan.value("sched_salt", 1ull) ^ 0x77);
      bool ws = stream_kind == 2;
      if (ws) {
        std::string req = "GET /.well-known/coap HTTP/1.1\r\nHost: h\r\nUpgrade: websocket\r\nConnection: Upgrade\r\nSec-WebSocket-Key: dGhlIHNhbXBsZSBub25jZQ==\r\nSec-WebSocket-Protocol: coap\r\nSec-WebSocket-Version: 13\r\n\r\n";
        stream.insert(stream.end(), req.begin(), req.end());
      }
      for (int i = 0; i < 6; i++) {
        r1::Msg m;
        if (i == 0) { m.code = 0xE1; m.opts.push_back({2, r1::encode_uint(70000)}); }
        else if (r.chance(0.3)) {
          // unusual but legal signalling: Ping / Pong with or without token, i.e. messages of two bytes (Len 0, TKL 0), Ping with Custody
          m.code = r.chance(0.7) ? 0xE2 : 0xE3;
          if (r.chance(0.5)) m.token = r.bytes((size_t)r.range(1, 8));
          if (m.code == 0xE2 && r.chance(0.2)) m.opts.push_back({2, {}});
        } else {
          m.code = (int)r.range(1, 4);
          m.token = r.bytes((size_t)r.range(0, 8));
          m.opts.push_back({r1::O_URI_PATH, Bytes{'u', 'p'}});
          if (r.chance(0.5)) m.opts.push_back({r1::O_BLOCK1, Bytes{(uint8_t)(r.below(4) << 4 | 8 | r.below(7))}});
          m.payload = r.bytes((size_t)r.range(0, 300));
        }
        Bytes c = ws ? r1::encode_ws_msg(m) : r1::encode_tcp(m);
        if (ws) { uint8_t mask[4] = {9, 8, 7, 6}; c = r1::ws_frame(c, true, mask, 2, (int)r.pick(std::vector<int>{0, 16, 64})); }
        stream.insert(stream.end(), c.begin(), c.end());
      }
      int muts = r.chance(0.3) ? 0 : (int)r.range(1, 8);
      if (muts == 0) {
        // a stream of well-formed messages only: a well-formed request at its end must be answered correctly on this very connection
        r1::Msg m;
        m.code = 1;
        m.token = {0xF0, 0x0D, 0x57};
        m.opts.push_back({r1::O_URI_PATH, Bytes{'c', 'a', 'n', 'a', 'r', 'y'}});
        Bytes c = ws ? r1::encode_ws_msg(m) : r1::encode_tcp(m);
        if (ws) { uint8_t mask[4] = {1, 2, 3, 4}; c = r1::ws_frame(c, true, mask, 2, 0); }
        stream.insert(stream.end(), c.begin(), c.end());
        stream_canary = ws ? 2 : 1;
      }
      for (int i = 0; i < muts && !stream.empty(); i++) {
        size_t pos = (size_t)r.below(stream.size());
        if (r.chance(0.5)) stream[pos] = (uint8_t)r.below(256);
        else if (r.chance(0.5)) stream.insert(stream.begin() + (long)pos, (uint8_t)r.below(256));
        else stream.erase(stream.begin() + (long)pos);
      }
      if (muts && r.chance(0.3)) stream.resize((size_t)r.below(stream.size() + 1));
      sfd = simk::raw_connect(2, World::node_addr(0, ws ? 8080 : 5683));
      std::deque<size_t> cuts;
      for (int i = 0; i < 100; i++) cuts.push_back((size_t)r.range(1, 200));
      w.read_cut_source = [cuts](uint64_t, int side) { return side == 1 ? cuts : std::deque<size_t>(); };
    }
    bool written = false;
    Bytes sink;
    w.pollers.push_back([&]() {
      if (sfd < 0) return;
      if (!written && simk::fd_writable(sfd)) { simk::raw_stream_write(sfd, stream); written = true; w.count("probe.hostile_stream_bytes", stream.size()); }
      simk::raw_stream_read(sfd, sink);
    });
    w.run_for_ms(1500);
    if (stream_canary && !w.aborted) {
      // find the 2.05 "canary" carrying our token among what the server wrote back
      bool ok = false;
      size_t pos = 0;
      if (stream_canary == 2) {
        std::string h(sink.begin(), sink.end());
        size_t e = h.find("\r\n\r\n");
        pos = e == std::string::npos ? sink.size() : e + 4;
      }
      while (pos < sink.size() && !ok) {
        r1::Msg m;
        if (stream_canary == 1) {
          r1::Verdict v;
          std::string why;
          bool tb = false;
          size_t n = r1::take_tcp(sink.data() + pos, sink.size() - pos, m, v, &why, 1u << 24, &tb);
          if (!n) break;
          pos += n;
          if (v != r1::ACCEPT) continue;
        } else {
          if (sink.size() - pos < 2) break;
          size_t l7 = sink[pos + 1] & 0x7f, hdr = 2;
          uint64_t len = l7;
          if (l7 == 126) { if (sink.size() - pos < 4) break; len = (uint64_t)sink[pos + 2] << 8 | sink[pos + 3]; hdr = 4; }
          else if (l7 == 127) { if (sink.size() - pos < 10) break; len = 0; for (int i = 0; i < 8; i++) len = len << 8 | sink[pos + 2 + (size_t)i]; hdr = 10; }
          if (sink.size() - pos < hdr + len) break;
          const uint8_t *q = sink.data() + pos + hdr;
          pos += hdr + (size_t)len;
          std::string why;
          if (len < 2) continue;
          m.code = q[1];
          if (r1::decode_rest(q + 2, (size_t)len - 2, q[0] & 15, m, &why, true) != r1::ACCEPT) continue;
        }
        if (m.code == 0x45 && m.token == Bytes{0xF0, 0x0D, 0x57} && m.payload == Bytes{'c', 'a', 'n', 'a', 'r', 'y'}) ok = true;
      }
      w.count("probe.wellformed_stream_with_canary");
      if (!ok) res.violate("C02.canary_same_stream", stream_canary == 2 ? "ws" : "tcp", strfmt("a %s stream of %zu bytes made of well-formed messages only (incl. token-less signalling) ends with GET /canary, which was not answered with 2.05 on that connection", stream_canary == 2 ? "WebSocket" : "TCP", stream.size()));
    }
    int responses_before_canary = cw.client_responses;
    // time passes: block-wise and session time-outs expire, with nothing hostile any more
    w.run_for_ms(400 * 1000);
    // canaries: same session and fresh peer
    cw.canary_token = {0xCA, 0x9A, 0x01, 0x02};
    {
      World::AsNode as(1);
      coap_pdu_t *p = coap_new_pdu(COAP_MESSAGE_CON, COAP_REQUEST_CODE_GET, sess);
      if (p) {
        coap_add_token(p, 4, cw.canary_token.data());
        coap_add_option(p, COAP_OPTION_URI_PATH, 6, (const uint8_t *)"canary");
        coap_send(sess, p);
      }
    }
    int fresh = simk::raw_udp_socket(2, World::node_addr(2, 7100));
    r1::Msg cm;
    cm.type = 0;
    cm.code = 1;
    cm.mid = 0x4242;
    cm.token = {0xF0, 0x0D};
    cm.opts.push_back({r1::O_URI_PATH, Bytes{'c', 'a', 'n', 'a', 'r', 'y'}});
    simk::raw_sendto(fresh, server_addr, r1::encode_udp(cm));
    bool fresh_ok = false;
    w.pollers.push_back([&]() {
      simk::Datagram d;
      while (simk::raw_recv(fresh, d)) {
        r1::Msg m;
        if (r1::decode_udp(d.data, m) == r1::ACCEPT && m.code == 0x45 && m.token == cm.token && m.payload == Bytes{'c', 'a', 'n', 'a', 'r', 'y'} && m.type == 2 && m.mid == cm.mid) fresh_ok = true;
      }
    });
    w.run_for_ms(120 * 1000);
    if (w.aborted) res.violate("M-live.abort", w.abort_why, "run did not terminate: " + w.abort_why);
    else {
      if (!fresh_ok) res.violate("C02.canary_fresh_peer", "fresh_peer", "after the hostile inputs the server no longer answers a well-formed GET from a fresh peer correctly");
      if (!cw.canary_ok) res.violate("C02.canary_same_session", "same_session", "after the hostile inputs the client's own session no longer completes a well-formed GET");
    }
    if (simk::K().exit_called) res.violate("M-mem.exit", "exit", "libcoap called exit()");
    res.nontrivial = responses_before_canary > 0 && delivered_hostile >= 10;
    uint64_t h = delivered_hostile;
    w.tr.mixbytes(&h, sizeof h);
    w.tr.mixbytes(&cw.client_responses, sizeof cw.client_responses);
    for (auto &s : seen) w.tr.mixbytes(s.second.data(), s.second.size());
    {
      World::AsNode as(1);
      coap_session_release(sess);
      coap_free_context(cctx);
    }
    {
      World::AsNode as(0);
      coap_free_context(sctx);
    }
    if (sfd >= 0) simk::raw_close(sfd);
    w.end();
    g = nullptr;
  }
};

struct Reg { Reg() { register_property(new C02()); } } reg;

}  // namespace
