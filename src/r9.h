// R9 — independent reference implementation of OSCORE message protection (RFC 8613).
// Written from the RFC; shares no code with libcoap. Crypto primitives (HMAC-SHA-256/HKDF, AES-128-CCM) come from nettle;
// CBOR, info/AAD/nonce construction, the OSCORE option codec and the inner/outer option split are local.
// Fixed algorithms: AEAD AES-CCM-16-64-128 (COSE alg 10: key 16, nonce 13, tag 8), HKDF SHA-256.
// Stateless: no sequence-number bookkeeping, no replay window, no Observe notification numbers (RFC 8613 §7) in here.
#pragma once
#include "r1.h"

namespace r9 {

struct Ctx {
  Bytes master_secret, master_salt, id_context;   // id_context may be empty = absent; has_id_context distinguishes empty-but-present
  bool has_id_context = false;
  Bytes sender_id, recipient_id;                   // 0..7 bytes
  // derived by derive():
  Bytes sender_key, recipient_key, common_iv;      // 16,16,13 bytes (AES-CCM-16-64-128, HKDF-SHA-256)
};
// RFC 8613 §3.2.1. Sets has_id_context when id_context is non-empty. Leaves the derived fields empty when an ID is longer
// than 7 bytes (nonce length - 6, §3.3), which makes protect()/unprotect() refuse the context.
void derive(Ctx &c);

// AEAD nonce per RFC 8613 §5.2. Returns an empty vector when id_piv > 7 bytes, partial_iv > 5 bytes or common_iv != 13 bytes.
Bytes nonce(const Bytes &id_piv /*the ID of the endpoint that generated the Partial IV*/, const Bytes &partial_iv, const Bytes &common_iv);
// AAD = Enc_structure ["Encrypt0", h'', external_aad] per §5.4/§5.3 for (request_kid, request_piv); options field empty (no class I options)
Bytes aad(const Bytes &request_kid, const Bytes &request_piv);
// OSCORE option value per §6.1 (flag byte, partial iv, kid context, kid); all absent -> empty vector (response without piv).
// Unencodable input (partial_iv > 5 bytes, kid_context > 255 bytes) also yields an empty vector; protect() never asks for that.
Bytes option_value(const Bytes &partial_iv, bool has_kid_context, const Bytes &kid_context, bool has_kid, const Bytes &kid);
// Strict parser. false for: reserved flag bits 0..2 set (incl. the extension bit), n = 6/7, truncated fields, bytes left over
// when the k flag is clear, and a non-empty value whose flag byte is 0x00 (§6.1: "the option value SHALL be empty").
bool parse_option_value(const Bytes &v, Bytes &partial_iv, bool &has_kid_context, Bytes &kid_context, bool &has_kid, Bytes &kid);

// Minimal big-endian encoding of a sequence number as Partial IV (0 -> one byte 0x00), 1..5 bytes (empty above 2^40-1)
Bytes piv_bytes(uint64_t seq);

// Protect a plaintext CoAP message with the SENDER side of c (§8.1 / §8.3).
//  Requests:  partial iv = piv_bytes(seq), kid = c.sender_id, kid context (= c.id_context) included iff include_kid_context
//             (false is returned when that is asked of a context without ID Context). use_own_piv/request_* are ignored.
//  Responses: request_kid/request_piv are those of the request being answered; they form the AAD. The nonce is the request's
//             nonce (built from request_kid, request_piv) unless use_own_piv, in which case the response carries its own
//             partial iv piv_bytes(seq) and the nonce is built from (c.sender_id, that piv). No kid, no kid context in
//             responses (§5: not needed, cf. vectors C.7/C.8). Whether a notification must use its own piv (§4.1.3.5.2:
//             all but the first) is the caller's call.
//  outer: ver/type/mid/token copied; code 0.02/2.04, or 0.05/2.05 when the message has an Observe option (§4.1.3.5, §4.2);
//         options = class U options of plain + OSCORE option (+ outer Observe / No-Response), sorted; payload = ciphertext||tag.
//  Option split (option_class): outer only: Uri-Host, Uri-Port, Proxy-Scheme, Hop-Limit (RFC 8768 §3), OSCORE.
//         both: Observe (request: same value inner and outer; response: inner EMPTY, outer as given), No-Response (§4.1.3.6,
//         same value). inner only: everything else, including Max-Age (no outer Max-Age is added, §4.1.3.1), Block1/Block2/
//         Size1/Size2 (inner block-wise only, §4.1.3.4.1), Echo/Request-Tag (RFC 9175), Q-Block, and unknown options (§4.1).
//  false: context not derived, seq > 2^40-1, code 0.00, plain already has an OSCORE option, Proxy-Uri present (§4.1.3.3 not
//         supported), inner message larger than the CCM limit for a 13-byte nonce (65535).
bool protect(const Ctx &c, const r1::Msg &plain, bool is_request, uint64_t seq, bool include_kid_context,
             bool use_own_piv, const Bytes &request_kid, const Bytes &request_piv, r1::Msg &outer, std::string *why = nullptr);

// Unprotect an outer message with the RECIPIENT side of c (§8.2 / §8.4): c.recipient_key; nonce ID = c.recipient_id.
//  Requests:  the option must carry a partial iv and a kid equal to c.recipient_id; a kid context, if present, must equal
//             c.id_context ("security context not found" otherwise). AAD from the received kid/piv.
//  Responses: pass request_kid (= our sender id) / request_piv of the request. A partial iv is optional (absent: the request's
//             nonce is used); a kid, if present, must equal c.recipient_id; a kid context is only reported (Appendix B.2 use).
//  The outer code is discarded, not checked (§8.2/§8.4 step 1). Exactly one OSCORE option and a non-empty payload are required (§2).
//  plain: ver/type/mid/token from outer; code, options, payload from the decrypted inner message, plus the outer options
//  that are not class E, sorted stably. Outer options discarded (step 1: everything marked E in Figure 5, plus the later
//  class-E options that may legitimately also travel outside): If-Match, ETag, If-None-Match, Observe, Location-Path,
//  Uri-Path, Content-Format, Max-Age, Uri-Query, Accept, Location-Query, Block2, Block1, Size2, Size1, No-Response,
//  Q-Block1, Q-Block2, Echo, Request-Tag; OSCORE itself is removed. Any other outer option (Uri-Host, Uri-Port, Proxy-*,
//  Hop-Limit, unknown numbers) is kept. An outer Block1/Block2 with NUM != 0 or M set means outer block-wise (§4.1.3.4.2),
//  which needs reassembly first: returns false. Inner options are added as they are (no filtering of class U numbers).
//  Observe (§4.1.3.5): the Outer Observe never reaches plain. Request: plain has Observe iff the inner message has it, with
//  the inner value. Response: plain has Observe iff the inner message has it (inner value is empty by rule; "the client ...
//  SHALL ignore the Outer Observe value"); its value is set to the three least significant bytes of the response's
//  Partial IV, as a minimal-length uint (the MAY of §4.1.3.5.2), or left empty when the response has no Partial IV.
//  A response without Inner Observe is a non-notification even if an Outer Observe is present. The check "Inner Observe in a
//  response to a non-Observe request" needs the request and is left to the caller.
//  The decrypted inner message must be well-formed for r1 (code != 0.00, options/payload marker/known option lengths).
//  kid/piv/kid_context: as found in the option (empty when absent).
bool unprotect(const Ctx &c, const r1::Msg &outer, bool is_request, const Bytes &request_kid, const Bytes &request_piv,
               r1::Msg &plain, Bytes *kid = nullptr, Bytes *piv = nullptr, Bytes *kid_context = nullptr, std::string *why = nullptr);

// Sender-side classification used by protect(): does option n go into the inner (encrypted, class E) and/or the outer
// (class U) message? Both for Observe and No-Response. Proxy-Uri reports outer (class U) although protect() refuses it.
void option_class(uint32_t n, bool &inner, bool &outer);

// Runs RFC 8613 Appendix C test vectors C.1.1, C.1.2, C.2.1, C.2.2, C.3.1, C.3.2 (key derivation) and C.4, C.5, C.6 (requests),
// C.7, C.8 (responses), in both directions, then deterministic round-trip / tamper property tests.
// Returns "" on success, else a description of the first failure.
std::string selftest();

}  // namespace r9
